/-
  C03 — Parsing is total.

  What a theorem can carry here is the library's share: its handlers, the retry inside the wrapper, the
  number of handler invocations.  The tokenizer is a parameter: the statements quantify over EVERY token
  sequence (arbitrary, hostile, no well-formedness).  The stdlib tokenizer's own totality and running time,
  and the real debugger prompt, are observed in the tie (stream C03), not proved.  Serialisers
  (`Node.html`, `docHTML`) are total Lean functions over every tree, including `None` attribute values and
  odd tag names; that the Python serialisers are total on the same trees is the tie's part.

  Second part (after the review of the statements): the same for ALL the classes the property names — the four
  formatters (`Fmt.step`/`Fmt.feed`, every `Cfg`) and the indexed parser (`G3.idxStep`: the inherited handler, then
  `_indexTag` with its KeyError kept) —, the general wrapped pass (after the wrapper's start tag ANY tokens without
  its end tag), "never raises at all" for input without the wrapper's end tag (and, citing C02a, the document it
  builds), the object across calls (`_reset` restores the initial state from every state a pass can leave), when
  `getHTML` is defined, and a COST model of the handlers with the bound that is true of it (O(n·depth), not O(n)).
-/
import AHP.Lemmas.BuilderTop
import AHP.Lemmas.TotalCost
import AHP.Lemmas.TotalFormat
import AHP.Lemmas.TotalIndex
import AHP.Props.C02
import AHP.Props.C07
namespace AHP.C03
open AHP AHP.Spec

/-- **C03a.** Whatever the token, a handler of the plain parser either succeeds or raises
    MultipleRootNodeException — nothing else (no index error on an empty stack, no other exception). -/
theorem step_ok_or_multipleRoot (s : TState) (t : Token) :
    (∃ s', stepT s t = .ok s') ∨ stepT s t = .multipleRoot := by
  cases t with
  | decl d => exact Or.inl ⟨s, rfl⟩
  | unknownDecl d => exact Or.inl ⟨s, rfl⟩
  | pi d => exact Or.inl ⟨s, rfl⟩
  | end_ n => exact Or.inl ⟨_, rfl⟩
  | comment c => simp only [stepT, addTextStrict]; split <;> simp
  | entity c => simp only [stepT, addTextStrict]; split <;> simp
  | charref c => simp only [stepT, addTextStrict]; split <;> simp
  | start n a => simp only [stepT, handleStart]; split <;> (try split) <;> simp
  | startend n a => simp only [stepT, handleStart]; split <;> (try split) <;> simp
  | data d => simp only [stepT]; split <;> (try split) <;> (try split) <;> simp

theorem run_ok_or_multipleRoot (ts : List Token) : ∀ s : TState,
    (∃ s', runT s ts = .ok s') ∨ runT s ts = .multipleRoot := by
  induction ts with
  | nil => intro s; exact Or.inl ⟨s, rfl⟩
  | cons t ts ih =>
    intro s
    rcases step_ok_or_multipleRoot s t with ⟨s', h⟩ | h
    · simp only [runT, h]; exact ih s'
    · right; simp [runT, h]

/-- inside an open element no handler raises -/
theorem step_inside_ok (s : TState) (h : s.stack ≠ []) (t : Token) : ∃ s', stepT s t = .ok s' := by
  rcases step_ok_or_multipleRoot s t with h1 | h1
  · exact h1
  · exfalso
    have hst : s.stack.isEmpty = false := by
      cases hs : s.stack with
      | nil => exact absurd hs h
      | cons f fs => rfl
    cases t <;> simp [stepT, addTextStrict, handleStart, hst] at h1
    all_goals (split at h1 <;> simp_all)

/-- the rest left by `items` is a suffix of its input -/
theorem items_rest_suffix (k : Nat) : ∀ (open_ : List Str) (ts : List Token), ts.length < k →
    ∃ pre, ts = pre ++ (items k open_ ts).2 := by
  induction k with
  | zero => intro _ ts h; simp at h
  | succ k ih =>
    intro open_ ts hk
    cases ts with
    | nil => exact ⟨[], by simp [items]⟩
    | cons t ts =>
      have hk' : ts.length < k := by simp at hk; omega
      have hg : ∃ pre, t :: ts = pre ++ (items k open_ ts).2 := by
        obtain ⟨pre, hp⟩ := ih open_ ts hk'
        exact ⟨t :: pre, by rw [List.cons_append, ← hp]⟩
      cases t with
      | end_ n =>
        simp only [items]
        split
        · exact ⟨[], rfl⟩
        · exact hg
      | startend n a => simp only [items]; exact hg
      | decl d => simp only [items, textOf]; exact hg
      | unknownDecl d => simp only [items, textOf]; exact hg
      | pi d => simp only [items, textOf]; exact hg
      | comment d => simp only [items, textOf]; exact hg
      | entity d => simp only [items, textOf]; exact hg
      | charref d => simp only [items, textOf]; exact hg
      | data d => simp only [items, textOf]; split <;> exact hg
      | start n a =>
        simp only [items]
        split
        · exact hg
        · obtain ⟨pre1, hp1⟩ := ih (lower n :: open_) ts hk'
          have hl := (items_rest k (lower n :: open_) ts hk').2
          have hl2 := afterContent_len (lower n) (items k (lower n :: open_) ts).2
          obtain ⟨pre2, hp2⟩ := ih open_ (afterContent (lower n) (items k (lower n :: open_) ts).2) (by omega)
          have hac : ∃ pre3, (items k (lower n :: open_) ts).2
              = pre3 ++ afterContent (lower n) (items k (lower n :: open_) ts).2 := by
            unfold afterContent
            split
            · split
              · rename_i heq _; exact ⟨[_], by rw [heq]; rfl⟩
              · exact ⟨[], rfl⟩
            · exact ⟨[], rfl⟩
          obtain ⟨pre3, hp3⟩ := hac
          refine ⟨.start n a :: pre1 ++ pre3 ++ pre2, ?_⟩
          simp only [List.cons_append, List.append_assoc]
          rw [← hp2, ← hp3, ← hp1]

private theorem mem_of_append_singleton_eq (e x : Token) : ∀ (pre ts r3 : List Token),
    ts ++ [e] = pre ++ e :: x :: r3 → e ∈ ts := by
  intro pre
  induction pre with
  | nil =>
    intro ts r3 h
    cases ts with
    | nil => simp at h
    | cons t ts' => simp at h; rw [h.1]; exact List.mem_cons_self
  | cons p pre' ih =>
    intro ts r3 h
    cases ts with
    | nil =>
      have := congrArg List.length h
      simp at this
    | cons t ts' =>
      simp only [List.cons_append, List.cons.injEq] at h
      exact List.mem_cons_of_mem _ (ih ts' r3 h.2)

/-- no end tag of the wrapper inside the input -/
def NoWrapperEnd (ts : List Token) : Prop := ∀ t ∈ ts, t ≠ Token.end_ wrapperName

/-- **C03b.** The single retry suffices: inside the wrapper, any token sequence without the wrapper's own
    end tag — however hostile — is parsed without MultipleRootNodeException (and by C03a without any other
    exception). -/
theorem wrapped_never_fails (ts : List Token) (hw : NoWrapperEnd ts) :
    ∃ s', runT TState.init (.start wrapperName [] :: ts ++ [.end_ wrapperName]) = .ok s' := by
  let s1 : TState := ⟨[⟨wrapperName, AttrState.empty, []⟩], none⟩
  have hs : stepT TState.init (.start wrapperName []) = .ok s1 := by
    simp [stepT, handleStart, TState.init, TState.hasRoot, wrapper_lower, wrapper_not_void, intake, s1]
  let l := ts ++ [Token.end_ wrapperName]
  let K := l.length + 1
  have hK : l.length < K := Nat.lt_succ_self _
  have hitems := runT_items K s1 l hK (by simp [s1])
  have hnames : names s1 = [wrapperName] := rfl
  rw [hnames] at hitems
  have hfin : ∃ s', (runT s1 l).fin = .ok s' := by
    rw [hitems]
    rcases (items_rest K [wrapperName] l hK).1 with hnil | ⟨m, r2, hm, hmem⟩
    · rw [hnil]; exact ⟨_, rfl⟩
    · have hmw : m = wrapperName := by simpa using hmem
      subst hmw
      -- the rest is a suffix of `ts ++ [end W]` that starts with `end W`: it is the last token
      obtain ⟨pre, hpre⟩ := items_rest_suffix K [wrapperName] l hK
      rw [hm] at hpre
      have hr2 : r2 = [] := by
        cases hr : r2 with
        | nil => rfl
        | cons x r3 =>
          exfalso
          rw [hr] at hpre
          -- `end W` then occurs strictly before the end of `l`, i.e. inside `ts`
          have hmemts : Token.end_ wrapperName ∈ ts := mem_of_append_singleton_eq _ _ _ _ _ hpre
          exact hw _ hmemts rfl
      rw [hm, hr2]
      have hs1 : s1 = { (⟨[], none⟩ : TState) with stack := ⟨wrapperName, AttrState.empty, []⟩ :: (⟨[], none⟩ : TState).stack } := rfl
      have hclose := stepT_close_own ⟨[], none⟩ wrapperName AttrState.empty (items K [wrapperName] l).1
      rw [← hs1] at hclose
      simp only [runT, hclose]
      exact ⟨_, rfl⟩
  obtain ⟨s', hs'⟩ := hfin
  have : ∃ s'', runT s1 l = .ok s'' := by
    rcases run_ok_or_multipleRoot l s1 with h | h
    · exact h
    · rw [h] at hs'; simp [Outcome.fin] at hs'
  obtain ⟨s'', h''⟩ := this
  exact ⟨s'', by simp only [List.cons_append, runT, hs]; exact h''⟩

/-- **C03d.** The library's share of the time bound: a parse hands at most `2·|tokens| + 2` tokens to
    its handlers (one pass, plus at most one retry over the same tokens and the wrapper's two tags). -/
def handlerInvocations (toks : List Token) : Nat :=
  toks.length + (match run BState.init toks with
    | .multipleRoot => (wrapToks toks).length
    | _ => 0)

theorem wrapToks_length (toks : List Token) : (wrapToks toks).length = toks.length + 2 := by
  unfold wrapToks
  cases h : leadDoctype toks with
  | none => simp
  | some p =>
    obtain ⟨pre, r⟩ := p
    have htoks : toks = pre ++ r := by
      unfold leadDoctype at h
      split at h
      · simp at h; rw [← h.1, ← h.2]; rfl
      · split at h
        · simp at h; rw [← h.1, ← h.2]; rfl
        · simp at h
      · simp at h
    rw [htoks]; simp; omega

theorem invocations_linear (toks : List Token) : handlerInvocations toks ≤ 2 * toks.length + 2 := by
  unfold handlerInvocations
  split
  · rw [wrapToks_length]; omega
  · omega

/-- **C03 (first pass).** For every token sequence the first pass ends in a document or in
    MultipleRootNodeException; in the second case the retry is taken (`feedTokens` is a total function whose
    only other results would be the validating parser's exceptions, which the plain handlers never produce). -/
theorem feed_never_other_exception (toks : List Token) :
    (∃ d b, feedTokens toks = .doc d b) ∨ feedTokens toks = .raised .multipleRoot := by
  unfold feedTokens
  have h1 := run_ok_or_multipleRoot toks TState.init
  have hrun : run BState.init toks = (runT TState.init toks).map (fun tr => ⟨tr, toks.foldl stepD none⟩) :=
    run_eq toks BState.init
  rcases h1 with ⟨s', h⟩ | h
  · left
    rw [hrun, h]
    exact ⟨_, _, rfl⟩
  · rw [hrun, h]
    simp only [Outcome.map]
    have h2 := run_ok_or_multipleRoot (wrapToks toks) TState.init
    have hrun2 : run BState.init (wrapToks toks)
        = (runT TState.init (wrapToks toks)).map (fun tr => ⟨tr, (wrapToks toks).foldl stepD none⟩) :=
      run_eq (wrapToks toks) BState.init
    rw [hrun2]
    rcases h2 with ⟨s', h⟩ | h
    · left; rw [h]; exact ⟨_, _, rfl⟩
    · right; rw [h]; rfl

/-! #### Non-vacuity -/
example : NoWrapperEnd [.end_ "a".toList, .data "x".toList, .start "b<".toList [("/div".toList, none)]] := by
  intro t ht; simp at ht; rcases ht with h | h | h <;> subst h <;> decide


/-! ## Second part: every class, the general wrapped pass, the object across calls, `getHTML`, cost -/

/-! #### C03a is not an artefact of the totalised `handleEnd`

`stepT` answers `.ok` for every end tag because `handle_endtag` wraps its body in `try: … except: pass`.  With the
IndexError of `inTag[-1]` / `inTag.pop()` on an empty list kept as a failure value (`handleEndE`, `popToE`), the
handler still never fails: the `foundIt` scan guarantees the closing loop stops before the list is empty.  The bare
`except` is dead code. -/
theorem handleEnd_never_index_error (s : TState) (n : Str) : handleEndE s n = some (handleEnd s n) :=
  handleEndE_eq s n

example : handleEndE ⟨[⟨"b".toList, AttrState.empty, []⟩, ⟨"a".toList, AttrState.empty, []⟩], none⟩ "a".toList
    = some ⟨[], some (.elem "a".toList AttrState.empty false [.elem "b".toList AttrState.empty false []])⟩ := by
  rfl

/-! #### C03b generalised: after the wrapper's start tag, ANY tokens without its end tag -/

/-- **C03b (general).**  Outer tokens (what `addStartTag` may leave in front: blank text, a declaration), the
    wrapper's start tag, then ANY token sequence that contains no end tag of the wrapper — not only `ts ++ [end W]`:
    on hostile text the tokenizer may swallow the closing tag, or produce other tokens after it —, then outer tokens
    (the closing `end W` is one): the plain parser raises nothing. -/
theorem after_wrapper_start_never_fails (pre ts post : List Token) (a : List Attr)
    (hpre : ∀ t ∈ pre, isOuter t = true) (hw : NoWrapperEnd ts) (hpost : ∀ t ∈ post, isOuter t = true) :
    ∃ s', runT TState.init (pre ++ .start wrapperName a :: (ts ++ post)) = .ok s' :=
  runT_wrapped_general wrapperName wrapper_lower wrapper_not_void pre ts post a hpre hw hpost

/-- the state form: once the outermost open element is the wrapper, every token except its end tag is accepted
    and leaves it the outermost open element -/
theorem inside_wrapper_never_fails (s : TState) (hb : Bottom wrapperName s) (ts : List Token) (hw : NoWrapperEnd ts) :
    ∃ s', runT s ts = .ok s' ∧ Bottom wrapperName s' :=
  runT_bottom ts hb hw

/-- the second pass exactly as `feed` builds it -/
theorem second_pass_never_fails (toks : List Token) (hw : NoWrapperEnd toks) :
    ∃ s', runT TState.init (wrapToks toks) = .ok s' :=
  runT_wrapToks_ok toks hw

/-- **C03 (plain parser, strengthened): never raises at all.**  For every token sequence without an end tag of the
    wrapper, `feed` ends in a document — first pass, or the single retry. -/
theorem feed_never_raises (toks : List Token) (hw : NoWrapperEnd toks) : ∃ d b, feedTokens toks = .doc d b := by
  rcases feed_never_other_exception toks with h | h
  · exact h
  · exfalso
    unfold feedTokens at h
    have hrun : ∀ l, run BState.init l = (runT TState.init l).map (fun tr => ⟨tr, l.foldl stepD none⟩) :=
      fun l => run_eq l BState.init
    rcases run_ok_or_multipleRoot toks TState.init with ⟨s', h1⟩ | h1
    · rw [hrun, h1] at h; simp [Outcome.map, FeedResult.ofPass] at h
    · rw [hrun, h1] at h
      simp only [Outcome.map] at h
      obtain ⟨s2, h2⟩ := second_pass_never_fails toks hw
      rw [hrun, h2] at h; simp [Outcome.map, FeedResult.ofPass] at h

theorem noWrapperEnd_of_noWrapper (toks : List Token) (h : C02.NoWrapper toks) : NoWrapperEnd toks := by
  intro t ht e
  have := h t ht
  rw [e] at this
  simp [mentionsWrapper] at this

/-- … and which document: C02a (`C02.feed_eq_spec`) composed — inside the property's domain (the reserved name not
    mentioned) the result is the document of the stack-free specification. -/
theorem feed_is_spec_doc (toks : List Token) (hw : C02.NoWrapper toks) :
    feedTokens toks = .doc (Spec.build toks).1 (Spec.build toks).2 :=
  C02.feed_eq_spec toks hw

/-! #### the object across calls -/

/-- **`_reset` restores the initial state from EVERY state** a pass can leave — completed, raised half way,
    elements still open: its three assignments cover the whole model state. -/
theorem reset_restores_init (s : BState) : s.reset = BState.init := rfl

/-- `feed` on a USED object (any state: a second `feed` continues the document; a chunk fed after an exception):
    a document state or MultipleRootNodeException, nothing else -/
theorem feedS_never_other_exception (s : BState) (toks : List Token) :
    (feedS s toks).2 = none ∨ (feedS s toks).2 = some .multipleRoot := by
  unfold feedS
  rcases runS_cases s toks with ⟨s', _, h⟩ | ⟨e, he, h⟩
  · rw [h]; exact Or.inl rfl
  · rcases run_err_plain s toks with h0 | h0
    · rw [h0] at he; cases he
    · rw [h0] at he
      have : e = .multipleRoot := by cases he; rfl
      subst this
      rw [G3.pair_eta _ _ h]
      simp only
      rw [runS_err]
      exact run_err_plain _ _

/-- `parseStr` on an object in ANY state is `parseStr` on a fresh object -/
theorem parseStrS_fresh (s : BState) (toks : List Token) : parseStrS s toks = feedS BState.init toks := rfl

/-- **usable for the next parse.**  Whatever the object went through (`s0` arbitrary, then `parseStr` of any
    tokens — ended normally, raised, elements left open), the next `parseStr` gives what a fresh parser gives. -/
theorem parse_after_any_history (s0 : BState) (toks next : List Token) :
    resultOf ((run BState.init next).err == some .multipleRoot) (parseStrS (parseStrS s0 toks).1 next)
      = feedTokens next := by
  rw [parseStrS_fresh]; exact feedS_init next

/-- `<b>x</b>` -/
def bx : List Token := [.start "b".toList [], .data "x".toList, .end_ "b".toList]

/-- … in particular: any text, then `<b>x</b>`, gives the document of `<b>x</b>` -/
theorem then_bx_parses (s0 : BState) (toks : List Token) :
    resultOf false (parseStrS (parseStrS s0 toks).1 bx)
      = .doc ⟨none, some (.elem "b".toList AttrState.empty false [.text "x".toList])⟩ false := by
  rw [parseStrS_fresh]; rfl

/-- the state a raising pass leaves is not the initial one (so `reset_restores_init` is not vacuous): after
    `<a>` `x` `</a>` `<b>` the object holds the finished `a` as root, and the next `parseStr` still works -/
example : runS BState.init [.start "a".toList [], .end_ "a".toList, .start "b".toList []]
    = (⟨⟨[], some (.elem "a".toList AttrState.empty false [])⟩, none⟩, some .multipleRoot) := by rfl

/-! #### when `getHTML` is defined -/

/-- **`getHTML` is a total function to strings on every state with a root, and answers the documented ValueError
    (`none`) exactly when there is none** — whatever the tree contains (`docHTML : Option Str → Node → Str`). -/
theorem getHTML_defined_iff_root (s : BState) : s.doc.html.isSome = s.tree.hasRoot := by
  simp [BState.doc, Doc.html, finish_root]

/-- "either nothing was parsed or `getHTML` returns a string", and when: nothing was parsed exactly when every
    token is an outer one (blank text, declarations, processing instructions, stray end tags) -/
theorem nothing_parsed_iff (toks : List Token) (d : Doc) (b : Bool) (h : feedTokens toks = .doc d b) :
    d.html = none ↔ ∀ t ∈ toks, isOuter t = true := by
  have hrun : ∀ l, run BState.init l = (runT TState.init l).map (fun tr => ⟨tr, l.foldl stepD none⟩) :=
    fun l => run_eq l BState.init
  have hroot : ∀ (s : BState), s.doc.html = none ↔ s.tree.hasRoot = false := by
    intro s
    have := getHTML_defined_iff_root s
    cases hh : s.doc.html <;> rw [hh] at this <;> simp at this <;> simp [this]
  unfold feedTokens at h
  rcases run_ok_or_multipleRoot toks TState.init with ⟨s', h1⟩ | h1
  · rw [hrun, h1] at h
    simp only [Outcome.map, FeedResult.ofPass, FeedResult.doc.injEq] at h
    rw [← h.1, hroot]
    exact runT_init_noRoot toks s' h1
  · rw [hrun, h1] at h
    simp only [Outcome.map] at h
    rcases run_ok_or_multipleRoot (wrapToks toks) TState.init with ⟨s2, h2⟩ | h2
    · rw [hrun, h2] at h
      simp only [Outcome.map, FeedResult.ofPass, FeedResult.doc.injEq] at h
      rw [← h.1, hroot]
      constructor
      · intro hr
        have := (runT_init_noRoot (wrapToks toks) s2 h2).mp hr _ (start_mem_wrapToks toks)
        simp [isOuter] at this
      · intro hall
        rw [runT_outer_empty toks TState.init rfl hall] at h1; cases h1
    · rw [hrun, h2] at h; simp [Outcome.map, FeedResult.ofPass] at h

example : (⟨none, some (.elem "a".toList AttrState.empty false [.text "<".toList])⟩ : Doc).html
    = some "<a ><</a>".toList := by decide

/-! #### cost: what "time proportional to the input length" is, and is not

`invocations_linear` bounds the number of handler CALLS.  The calls are not constant time: `handle_endtag` scans the
open-element stack (`for i in range(len(inTag))` from the outermost, then the closing loop from the innermost), and
`appendText` is `self.text += text`.  `Lemmas/TotalCost.lean` defines the cost (`stepCost`: 1 per call + 1 per
`tagName` comparison; `textCost`: characters copied by the concatenation) and proves the bounds that are true. -/

/-- **C03d (cost).**  comparisons + calls of a pass ≤ |tokens| · (2·maxDepth + 1): linear for bounded nesting depth -/
theorem cost_le_depth (s : TState) (ts : List Token) : runCost s ts ≤ ts.length * (2 * maxDepth s ts + 1) :=
  runCost_le ts s

/-- the depth is at most the number of tokens, so the cost is at most quadratic -/
theorem cost_le_quadratic (s : TState) (ts : List Token) :
    runCost s ts ≤ ts.length * (2 * (s.stack.length + ts.length) + 1) :=
  runCost_le_quadratic s ts

/-- cost of `feed`: the pass, and the retry when it is taken -/
def feedCost (toks : List Token) : Nat :=
  runCost TState.init toks + (match run BState.init toks with
    | .multipleRoot => runCost TState.init (wrapToks toks)
    | _ => 0)

theorem feedCost_le (toks : List Token) :
    feedCost toks ≤ (2 * toks.length + 2) *
      (2 * max (maxDepth TState.init toks) (maxDepth TState.init (wrapToks toks)) + 1) := by
  unfold feedCost
  have h1 := runCost_le toks TState.init
  have h2 := runCost_le (wrapToks toks) TState.init
  rw [wrapToks_length] at h2
  generalize maxDepth TState.init toks = d1 at *
  generalize maxDepth TState.init (wrapToks toks) = d2 at *
  have e1 : toks.length * (2 * d1 + 1) ≤ toks.length * (2 * max d1 d2 + 1) :=
    Nat.mul_le_mul_left _ (by have := Nat.le_max_left d1 d2; omega)
  have e2 : (toks.length + 2) * (2 * d2 + 1) ≤ (toks.length + 2) * (2 * max d1 d2 + 1) :=
    Nat.mul_le_mul_left _ (by have := Nat.le_max_right d1 d2; omega)
  have e3 : (2 * toks.length + 2) * (2 * max d1 d2 + 1)
      = toks.length * (2 * max d1 d2 + 1) + (toks.length + 2) * (2 * max d1 d2 + 1) := by
    rw [← Nat.add_mul]; congr 1; omega
  rw [e3]
  split <;> omega

/-- **it is NOT linear**: `k` start tags followed by `k` end tags of a name that is not open cost exactly
    `k² + 2k` — every stray end tag scans the whole stack -/
theorem cost_deep_stray_closes (k : Nat) : runCost TState.init (opens k ++ strays k) = k * k + 2 * k :=
  cost_opens_strays k

theorem cost_is_not_linear (c : Nat) : ∃ toks : List Token, c * toks.length < runCost TState.init toks :=
  cost_not_linear c

/-- the concatenations `self.text += text` of a pass copy at most |tokens| · (total text) characters -/
theorem text_cost_le (ts : List Token) : runTextCost TState.init ts ≤ ts.length * totalText ts := by
  have := runTextCost_le ts 0 TState.init textBound_init
  simpa using this

/-- … and they are not linear either: `<a>` followed by `k` references copies at least `5·k²/2` characters -/
theorem text_cost_is_quadratic (k : Nat) :
    5 * (k * k) ≤ 2 * runTextCost TState.init (.start nameA [] :: refs k) :=
  text_cost_quadratic k

example : runCost TState.init (opens 3 ++ strays 3) = 15 := by decide
example : maxDepth TState.init (opens 3 ++ strays 3) = 3 := by decide

/-! #### the four formatters -/

/-- **C03a for the formatters.**  Whatever the token and the configuration (pretty / mini / slim / slim-mini, any
    indent), a handler of a formatter succeeds or raises MultipleRootNodeException — it never answers the other
    error of the model (`noRoot`) and there is no further failure value. -/
theorem formatter_step_ok_or_multipleRoot (cfg : Fmt.Cfg) (s : Fmt.St) (t : Fmt.Tok) :
    (∃ s', Fmt.step cfg s t = .ok s') ∨ Fmt.step cfg s t = .error .multipleRoot :=
  Fmt.step_ok_or_multipleRoot cfg s t

theorem formatter_pass_ok_or_multipleRoot (cfg : Fmt.Cfg) (ts : List Fmt.Tok) (s : Fmt.St) :
    (∃ s', Fmt.run cfg ts s = .ok s') ∨ Fmt.run cfg ts s = .error .multipleRoot :=
  Fmt.run_ok_or_multipleRoot cfg ts s

/-- `feed` of a formatter: a state or MultipleRootNodeException (raised by the retry), for every token sequence -/
theorem formatter_feed_never_other_exception (cfg : Fmt.Cfg) (toks : List Fmt.Tok) :
    (∃ s', Fmt.feed cfg toks = .ok s') ∨ Fmt.feed cfg toks = .error .multipleRoot := by
  unfold Fmt.feed
  rcases Fmt.run_ok_or_multipleRoot cfg toks {} with ⟨s', h⟩ | h
  · rw [h]; exact Or.inl ⟨s', rfl⟩
  · rw [h]; exact Fmt.run_ok_or_multipleRoot cfg _ {}

/-- no end tag of the wrapper inside the input (formatter tokens) -/
def FNoWrapperEnd (ts : List Fmt.Tok) : Prop := ∀ t ∈ ts, t ≠ Fmt.Tok.end_ Fmt.wrapper

/-- **C03b for the formatters (general).**  Outer tokens, the wrapper's start tag, ANY tokens without its end
    tag, outer tokens: no formatter class raises. -/
theorem formatter_wrapped_never_fails (cfg : Fmt.Cfg) (pre ts post : List Fmt.Tok) (a : List (Str × Option Str))
    (hpre : ∀ t ∈ pre, Fmt.isOuterTok t = true) (hw : FNoWrapperEnd ts)
    (hpost : ∀ t ∈ post, Fmt.isOuterTok t = true) :
    ∃ s', Fmt.run cfg (pre ++ .start Fmt.wrapper a :: (ts ++ post)) {} = .ok s' :=
  Fmt.run_wrapped_general cfg pre ts post a hpre hw hpost

/-- **the formatters never raise at all** on input without the wrapper's end tag -/
theorem formatter_feed_never_raises (cfg : Fmt.Cfg) (toks : List Fmt.Tok) (hw : FNoWrapperEnd toks) :
    ∃ s', Fmt.feed cfg toks = .ok s' := by
  rcases formatter_feed_never_other_exception cfg toks with h | h
  · exact h
  · exfalso
    unfold Fmt.feed at h
    rcases Fmt.run_ok_or_multipleRoot cfg toks {} with ⟨s', h1⟩ | h1
    · rw [h1] at h; cases h
    · rw [h1] at h
      simp only at h
      obtain ⟨pre, r, htoks, hpre, hshape⟩ := Fmt.wrapToks_shape toks
      have hwr : FNoWrapperEnd r := fun t ht => hw t (by rw [htoks]; exact List.mem_append_right _ ht)
      obtain ⟨s2, h2⟩ := Fmt.run_wrapped_general cfg pre r [.end_ Fmt.wrapper] [] hpre hwr (by simp [Fmt.isOuterTok])
      rw [hshape, h2] at h; cases h

/-- every class of Formatter.py, every constructor argument -/
theorem formatter_classes_never_raise (c : Fmt.Class) (ind : Fmt.IndentArg) (ssc : Bool) (toks : List Fmt.Tok)
    (hw : FNoWrapperEnd toks) : ∃ s', Fmt.feed (Fmt.mkCfg c ind ssc) toks = .ok s' :=
  formatter_feed_never_raises _ toks hw

/-- the formatter's `_reset` restores the initial state from every state -/
theorem formatter_reset_restores_init (s : Fmt.St) : s.reset = {} := rfl

theorem formatter_parse_after_any_history (cfg : Fmt.Cfg) (s0 : Fmt.St) (toks next : List Fmt.Tok) :
    Fmt.asExcept (Fmt.parseStrS cfg (Fmt.parseStrS cfg s0 toks).1 next) = Fmt.feed cfg next := by
  show Fmt.asExcept (Fmt.feedS cfg (Fmt.St.reset _) next) = _
  rw [Fmt.St.reset_eq_init]; exact Fmt.feedS_init cfg next

/-- **the formatter's `getHTML`** answers the documented ValueError exactly when nothing was parsed and is a string
    otherwise -/
theorem formatter_getHTML_defined_iff_root (s : Fmt.St) :
    (Fmt.docHTML s.doctype s.root = .error .noRoot ↔ s.noRoot = true) ∧
    (s.noRoot = false → ∃ str, Fmt.docHTML s.doctype s.root = .ok str) := by
  constructor
  · constructor
    · intro h
      cases hr : s.root with
      | none => exact (Fmt.root_none_iff s).mp hr
      | some r =>
        rw [hr] at h
        obtain ⟨str, hs⟩ := Fmt.docHTML_some s.doctype r
        rw [hs] at h; cases h
    · intro h
      rw [(Fmt.root_none_iff s).mpr h]; rfl
  · intro h
    cases hr : s.root with
    | none => rw [(Fmt.root_none_iff s).mp hr] at h; cases h
    | some r => exact Fmt.docHTML_some s.doctype r

/-! #### the indexed parser -/

open G3 in
/-- **indexing at creation never fails.**  In every reachable index configuration (all 16 flag combinations, any
    attribute indexes, any history of configuration calls and parses) `_indexTag` meets no KeyError. -/
theorem indexing_never_fails (a b c d : Bool) (ops : List C07.Cfg) (e : Elem) :
    (ops.foldl C07.applyCfg (Idx.init a b c d)).indexTagE e
      = some ((ops.foldl C07.applyCfg (Idx.init a b c d)).indexTag e) :=
  Idx.indexTagE_eq (C07.reachable_good a b c d ops) e

open G3 in
/-- **C03 for the indexed parser, a pass.**  For every token sequence, every reading `view` of the new elements and
    every well-formed index state: the pass ends `ok` exactly when the plain parser's does — with the same tree —,
    else in MultipleRootNodeException; never in a KeyError. -/
theorem indexed_parse_total (view : Nat → Str → List Attr → Elem) (i0 : Idx) (st : IState) (h : IdxOK i0 st)
    (ts : List Token) :
    (∃ st', idxRun view st ts = .ok st' ∧ runT st.tree ts = .ok st'.tree ∧ IdxOK i0 st') ∨
    (idxRun view st ts = .error (.raised .multipleRoot) ∧ runT st.tree ts = .multipleRoot) := by
  rcases idxRun_total view ts h with ⟨st', g1, _, g3, g4⟩ | ⟨g1, _, g3, _⟩
  · exact Or.inl ⟨st', g1, g3, g4⟩
  · exact Or.inr ⟨g1, g3⟩

open G3 in
/-- `parseStr` of the indexed parser in any reachable configuration and ANY tree state (whatever an earlier pass
    left): a document or MultipleRootNodeException, and the index stays well formed — usable for the next parse -/
theorem indexed_parseStr_total (view : Nat → Str → List Attr → Elem) (st : IState) (hg : Idx.Good st.idx)
    (toks : List Token) :
    ((idxParseStrS view st toks).2 = none ∨ (idxParseStrS view st toks).2 = some (.raised .multipleRoot)) ∧
    Idx.Good (idxParseStrS view st toks).1.idx :=
  idxFeedS_total view (idxOK_reset hg) toks

open G3 in
/-- … and it never raises at all on input without the wrapper's end tag; the tree is the plain parser's -/
theorem indexed_parseStr_never_raises (view : Nat → Str → List Attr → Elem) (st : IState) (hg : Idx.Good st.idx)
    (toks : List Token) (hw : NoWrapperEnd toks) :
    (idxParseStrS view st toks).2 = none ∧
    (runT TState.init toks = .ok (idxParseStrS view st toks).1.tree ∨
      (runT TState.init toks = .multipleRoot ∧
        runT TState.init (wrapToks toks) = .ok (idxParseStrS view st toks).1.tree)) :=
  idxFeedS_never_raises view (idxOK_reset hg) toks hw

open G3 in
/-- the indexed `_reset` forgets whatever was indexed: the index after it depends on the configuration only -/
theorem indexed_reset_restores_init (i : Idx) (es : List Elem) :
    (es.foldl Idx.indexTag i.resetInternal).resetInternal = i.resetInternal.resetInternal :=
  resetInternal_fold _ es

/-! #### Non-vacuity (second part) -/

example : FNoWrapperEnd [.end_ "a".toList, .data "x".toList, .start "b<".toList [("/div".toList, none)]] := by
  intro t ht; simp at ht; rcases ht with h | h | h <;> subst h <;> simp [Fmt.wrapper] <;> decide

/-- hostile second pass whose closing tag was swallowed and which goes on after a nested wrapper start -/
example : ∃ s', runT TState.init ([.decl "doctype html".toList] ++ .start wrapperName [] ::
    ([.end_ "p".toList, .start wrapperName [], .entity "amp".toList, .start "a".toList [], .end_ "b".toList] ++ [])) = .ok s' :=
  after_wrapper_start_never_fails _ _ _ _ (by simp [isOuter])
    (by intro t ht; simp at ht; rcases ht with h | h | h | h | h <;> subst h <;> simp <;> decide) (by simp)


/-- `feed_never_raises` on a hostile sequence (stray close first, a start tag with a hostile name, text) -/
example : ∃ d b, feedTokens [.end_ "a".toList, .start "b<".toList [("/div".toList, none)], .end_ "b<".toList,
    .data "x".toList] = .doc d b :=
  feed_never_raises _ (by intro t ht; simp at ht; rcases ht with h | h | h | h <;> subst h <;> decide)

/-- nothing parsed: a declaration, blank text and a stray end tag leave no root, and `getHTML` is the ValueError -/
example : feedTokens [.decl "DOCTYPE html".toList, .data " \n".toList, .end_ "p".toList]
    = .doc ⟨some "DOCTYPE html".toList, none⟩ false := by rfl
example : (⟨some "DOCTYPE html".toList, none⟩ : Doc).html = none := rfl

/-- every formatter class on a multi-root hostile sequence -/
example (c : Fmt.Class) (ind : Fmt.IndentArg) (ssc : Bool) :
    ∃ s', Fmt.feed (Fmt.mkCfg c ind ssc)
      [.data "x".toList, .start "a".toList [], .end_ "q".toList, .startend "a".toList [], .entity "amp".toList] = .ok s' :=
  formatter_classes_never_raise c ind ssc _
    (by intro t ht; simp at ht; rcases ht with h | h | h | h | h <;> subst h <;> simp <;> decide)

example : Fmt.docHTML none (({} : Fmt.St).root) = .error .noRoot := rfl

/-- a reading of the new element for the examples: uid = creation index, the valued attributes, no classes -/
def sampleView : Nat → Str → List Attr → G3.Elem :=
  fun k n a => ⟨k, n, a.filterMap (fun p => p.2.map (fun v => (p.1, v))), [], []⟩

/-- a reachable configuration with an attribute index, in its initial object state -/
def sampleIdx : G3.Idx := (G3.Idx.init true true true true).addIndexOn "title".toList

example : G3.IdxOK sampleIdx.resetInternal (G3.IState.reset ⟨TState.init, sampleIdx, []⟩) :=
  G3.idxOK_reset (G3.Idx.addIndexOn_good (G3.Idx.init_good true true true true) _)

/-- the indexed parser on `<a title=t><b>` `</a>` `<c>`: MultipleRootNodeException in the first pass (as the
    plain parser), a document after the retry — the attribute index was exercised (`title`) -/
example : (G3.idxParseStrS sampleView ⟨TState.init, sampleIdx, []⟩
    [.start "a".toList [("title".toList, some "t".toList)], .start "b".toList [], .end_ "a".toList,
     .start "c".toList []]).2 = none :=
  (indexed_parseStr_never_raises sampleView _ (G3.Idx.addIndexOn_good (G3.Idx.init_good true true true true) _) _
    (by intro t ht; simp at ht; rcases ht with h | h | h | h <;> subst h <;> simp <;> decide)).1

/-- the hypothesis `Good` is needed: with the two dicts of the attribute indexes out of step (a state no
    sequence of calls reaches) `_indexTag` raises the KeyError -/
example : G3.Idx.indexTagE { G3.Idx.init true true true true with otherFns := ["title".toList] }
    ⟨0, "a".toList, [("title".toList, "t".toList)], [], []⟩ = none := by rfl

end AHP.C03
