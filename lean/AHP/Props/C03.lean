/- C03 — property theorems (stub: the property is not claimed yet). -/
namespace AHP.C03
end AHP.C03
