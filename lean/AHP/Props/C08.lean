/-
  C08 — All views of an element's attributes agree after any sequence of attribute edits.

  Property theorems only.  Model: AHP/Model/Attrs.lean (executed by the native driver); lemmas: AHP/Lemmas/Attrs*.lean.

  `viewList e` = `getAttributesList()` = the association list the dict shows after the lazy synchronisation.
  C08a says: every other view — computed by the model function of *its own* read path, with its own
  synchronisation calls — is a projection of `viewList e`, in the same order.  C08b: the invariant over all
  histories.  C08c: invalid names.  C08d: the rendered start tag read back.  C08e: copies.
  C08f (`write_read_*`, `write_frame*`, `write_list_*`): what the WRITERS do to that mapping — the written key reads
  back the written value through every reader, every other key reads what it read before (for every operation of
  the store: `write_frame`), and the list changes as a Python dict does (an existing key keeps its place, a new key
  goes last).  Without them C08a–e would hold of a store whose writers do nothing.
  `T : Tables` (constants.py) is universally quantified.  "Ordinary key" = neither `class` nor `style`
  (C09 / C10 treat those) and not a boolean-*string* attribute (`spellcheck`, whose value is normalised to
  "true"/"false" by the store).
-/
import AHP.Lemmas.AttrsWriteRead
import AHP.Lemmas.AttrsCreate
import AHP.Lemmas.AttrsLex
import AHP.Props.AttrStores
namespace AHP.C08
open AHP AHP.Attrs
/- Name resolution: this file also imports the token model (for `lexStrict`, C08d at string level), whose namespace
   `AHP` encloses this one, so `AHP.escQ`, `AHP.boolString`, `AHP.styleToDict`, `AHP.startTag`, `AHP.isAlpha` … would win over
   the opened `AHP.Attrs.*`.  Every such name is written qualified (`Attrs.boolString`, `Attrs.escQ`, `Attrs.startTag`). -/

def Reach (T : Tables) (e : El) : Prop :=
  ∃ tag sc attrs ops, e = run T (mk T tag sc attrs) ops

/-- an ordinary key, as stored (lower-case) -/
structure Ordinary (T : Tables) (k : Str) : Prop where
  notClass : lower k ≠ classK
  notStyle : lower k ≠ styleK
  notBinStr : T.binStr.contains (lower k) = false

/-! ### C08b — the invariant over all histories -/

theorem reach_inv {T : Tables} {e : El} (h : Reach T e) : DictInv e := by
  obtain ⟨tag, sc, attrs, ops, rfl⟩ := h
  exact dictInv_run T ops (dictInv_mk T tag sc attrs)

theorem inv_step (T : Tables) (op : Op) {e : El} (h : DictInv e) : DictInv (step T e op).2 := dictInv_step T op h

/-- C08b: in every reachable state the names every view lists are pairwise distinct, valid and lower-case. -/
theorem stored_names {T : Tables} {e : El} (h : Reach T e) :
    (akeys (viewList e)).Nodup ∧ ∀ k ∈ akeys (viewList e), validName k = true ∧ lower k = k := by
  have hi := dictInv_handleClassAttr (reach_inv h)
  rw [akeys_viewList]
  refine ⟨hi.nodup, ?_⟩
  intro k hk
  obtain ⟨p, hp, rfl⟩ := List.mem_map.mp hk
  exact ⟨(hi.slots p hp).1, (hi.slots p hp).2.1⟩

/-- C08b: names are matched case-insensitively: every accessor lower-cases the key first (writers and readers) -/
theorem case_insensitive (T : Tables) (k : Str) (v : Option Str) (d : PyVal) (e : El) :
    mapSet T (lower k) v e = mapSet T k v e ∧ mapDel (lower k) e = mapDel k e ∧
    contains (lower k) e = contains k e ∧ getitem T (lower k) e = getitem T k e ∧
    mapGet T (lower k) d e = mapGet T k d e ∧ hasAttribute (lower k) e = hasAttribute k e ∧
    removeAttribute (lower k) e = removeAttribute k e := by
  refine ⟨?_, ?_, ?_, ?_, ?_, ?_, ?_⟩
  · unfold mapSet; rw [lower_idem]
  · unfold mapDel; rw [lower_idem]
  · unfold contains; rw [lower_idem]
  · unfold getitem; rw [lower_idem]
  · unfold mapGet; rw [lower_idem]
  · unfold hasAttribute; rw [lower_idem]
  · unfold removeAttribute; rw [lower_idem]

/-! ### C08c — an invalid name is rejected with KeyError and changes nothing -/

theorem invalid_setAttribute (T : Tables) {k : Str} (h : validName k = false) (v : Option Str) (e : El) :
    setAttribute T k v e = (.keyError, e) := setAttribute_invalid T h v e

theorem invalid_mapSet (T : Tables) {k : Str} (h : validName k = false) (v : Option Str) (e : El) :
    mapSet T k v e = (.keyError, e) := mapSet_invalid T h v e

theorem invalid_mapDel {T : Tables} {k : Str} (h : validName k = false) {e : El} (hr : Reach T e) :
    mapDel k e = e ∧ removeAttribute k e = e := by
  refine ⟨mapDel_invalid h (reach_inv hr), ?_⟩
  unfold removeAttribute
  exact mapDel_invalid (by rw [validName_lower]; exact h) (reach_inv hr)

/-- `setAttributes`: the first invalid name raises; the names before it were set, it and the rest change nothing -/
theorem invalid_setAttributes (T : Tables) : ∀ (l1 : List (Str × Option Str)) {k : Str} (v : Option Str)
    (l2 : List (Str × Option Str)) (e : El), (∀ p ∈ l1, validName p.1 = true) → validName k = false →
    setAttributes T (l1 ++ (k, v) :: l2) e = (.keyError, (setAttributes T l1 e).2)
  | [], k, v, l2, e, _, hk => by
    simp only [List.nil_append, setAttributes]
    rw [setAttribute_invalid T hk]
  | (n, w) :: l1, k, v, l2, e, h1, hk => by
    have hn := h1 (n, w) (by simp)
    have ho := setAttribute_valid T hn w e
    simp only [List.cons_append, setAttributes]
    rcases hs : setAttribute T n w e with ⟨o, e'⟩
    rw [hs] at ho
    simp only at ho
    subst ho
    simp only
    exact invalid_setAttributes T l1 v l2 e' (fun p hp => h1 p (List.mem_cons_of_mem _ hp)) hk

/-- a valid name is accepted -/
theorem valid_accepted (T : Tables) {k : Str} (h : validName k = true) (v : Option Str) (e : El) :
    (setAttribute T k v e).1 = .ok := setAttribute_valid T h v e

/-! ### C08a — every view is a projection of the one list, in one order -/

/-- `attributes.items()` -/
theorem items_proj (e : El) : (items e).1.map (fun p => (p.1, p.2.tostrOpt)) = viewList e := rfl

/-- `attributes.keys()`, iteration -/
theorem keys_proj (e : El) : (keys e).1 = akeys (viewList e) := by
  rw [keys_fst, akeys_viewList]

/-- the DOM node map lists the same names in the same order -/
theorem domKeys_proj {e : El} (h : DictInv e) : (domKeys e).1 = akeys (viewList e) := by
  unfold domKeys
  simp only
  rw [keys_proj]
  apply List.filter_eq_self.mpr
  intro k hk
  have hi := dictInv_handleClassAttr h
  show contains k (handleClassAttr e) = true
  rw [contains_eq_viewList hi]
  have hl : lower k = k := by
    rw [akeys_viewList] at hk
    obtain ⟨p, hp, rfl⟩ := List.mem_map.mp hk
    exact (hi.slots p hp).2.1
  rw [hl, viewList_sync]
  exact ahas_iff_mem.mpr hk

/-- the rendered start tag lists the same names in the same order … -/
theorem startTag_names (T : Tables) (e : El) : (startTagItems T e).1.map RItem.name = akeys (viewList e) := by
  rw [startTagItems_fst, List.map_map, akeys_viewList, ← akeys_items]
  unfold akeys
  apply List.map_congr_left
  intro p _
  exact renderItem_name T p

/-- … and so does the attribute list read back from it -/
theorem readBack_names (T : Tables) (e : El) : akeys (readBack (startTagItems T e).1) = akeys (viewList e) := by
  rw [akeys_readBack, akeys_viewList]

/-- `in`, for every key (class and style included) -/
theorem contains_proj {e : El} (h : DictInv e) (k : Str) : contains k e = (aget (lower k) (viewList e)).isSome :=
  contains_eq_viewList h k

/-- `hasAttribute` -/
theorem hasAttribute_proj {e : El} (h : DictInv e) (k : Str) : hasAttribute k e = (aget (lower k) (viewList e)).isSome := by
  unfold hasAttribute
  rw [contains_eq_viewList h, lower_idem]

/-- `attributes[k]` -/
theorem getitem_proj (T : Tables) {e : El} (h : DictInv e) {k : Str} (ho : Ordinary T k) :
    getitem T k e = pyOfOpt ((aget (lower k) (viewList e)).join) :=
  getitem_eq_viewList T h ho.notClass ho.notStyle ho.notBinStr

/-- `attributes.get(k, default)` -/
theorem mapGet_proj (T : Tables) {e : El} (h : DictInv e) {k : Str} (ho : Ordinary T k) (d : PyVal) :
    (mapGet T k d e).1 = match aget (lower k) (viewList e) with
      | none => d
      | some v => pyOfOpt v :=
  mapGet_eq_viewList T h ho.notClass ho.notStyle ho.notBinStr d

/-- `getAttribute(k, default)` for a name that is not a boolean attribute -/
theorem getAttribute_proj (T : Tables) {e : El} (h : DictInv e) {k : Str} (ho : Ordinary T k)
    (hb : T.binary.contains k = false) (d : PyVal) :
    (getAttribute T k d e).1 = match aget (lower k) (viewList e) with
      | none => d
      | some v => pyOfOpt v := by
  unfold getAttribute
  rw [hb]
  exact mapGet_proj T h ho d

/-- `getAttribute(k)` for a boolean attribute: False when absent, True when present without a (non-empty) value -/
theorem getAttribute_boolean (T : Tables) {e : El} (h : DictInv e) {k : Str} (ho : Ordinary T k)
    (hb : T.binary.contains k = true) (d : PyVal) :
    (getAttribute T k d e).1 = match aget (lower k) (viewList e) with
      | none => .bool false
      | some v => if (pyOfOpt v).falsy then .bool true else pyOfOpt v := by
  unfold getAttribute
  rw [hb]
  simp only [if_true]
  rw [contains_proj h, getitem_proj T h ho]
  rcases aget (lower k) (viewList e) with _ | v
  · rfl
  · cases v <;> rfl

/-- the DOM node under a name: its name is the stored (lower-case) one, its value the listed one -/
theorem domItem_proj (T : Tables) {e : El} (h : DictInv e) {k : Str} (ho : Ordinary T k) :
    domItem T k e = (aget (lower k) (viewList e)).map (fun v => (lower k, pyOfOpt v)) := by
  unfold domItem
  simp only
  have ho' : Ordinary T (lower k) := ⟨by rw [lower_idem]; exact ho.notClass, by rw [lower_idem]; exact ho.notStyle,
    by rw [lower_idem]; exact ho.notBinStr⟩
  rw [contains_proj h, getitem_proj T h ho', lower_idem]
  rcases aget (lower k) (viewList e) with _ | v
  · rfl
  · cases v <;> rfl

/-- dot access of a linked name without a special rule: the listed value of its html attribute, else the default
    (`''`, or `None` for event attributes) -/
theorem dotGet_plain (T : Tables) {e : El} (h : DictInv e) {n : Str} {L : Link} (hn : n ≠ classNameK)
    (hl : aget n T.links = some L) (hs : L.special = false) (hbs : L.binStr = false) (hb : L.bin = false)
    (ho : Ordinary T L.attr) (hnb : T.binary.contains L.attr = false) :
    (dotGet T n e).1 = some (match aget (lower L.attr) (viewList e) with
      | none => if L.event then .none else .str []
      | some v => pyOfOpt v) := by
  unfold dotGet
  simp only [hn, if_false, hl, hs, hbs, hb, Bool.false_eq_true]
  congr 1
  exact getAttribute_proj T h ho hnb _

/-- dot access of a boolean linked name: True exactly when the attribute is listed -/
theorem dotGet_boolean (T : Tables) {e : El} (h : DictInv e) {n : Str} {L : Link} (hn : n ≠ classNameK)
    (hl : aget n T.links = some L) (hs : L.special = false) (hbs : L.binStr = false) (hb : L.bin = true)
    (ho : Ordinary T L.attr) (hnb : T.binary.contains L.attr = true) :
    (dotGet T n e).1 = some (.bool (aget (lower L.attr) (viewList e)).isSome) := by
  unfold dotGet
  simp only [hn, if_false, hl, hs, hbs, hb, Bool.false_eq_true, if_true]
  congr 2
  rw [getAttribute_boolean T h ho hnb]
  rcases aget (lower L.attr) (viewList e) with _ | v
  · rfl
  · cases v with
    | none => rfl
    | some s =>
      by_cases hs0 : s = []
      · subst hs0; rfl
      · have : s.isEmpty = false := by simpa using hs0
        simp [pyOfOpt, PyVal.falsy, this]

/-! ### C08d — the rendered start tag, read back -/

theorem items_ordinary {e : El} (h : DictInv e) {k : Str} (hc : k ≠ classK) (hs : k ≠ styleK) :
    aget k (items e).1 = (aget k (viewList e)).map pyOfOpt := by
  rw [viewList_ordinary h hc hs, aget_items, aget_other_sync e hc hs]
  unfold rawLookup
  rcases hg : aget k e.dict with _ | s
  · rfl
  · obtain ⟨v, rfl⟩ := slot_of_ordinary h hc hs hg
    cases v <;> rfl

theorem readBack_lookup (T : Tables) {e : El} (h : DictInv e) {k : Str} (hc : k ≠ classK) (hs : k ≠ styleK) :
    aget k (readBack (startTagItems T e).1) = (aget k (viewList e)).map (fun v => readBackVal T k (pyOfOpt v)) := by
  rw [aget_readBack, items_ordinary h hc hs]
  rcases aget k (viewList e) with _ | v <;> rfl

/-- a value-less attribute renders as a bare name and reads back value-less -/
theorem rendered_valueless (T : Tables) {e : El} (h : DictInv e) {k : Str} (hc : k ≠ classK) (hs : k ≠ styleK)
    (hv : aget k (viewList e) = some none) : aget k (readBack (startTagItems T e).1) = some none := by
  rw [readBack_lookup T h hc hs, hv]
  rfl

/-- a boolean attribute with an empty value renders as a bare name (and reads back present, without a value) -/
theorem rendered_boolean_empty (T : Tables) {e : El} (h : DictInv e) {k : Str} (hc : k ≠ classK) (hs : k ≠ styleK)
    (hb : T.binary.contains k = true) (hv : aget k (viewList e) = some (some [])) :
    aget k (readBack (startTagItems T e).1) = some none := by
  rw [readBack_lookup T h hc hs, hv]
  have hb' : k ∈ T.binary := List.contains_iff_mem.mp hb
  simp [readBackVal, renderItem, pyOfOpt, PyVal.falsy, hb']

/-- every other value is rendered between quotes with `"` escaped and reads back unchanged -/
theorem rendered_value (T : Tables) {e : El} (h : DictInv e) {k : Str} (hc : k ≠ classK) (hs : k ≠ styleK) {s : Str}
    (hne : s ≠ [] ∨ T.binary.contains k = false) (hamp : '&' ∉ s) (hv : aget k (viewList e) = some (some s)) :
    aget k (readBack (startTagItems T e).1) = some (some s) := by
  rw [readBack_lookup T h hc hs, hv]
  simp only [Option.map, readBackVal, renderItem, pyOfOpt]
  by_cases hs0 : s = []
  · subst hs0
    rcases hne with hne | hne
    · exact absurd rfl hne
    · have hne' : k ∉ T.binary := fun hm => by
        rw [List.contains_iff_mem.mpr hm] at hne; cases hne
      simp [PyVal.falsy, hne', Attrs.escQ, replaceQuote, unescQ]
  · have : s.isEmpty = false := by simpa using hs0
    simp [PyVal.falsy, PyVal.tostrOpt, this, unescQ_escQ hamp]

/-- C08d: the element obtained by re-parsing the start tag holds, under every ordinary key, what was read back -/
theorem reparse_lookup (T : Tables) {e : El} (h : DictInv e) {k : Str} (hc : k ≠ classK) (hs : k ≠ styleK)
    (hb : T.binStr.contains k = false) :
    aget k (viewList (reparse T e).1) = aget k (readBack (startTagItems T e).1) := by
  have hg := goodKeys_of_sync h (akeys_readBack T e)
  unfold reparse
  simp only
  rw [viewList_ordinary (dictInv_mk T _ _ _) hc hs, mk_rawLookup T _ _ _ hg hc hs]
  unfold normVal
  rw [hb]
  rcases aget k (readBack (startTagItems T e).1) with _ | v <;> rfl

/-- C08d: "reads back as present": presence of every ordinary key survives the re-parse -/
theorem reparse_presence (T : Tables) {e : El} (h : DictInv e) {k : Str} (ho : Ordinary T k) :
    hasAttribute k (reparse T e).1 = hasAttribute k e := by
  have hi : DictInv (reparse T e).1 := dictInv_mk T _ _ _
  rw [hasAttribute_proj hi, hasAttribute_proj h, reparse_lookup T h ho.notClass ho.notStyle ho.notBinStr,
      readBack_lookup T h ho.notClass ho.notStyle]
  rcases aget (lower k) (viewList e) with _ | v <;> rfl

/-- C08d: a boolean attribute with an empty value reads back as present: `getAttribute` is `True` on the re-parsed element -/
theorem reparse_boolean_true (T : Tables) {e : El} (h : DictInv e) {k : Str} (ho : Ordinary T k) (hl : lower k = k)
    (hb : T.binary.contains k = true) (hv : aget k (viewList e) = some (some [])) (d : PyVal) :
    (getAttribute T k d (reparse T e).1).1 = .bool true := by
  have hi : DictInv (reparse T e).1 := dictInv_mk T _ _ _
  have hc : k ≠ classK := by rw [← hl]; exact ho.notClass
  have hs : k ≠ styleK := by rw [← hl]; exact ho.notStyle
  rw [getAttribute_boolean T hi ho hb, hl, reparse_lookup T h hc hs (by rw [← hl]; exact ho.notBinStr),
      rendered_boolean_empty T h hc hs hb hv]
  rfl

/-! ### C08d at STRING level — the rendered start tag through the tokenizer model

  `readBack` above works on the structured item list.  The theorem below ties it to the string: the strict lexer of C01
  (`lexStrict`, Model/Lexer.lean — compared with the real `html.parser` on every generated string by C01 / C02's
  correspondence) reads `getStartTag()` (+ the end tag the serialiser writes, none for a self-closing element) as one
  tag token whose attribute list is EXACTLY `readBack (startTagItems e)`.  Hypotheses: the tables handed to this model
  are the generated ones (`BinaryOK`, as in Props/AttrStores.lean), the tag name is a tag name (`TagNameOK`), and the
  lexical side condition of C01 on attribute values, `ValueOK` (every `&` is followed by a character that cannot start a
  reference).  `'&' ∉ s` — the condition under which `rendered_value`, C09 `view_reparse`, C10 `view_reparse` identify the
  read-back value with the stored one — implies it (`no_amp_is_valueOK`), and the identification itself extends to all of
  `ValueOK` (`rendered_value_ok`). -/

theorem no_amp_is_valueOK {s : Str} (h : '&' ∉ s) : ValueOK s := AttrStores.valueOK_of_no_amp h

/-- `rendered_value` for every value C01 admits: between quotes, `"` escaped, reads back unchanged -/
theorem rendered_value_ok (T : Tables) {e : El} (h : DictInv e) {k : Str} (hc : k ≠ classK) (hs : k ≠ styleK) {s : Str}
    (hne : s ≠ [] ∨ T.binary.contains k = false) (hok : ValueOK s) (hv : aget k (viewList e) = some (some s)) :
    aget k (readBack (startTagItems T e).1) = some (some s) := by
  rw [readBack_lookup T h hc hs, hv]
  simp only [Option.map, readBackVal, renderItem, pyOfOpt]
  by_cases hs0 : s = []
  · subst hs0
    rcases hne with hne | hne
    · exact absurd rfl hne
    · have hne' : k ∉ T.binary := fun hm => by
        rw [List.contains_iff_mem.mpr hm] at hne; cases hne
      simp [PyVal.falsy, hne', Attrs.escQ, replaceQuote, unescQ]
  · have : s.isEmpty = false := by simpa using hs0
    simp [PyVal.falsy, PyVal.tostrOpt, this, AttrStores.unescQ_escQ_ok hok]

/-- **the re-parse of the rendered start tag, at string level** -/
theorem startTag_lexed (T : Tables) (hB : AttrStores.BinaryOK T) {e : El} (h : DictInv e) (htag : TagNameOK e.tag)
    (hv : ∀ p ∈ viewList e, ∀ s, p.2 = some s → ValueOK s) :
    lexStrict ((Attrs.startTag T e).1 ++ endTag e.tag e.sc) =
      some (if e.sc then [Token.startend e.tag (readBack (startTagItems T e).1)]
            else [Token.start e.tag (readBack (startTagItems T e).1), Token.end_ e.tag]) :=
  AttrStores.lexStrict_startTag hB h htag hv

/-- the same for the element a constructor / the parser builds from ANY raw attribute list: its start tag is also the
    start tag of the token model of C01–C03 (`startTag_eq_attrs`), and lexes to `readBack` of its items -/
theorem created_startTag_lexed (T : Tables) (hT : AttrStores.TablesOK T) (hB : AttrStores.BinaryOK T) (tag : Str) (sc : Bool)
    (l : List (Str × Option Str)) (htag : TagNameOK (lower tag))
    (hv : ∀ p ∈ viewList (mk T tag sc l), ∀ s, p.2 = some s → ValueOK s) :
    (Attrs.startTag T (mk T tag sc l)).1 = AHP.startTag (lower tag) (intake l AttrState.empty) sc ∧
    lexStrict ((Attrs.startTag T (mk T tag sc l)).1 ++ endTag (lower tag) sc) =
      some (if sc then [Token.startend (lower tag) (readBack (startTagItems T (mk T tag sc l)).1)]
            else [Token.start (lower tag) (readBack (startTagItems T (mk T tag sc l)).1), Token.end_ (lower tag)]) := by
  refine ⟨AttrStores.startTag_eq_attrs hT hB tag sc l, ?_⟩
  have ht : (mk T tag sc l).tag = lower tag := by rw [AttrStores.mk_eq_intake hT]; rfl
  have hs : (mk T tag sc l).sc = sc := by rw [AttrStores.mk_eq_intake hT]; rfl
  have := startTag_lexed T hB (dictInv_mk T tag sc l) (by rw [ht]; exact htag) hv
  rw [ht, hs] at this
  exact this

/-! ### C08e — cloneNode, copy, repr, unpickling reproduce the mapping -/

/-- under every ordinary key the copy lists exactly the value of the original (`None` stays `None`) -/
theorem clone_lookup (T : Tables) {e : El} (h : DictInv e) {k : Str} (hc : k ≠ classK) (hs : k ≠ styleK)
    (hb : T.binStr.contains k = false) :
    aget k (viewList (clone T e).1) = aget k (viewList e) := by
  have hg := goodKeys_of_sync h (akeys_attrsList e)
  unfold clone
  simp only
  rw [viewList_ordinary (dictInv_mk T _ _ _) hc hs, mk_rawLookup T _ _ _ hg hc hs]
  unfold normVal
  rw [hb]
  show Option.map (fun v => v) (aget k (viewList e)) = _
  rcases aget k (viewList e) with _ | v <;> rfl

/-- taking the copy reads `getAttributesList()` of the original: it synchronises it and changes nothing else -/
theorem clone_reads_only (T : Tables) (e : El) : (clone T e).2 = handleClassAttr e := rfl

/-- C08b: in every reachable state the stored values are normalised: what is kept under a boolean-string key
    (`spellcheck`) is `convertToBooleanString` of itself (invariant `BinStrInv` per operation, induction over
    histories) -/
theorem reach_normalised {T : Tables} {e : El} (h : Reach T e) : BinStrInv T e := by
  obtain ⟨tag, sc, attrs, ops, rfl⟩ := h
  exact binStrInv_run T ops (binStrInv_mk T tag sc attrs)

/-! ### C08e, list level — the list of a constructed element and of a copy, as LISTS -/

/-- Creation: the list of `AdvancedTag(tag, l)` for valid, lower-case, pairwise distinct names, entry by entry:
    the entries of `l` in order — boolean-string values normalised, the style value re-rendered through the
    style object (an empty style dropped) — except that `class` is listed last (its key is only materialised
    by the first synchronising read). -/
theorem created_list (T : Tables) (tag : Str) (sc : Bool) (l : List (Str × Option Str)) (hg : GoodKeys l) :
    viewList (mk T tag sc l) = l.filterMap (mkView T) ++
      (match aget classK l with
       | some v => if (words (v.getD [])).isEmpty then [] else [(classK, some (joinWith [' '] (words (v.getD []))))]
       | none => []) :=
  viewList_mk T tag sc l hg

/-- C08e, list level. The list of a copy (`cloneNode`, `copy.copy`, `copy.deepcopy`, unpickling,
    `eval(repr(tag))`) is the original's list with the `class` entry moved to the end — every other entry,
    `style` included, keeps its position and its value. The hypotheses on the class names (no white space: C09's
    domain, `clean_run`) and on the style map (round-trippable: C10's `reach_roundtrippable`) are what makes the
    *values* under `class` / `style` survive the constructor. -/
theorem clone_list (T : Tables) {e : El} (hr : Reach T e) (hc : ∀ w ∈ e.cls, CleanName w) (hs : StyRT e.sty) :
    viewList (clone T e).1 = moveLast classK (viewList e) :=
  viewList_clone T (reach_inv hr) (reach_normalised hr) hc hs

/-- the `class` key is listed exactly when there is a class name -/
theorem class_listed_iff (e : El) : classK ∈ akeys (viewList e) ↔ e.cls ≠ [] := by
  rw [← ahas_iff_mem]
  unfold ahas
  rw [viewList_class]
  cases h : e.cls with
  | nil => simp
  | cons a r => simp

/-- C08e, list level, the precise condition: the copy's list equals the original's list AS A LIST exactly when
    the original has no class name or lists `class` last. (With a `class` key materialised earlier — a reader
    synchronised, then another attribute was added — the copy lists the same pairs in another order:
    per-key equality `clone_lookup` still holds, list equality does not.) -/
theorem clone_list_eq_iff (T : Tables) {e : El} (hr : Reach T e) (hc : ∀ w ∈ e.cls, CleanName w) (hs : StyRT e.sty) :
    viewList (clone T e).1 = viewList e ↔ (e.cls = [] ∨ (akeys (viewList e)).getLast? = some classK) := by
  rw [clone_list T hr hc hs]
  have hn : (akeys (viewList e)).Nodup := (stored_names hr).1
  rw [moveLast_eq_self_iff hn classK, class_listed_iff]
  constructor
  · rintro (h | h)
    · exact Or.inl (Classical.not_not.mp h)
    · exact Or.inr h
  · rintro (h | h)
    · exact Or.inl (fun hne => hne h)
    · exact Or.inr h

/-- **C08e, creation, EVERY raw attribute list** — upper-case spellings, invalid names, repeated names, `class` and
    `style` anywhere.  `getAttributesList()` of `AdvancedTag(tag, l)` (and of the element the parser builds for a start
    tag with attributes `l`) is `createdList T l` (Lemmas/AttrsCreate.lean, written from the property text, not from
    the constructor's loop): the names lower-cased, the entries with an invalid name dropped, every name ONCE — at the
    position of its first occurrence, with the value of its LAST occurrence ("the last duplicate wins") — values
    shown as the views show them (boolean-string normalised, `style` re-rendered), `class` last.  The one quirk that
    shows in the order: a `style` entry without any declaration deletes the attribute, a later non-empty one is
    listed where that later entry stands (`effective`; the library does the same — design.d/C08.md). -/
theorem created_list_all (T : Tables) (tag : Str) (sc : Bool) (l : List (Str × Option Str)) :
    viewList (mk T tag sc l) = createdList T l := viewList_mk_all T tag sc l

/-- the same specification for the token model of C01–C03 / C13 (`intake`, `AttrState.view`, Model/Token.lean) — through
    `mk_eq_intake` of Props/AttrStores.lean: the attribute clause of C02 ("attribute names are lower-cased with invalid names
    dropped and the last duplicate winning") against `createdList`, a function that shares nothing with `intake` -/
theorem intake_view_is_createdList (T : Tables) (hT : AttrStores.TablesOK T) (l : List (Str × Option Str)) :
    (intake l AttrState.empty).view = createdList T l := by
  rw [← AttrStores.intake_view_eq_attrs hT [] false l]
  exact created_list_all T [] false l

/-- "the last duplicate wins", per key, for every raw list: the value listed under a name other than class / style is
    the (normalised) value of the LAST entry whose lower-cased name it is -/
theorem created_last_wins (T : Tables) (tag : Str) (sc : Bool) (l : List (Str × Option Str)) {k : Str}
    (hc : k ≠ classK) (hs : k ≠ styleK) :
    aget k (viewList (mk T tag sc l)) = (lastValue k (normNames l)).map (normVal T k) :=
  mk_lookup_lastValue T tag sc l hc hs

/-- per key, every key other than class / style (boolean-string keys included): the copy lists the value of the
    original -/
theorem clone_lookup_all (T : Tables) {e : El} (hr : Reach T e) {k : Str} (hc : k ≠ classK) (hs : k ≠ styleK) :
    aget k (viewList (clone T e).1) = aget k (viewList e) := by
  have h := reach_inv hr
  have hb := reach_normalised hr
  have hg := goodKeys_of_sync h (akeys_attrsList e)
  unfold clone
  simp only
  rw [viewList_ordinary (dictInv_mk T _ _ _) hc hs, mk_rawLookup T _ _ _ hg hc hs]
  show Option.map (normVal T k) (aget k (viewList e)) = _
  cases hg2 : aget k (viewList e) with
  | none => rfl
  | some v =>
    have hraw := hg2
    rw [viewList_ordinary h hc hs] at hraw
    unfold rawLookup at hraw
    split at hraw
    · next w hw =>
      have : w = v := Option.some.inj hraw
      subst this
      simp only [Option.map_some, hb k w hw]
    · cases hraw

/-! ### C08a/d for boolean-string keys (`spellcheck`): the stored value is `convertToBooleanString` of the input -/

/-- a boolean-string key (`TAG_ITEM_BINARY_ATTRIBUTES_STRING_ATTR`), any spelling -/
structure BoolStr (T : Tables) (k : Str) : Prop where
  notClass : lower k ≠ classK
  notStyle : lower k ≠ styleK
  isBinStr : T.binStr.contains (lower k) = true

/-- the writers store `convertToBooleanString(value)` — `'true'` / `'false'` — under the lower-cased name, and
    that is what every list-shaped view shows -/
theorem boolstr_stored (T : Tables) {e : El} (h : DictInv e) {k : Str} (hv : validName k = true) (hk : BoolStr T k)
    (v : Option Str) :
    aget (lower k) (viewList (mapSet T k v e).2) = some (some (Attrs.boolString v)) ∧
    aget (lower k) (viewList (setAttribute T k v e).2) = some (some (Attrs.boolString v)) := by
  have h1 := mapSet_listed T h hv hk.notClass hk.notStyle v
  unfold normVal at h1
  rw [hk.isBinStr] at h1
  refine ⟨h1, ?_⟩
  unfold setAttribute
  simp only [hv, Bool.not_true, Bool.false_eq_true, if_false]
  exact h1

/-- in every reachable state the value listed under a boolean-string key is `'true'` or `'false'` -/
theorem boolstr_listed {T : Tables} {e : El} (hr : Reach T e) {k : Str} (hk : BoolStr T k) {v : Option Str}
    (hv : aget (lower k) (viewList e) = some v) : v = some strTrue ∨ v = some strFalse := by
  have := binStr_listed (reach_inv hr) (reach_normalised hr) hk.notClass hk.notStyle hk.isBinStr hv
  rcases boolString_cases v with h | h <;> rw [h] at this
  · exact Or.inl this
  · exact Or.inr this

/-- `attributes[k]`: the listed value — and `'false'`, not `None`, when the key is not listed (the one view that
    answers for an absent key; `in`, `get`, `getAttribute`, `hasAttribute` and the node map report it absent) -/
theorem boolstr_getitem (T : Tables) {e : El} (hr : Reach T e) {k : Str} (hk : BoolStr T k) :
    getitem T k e = match aget (lower k) (viewList e) with
      | none => .str strFalse
      | some v => pyOfOpt v :=
  getitem_binStr T (reach_inv hr) (reach_normalised hr) hk.notClass hk.notStyle hk.isBinStr

/-- `attributes.get(k, default)` -/
theorem boolstr_mapGet (T : Tables) {e : El} (hr : Reach T e) {k : Str} (hk : BoolStr T k) (d : PyVal) :
    (mapGet T k d e).1 = match aget (lower k) (viewList e) with
      | none => d
      | some v => pyOfOpt v :=
  mapGet_listed T (reach_inv hr) (reach_normalised hr) hk.notClass hk.notStyle d

/-- `getAttribute(k, default)` -/
theorem boolstr_getAttribute (T : Tables) {e : El} (hr : Reach T e) {k : Str} (hk : BoolStr T k)
    (hb : T.binary.contains k = false) (d : PyVal) :
    (getAttribute T k d e).1 = match aget (lower k) (viewList e) with
      | none => d
      | some v => pyOfOpt v := by
  unfold getAttribute
  rw [hb]
  exact boolstr_mapGet T hr hk d

/-- the DOM node under the name -/
theorem boolstr_domItem (T : Tables) {e : El} (hr : Reach T e) {k : Str} (hk : BoolStr T k) :
    domItem T k e = (aget (lower k) (viewList e)).map (fun v => (lower k, pyOfOpt v)) := by
  unfold domItem
  simp only
  have hk' : BoolStr T (lower k) := ⟨by rw [lower_idem]; exact hk.notClass, by rw [lower_idem]; exact hk.notStyle,
    by rw [lower_idem]; exact hk.isBinStr⟩
  rw [contains_proj (reach_inv hr), boolstr_getitem T hr hk', lower_idem]
  rcases aget (lower k) (viewList e) with _ | v <;> rfl

/-- dot access of a boolean-string linked name (`tag.spellcheck`): True exactly when `'true'` is listed -/
theorem boolstr_dotGet (T : Tables) {e : El} (hr : Reach T e) {n : Str} {L : Link} (hn : n ≠ classNameK)
    (hl : aget n T.links = some L) (hs : L.special = false) (hbs : L.binStr = true)
    (hk : BoolStr T L.attr) (hnb : T.binary.contains L.attr = false) :
    (dotGet T n e).1 = some (.bool (decide (aget (lower L.attr) (viewList e) = some (some strTrue)))) := by
  unfold dotGet
  simp only [hn, if_false, hl, hs, hbs, Bool.false_eq_true, if_true]
  congr 2
  rw [boolstr_getAttribute T hr hk hnb]
  cases hg : aget (lower L.attr) (viewList e) with
  | none => rfl
  | some v =>
    rcases boolstr_listed hr hk hg with h | h <;> subst h
    · simp [pyOfOpt, boolOfString_true]
    · have : ¬ (some (some strFalse) = some (some strTrue)) := by decide
      simp [pyOfOpt, boolOfString_false, this]

/-- the rendered start tag carries `k="true"` / `k="false"` and reads back unchanged -/
theorem boolstr_rendered (T : Tables) {e : El} (hr : Reach T e) {k : Str} (hk : BoolStr T k) :
    aget (lower k) (readBack (startTagItems T e).1) = aget (lower k) (viewList e) := by
  cases hg : aget (lower k) (viewList e) with
  | none =>
    rw [readBack_lookup T (reach_inv hr) hk.notClass hk.notStyle, hg]; rfl
  | some v =>
    rcases boolstr_listed hr hk hg with h | h <;> subst h
    · exact rendered_value T (reach_inv hr) hk.notClass hk.notStyle (Or.inl (by decide)) (by decide) hg
    · exact rendered_value T (reach_inv hr) hk.notClass hk.notStyle (Or.inl (by decide)) (by decide) hg

/-- … and the element obtained by re-parsing the start tag lists the same value under the key; so does a copy
    (`clone_lookup_all`) -/
theorem boolstr_reparse (T : Tables) {e : El} (hr : Reach T e) {k : Str} (hk : BoolStr T k) :
    aget (lower k) (viewList (reparse T e).1) = aget (lower k) (viewList e) := by
  have h := reach_inv hr
  have hg := goodKeys_of_sync h (akeys_readBack T e)
  have hrb := boolstr_rendered T hr hk
  unfold reparse
  simp only
  rw [viewList_ordinary (dictInv_mk T _ _ _) hk.notClass hk.notStyle,
      mk_rawLookup T _ _ _ hg hk.notClass hk.notStyle, hrb]
  cases hg2 : aget (lower k) (viewList e) with
  | none => rfl
  | some v =>
    have := binStr_listed h (reach_normalised hr) hk.notClass hk.notStyle hk.isBinStr hg2
    simp only [Option.map_some, normVal, hk.isBinStr, if_true]
    rw [← this]

/-! ### dot access of names with a special-value rule: never fails in the store, and is the rule on the listed value -/

/-- `dotGet` declines (`none`: "see the rule") exactly for the linked names that have a special-value rule;
    every other linked name is answered by `dotGet_plain` / `dotGet_boolean` / `boolstr_dotGet` -/
theorem dotGet_declines_iff (T : Tables) (e : El) {n : Str} {L : Link} (hn : n ≠ classNameK)
    (hl : aget n T.links = some L) : (dotGet T n e).1 = none ↔ L.special = true := by
  unfold dotGet
  simp only [hn, if_false, hl]
  cases L.special with
  | true => simp
  | false =>
    simp only [Bool.false_eq_true, if_false]
    split
    · simp
    · split <;> simp

/-- For a name with a special-value rule `R` (`tabIndex`, `span`, `colSpan`, `rowSpan`, `hspace`, `vspace`,
    `maxLength`, `size`, `cols`, `rows`, `crossOrigin`, `autocomplete`, `method`, `sandbox`, `kind`), reading an
    attribute that is neither class / style nor boolean: the dot read is the rule's conversion applied to the
    listed value; when the attribute is not listed it is the guard's answer (`maxLength`: −1) or the converted
    default. The conversion itself (`R.conv`, `R.onDefault`) is C19's. `dotGetSpecial` is a total function: the
    store never raises on such a read. -/
theorem dotGet_special (T : Tables) {ρ : Type} {e : El} (hr : Reach T e) (R : SpecialRule ρ)
    (hc : lower R.attr ≠ classK) (hs : lower R.attr ≠ styleK) (hnb : T.binary.contains R.attr = false) :
    (dotGetSpecial T R e).1 = match aget (lower R.attr) (viewList e) with
      | none => R.guard.getD R.onDefault
      | some v => R.conv (pyOfOpt v) := by
  have h := reach_inv hr
  have hb := reach_normalised hr
  have hread : (getAttributeOpt T R.attr e).1 = (aget (lower R.attr) (viewList e)).map pyOfOpt := by
    unfold getAttributeOpt
    rw [hnb]
    exact mapGetOpt_listed T h hb hc hs
  unfold dotGetSpecial
  cases hg : R.guard with
  | none =>
    simp only [hread]
    rcases aget (lower R.attr) (viewList e) with _ | v <;> rfl
  | some g =>
    simp only [hread, hasAttribute_proj h]
    rcases aget (lower R.attr) (viewList e) with _ | v <;> rfl

/-- such a read only synchronises: the state afterwards is the state itself or the state after `_handleClassAttr` -/
theorem dotGet_special_reads_only (T : Tables) {ρ : Type} (R : SpecialRule ρ) (e : El) :
    (dotGetSpecial T R e).2 = e ∨ (dotGetSpecial T R e).2 = handleClassAttr e := by
  unfold dotGetSpecial
  cases R.guard with
  | none => exact getAttributeOpt_snd T R.attr e
  | some g =>
    simp only
    split
    · exact getAttributeOpt_snd T R.attr e
    · exact Or.inl rfl

/-- the reader with a symbolic default used by the rules is the reader of the views: `getAttribute(k, d)` is
    its answer with `d` filled in, and leaves the same state -/
theorem getAttribute_symbolic_default (T : Tables) (k : Str) (d : PyVal) (e : El) :
    getAttribute T k d e = (((getAttributeOpt T k e).1).getD d, (getAttributeOpt T k e).2) :=
  getAttribute_eq_opt T k d e

/-! ### C08f — WRITE → READ and FRAME: what the writers do to the one mapping

  Keys other than `class` / `style` (those two: C09 `write_read_*`, C10 `write_read_*`).  The writers of the property:
  `setAttribute`, `attributes[k] = v` (`mapSet`), `removeAttribute`, `del attributes[k]` (`mapDel`), `setAttributes`,
  dot-assignment of a linked name (`dotSet`).  Readers: the one list (`viewList` — hence `items()`, `keys()`,
  `getAttributesList()`, the rendered start tag and the DOM node map by C08a), `attributes[k]`, `attributes.get`,
  `getAttribute`, `hasAttribute`, `in`, the DOM node. -/

/-- reachability is closed under every operation -/
theorem reach_step {T : Tables} {e : El} (h : Reach T e) (op : Op) : Reach T (step T e op).2 := by
  obtain ⟨tag, sc, attrs, ops, rfl⟩ := h
  refine ⟨tag, sc, attrs, ops ++ [op], ?_⟩
  unfold run
  rw [List.foldl_append]
  rfl

/-- `setAttribute` with a valid name is `attributes[name] = value` -/
theorem setAttribute_is_mapSet (T : Tables) {k : Str} (hv : validName k = true) (v : Option Str) (e : El) :
    setAttribute T k v e = mapSet T k v e := setAttribute_eq_mapSet T hv v e

/-- `removeAttribute` is `del attributes[name]` -/
theorem removeAttribute_is_mapDel (k : Str) (e : El) : removeAttribute k e = mapDel k e := by
  unfold removeAttribute mapDel
  rw [lower_idem]

/-- WRITE → READ, the list: after `setAttribute(k, v)` / `attributes[k] = v` the one list holds, under the lower-cased
    name, the written value (`None` = value-less) — for a boolean-string key `convertToBooleanString(v)`
    (`normVal`; `boolstr_stored`) -/
theorem write_read_listed (T : Tables) {e : El} (h : DictInv e) {k : Str} (hv : validName k = true)
    (hc : lower k ≠ classK) (hs : lower k ≠ styleK) (v : Option Str) :
    aget (lower k) (viewList (setAttribute T k v e).2) = some (normVal T (lower k) v) ∧
    aget (lower k) (viewList (mapSet T k v e).2) = some (normVal T (lower k) v) := by
  rw [setAttribute_eq_mapSet T hv]
  exact ⟨mapSet_listed T h hv hc hs v, mapSet_listed T h hv hc hs v⟩

/-- WRITE → READ, every per-key reader, ordinary key: after `setAttribute(k, v)` (any spelling of `k`)
    `attributes[k]`, `attributes.get(k, d)` and the DOM node give `v` back, `hasAttribute` / `in` say present, and
    `getAttribute(k, d)` gives `v` — for a boolean attribute name (`TAG_ITEM_BINARY_ATTRIBUTES`): `True` when `v` is
    `None` or `''` (presence), else `v`. -/
theorem write_read_readers (T : Tables) {e : El} (hr : Reach T e) {k : Str} (hv : validName k = true)
    (ho : Ordinary T k) (v : Option Str) (d : PyVal) :
    getitem T k (setAttribute T k v e).2 = pyOfOpt v ∧
    (mapGet T k d (setAttribute T k v e).2).1 = pyOfOpt v ∧
    hasAttribute k (setAttribute T k v e).2 = true ∧ contains k (setAttribute T k v e).2 = true ∧
    domItem T k (setAttribute T k v e).2 = some (lower k, pyOfOpt v) ∧
    (getAttribute T k d (setAttribute T k v e).2).1 =
      (if T.binary.contains k then (if (pyOfOpt v).falsy then .bool true else pyOfOpt v) else pyOfOpt v) := by
  have h := reach_inv hr
  have h' : DictInv (setAttribute T k v e).2 := dictInv_setAttribute T k v h
  have hl : aget (lower k) (viewList (setAttribute T k v e).2) = some v := by
    rw [(write_read_listed T h hv ho.notClass ho.notStyle v).1, normVal_of_not_binStr T ho.notBinStr]
  refine ⟨?_, ?_, ?_, ?_, ?_, ?_⟩
  · rw [getitem_proj T h' ho, hl]; rfl
  · rw [mapGet_proj T h' ho, hl]
  · rw [hasAttribute_proj h', hl]; rfl
  · rw [contains_proj h', hl]; rfl
  · rw [domItem_proj T h' ho, hl]; rfl
  · cases hb : T.binary.contains k with
    | true => simp only [if_true]; rw [getAttribute_boolean T h' ho hb, hl]
    | false => simp only [Bool.false_eq_true, if_false]; rw [getAttribute_proj T h' ho hb, hl]

/-- WRITE → READ for a boolean-string key (`spellcheck`): every reader gives `convertToBooleanString(v)` — `'true'` /
    `'false'` — back -/
theorem write_read_boolstr (T : Tables) {e : El} (hr : Reach T e) {k : Str} (hv : validName k = true)
    (hk : BoolStr T k) (hb : T.binary.contains k = false) (v : Option Str) (d : PyVal) :
    getitem T k (setAttribute T k v e).2 = .str (Attrs.boolString v) ∧
    (getAttribute T k d (setAttribute T k v e).2).1 = .str (Attrs.boolString v) ∧
    hasAttribute k (setAttribute T k v e).2 = true := by
  have hr' : Reach T (setAttribute T k v e).2 := reach_step hr (.setAttr k v)
  have hl := (boolstr_stored T (reach_inv hr) hv hk v).2
  refine ⟨?_, ?_, ?_⟩
  · rw [boolstr_getitem T hr' hk, hl]; rfl
  · rw [boolstr_getAttribute T hr' hk hb, hl]; rfl
  · rw [hasAttribute_proj (reach_inv hr'), hl]; rfl

/-- WRITE → READ for the removers: after `removeAttribute(k)` / `del attributes[k]` the name is not listed … -/
theorem remove_read_listed {e : El} (h : DictInv e) {k : Str} (hc : lower k ≠ classK) (hs : lower k ≠ styleK) :
    aget (lower k) (viewList (removeAttribute k e)) = none ∧ aget (lower k) (viewList (mapDel k e)) = none := by
  rw [removeAttribute_is_mapDel]
  exact ⟨mapDel_listed h hc hs, mapDel_listed h hc hs⟩

/-- … and every per-key reader reports it absent: `attributes[k]` is `None`, `get` / `getAttribute` hand back the
    default (`getAttribute` of a boolean attribute name: `False`), `hasAttribute` / `in` say no, there is no DOM node -/
theorem remove_read_readers (T : Tables) {e : El} (hr : Reach T e) {k : Str} (ho : Ordinary T k) (d : PyVal) :
    getitem T k (removeAttribute k e) = .none ∧ (mapGet T k d (removeAttribute k e)).1 = d ∧
    hasAttribute k (removeAttribute k e) = false ∧ contains k (removeAttribute k e) = false ∧
    domItem T k (removeAttribute k e) = none ∧
    (getAttribute T k d (removeAttribute k e)).1 = (if T.binary.contains k then .bool false else d) := by
  have h := reach_inv hr
  have h' : DictInv (removeAttribute k e) := by rw [removeAttribute_is_mapDel]; exact dictInv_mapDel k h
  have hl := (remove_read_listed h ho.notClass ho.notStyle (k := k)).1
  refine ⟨?_, ?_, ?_, ?_, ?_, ?_⟩
  · rw [getitem_proj T h' ho, hl]; rfl
  · rw [mapGet_proj T h' ho, hl]
  · rw [hasAttribute_proj h', hl]; rfl
  · rw [contains_proj h', hl]; rfl
  · rw [domItem_proj T h' ho, hl]; rfl
  · cases hb : T.binary.contains k with
    | true => simp only [if_true]; rw [getAttribute_boolean T h' ho hb, hl]
    | false => simp only [Bool.false_eq_true, if_false]; rw [getAttribute_proj T h' ho hb, hl]

/-- **FRAME, the list.** For EVERY operation of the store (the six attribute writers, the class writers, the style
    writers, the synchronising readers) and every key it does not address (`addresses T op`: the lower-cased name(s)
    written; `class` for the class writers, `style` for the style writers; nothing for a reader): the key is listed
    afterwards exactly as before — present or absent, same value; `class` and `style` included. -/
theorem write_frame (T : Tables) (op : Op) {e : El} (h : DictInv e) {k : Str} (hk : k ∉ addresses T op) :
    aget k (viewList (step T e op).2) = aget k (viewList e) := frame_lookup T op h hk

/-- FRAME, every per-key reader: a key the operation does not address reads, through `attributes[k]`, `get`,
    `getAttribute`, `hasAttribute`, `in` and the DOM node, what it read before (any spelling of the key) -/
theorem write_frame_readers (T : Tables) (op : Op) {e : El} (hr : Reach T e) {k : Str}
    (hc : lower k ≠ classK) (hs : lower k ≠ styleK) (hk : lower k ∉ addresses T op) (d : PyVal) :
    getitem T k (step T e op).2 = getitem T k e ∧ (mapGet T k d (step T e op).2).1 = (mapGet T k d e).1 ∧
    (getAttribute T k d (step T e op).2).1 = (getAttribute T k d e).1 ∧
    hasAttribute k (step T e op).2 = hasAttribute k e ∧ contains k (step T e op).2 = contains k e ∧
    domItem T k (step T e op).2 = domItem T k e :=
  readers_congr T (reach_inv hr) (reach_inv (reach_step hr op)) (reach_normalised hr)
    (reach_normalised (reach_step hr op)) hc hs (frame_lookup T op (reach_inv hr) hk) d

/-- FRAME for the two special keys, state level: an operation that does not address `class` leaves the class list —
    hence every class view of C09 — alone; one that does not address `style` leaves the style map (C10) alone -/
theorem write_frame_class_style (T : Tables) (op : Op) (e : El) :
    (classK ∉ addresses T op → (step T e op).2.cls = e.cls) ∧ (styleK ∉ addresses T op → (step T e op).2.sty = e.sty) :=
  ⟨step_cls_of_addresses T op e, step_sty_of_addresses T op e⟩

/-- **The list as a LIST after a write.**  `setAttribute(k, v)` / `attributes[k] = v` is `d[k] = v` on the one list:
    an existing key keeps its place (`listed_existing_keeps_place`), a new key goes last (`listed_new_goes_last`).
    Hypothesis `ClassSynced e`: the `class` key of the dict is in step with the class list — the state any
    list-shaped reader leaves (`write_list_set_after_read`); the list before a write can only have been observed in
    such a state.  (`write_list_pending_class`: what happens otherwise.) -/
theorem write_list_set (T : Tables) {e : El} (h : DictInv e) (hp : ClassSynced e) {k : Str} (hv : validName k = true)
    (hc : lower k ≠ classK) (hs : lower k ≠ styleK) (v : Option Str) :
    viewList (setAttribute T k v e).2 = aset (lower k) (normVal T (lower k) v) (viewList e) ∧
    viewList (mapSet T k v e).2 = aset (lower k) (normVal T (lower k) v) (viewList e) := by
  rw [setAttribute_eq_mapSet T hv]
  exact ⟨viewList_mapSet T h hp.mpr hv hc hs v, viewList_mapSet T h hp.mpr hv hc hs v⟩

/-- every list-shaped reader (`items()`, `keys()`, `getAttributesList()`, `getStartTag()`, the DOM node map) leaves
    such a state, and leaves the list as it is -/
theorem write_list_set_after_read (T : Tables) {e : El} (h : DictInv e) {k : Str} (hv : validName k = true)
    (hc : lower k ≠ classK) (hs : lower k ≠ styleK) (v : Option Str) :
    ClassSynced (handleClassAttr e) ∧ viewList (handleClassAttr e) = viewList e ∧
    viewList (setAttribute T k v (handleClassAttr e)).2 = aset (lower k) (normVal T (lower k) v) (viewList e) := by
  refine ⟨classSynced_sync e, viewList_sync_list h, ?_⟩
  rw [(write_list_set T (dictInv_handleClassAttr h) (classSynced_sync e) hv hc hs v).1, viewList_sync_list h]

/-- in EVERY state the list without its `class` entry follows the dict discipline … -/
theorem write_list_set_general (T : Tables) {e : El} (h : DictInv e) {k : Str} (hv : validName k = true)
    (hc : lower k ≠ classK) (hs : lower k ≠ styleK) (v : Option Str) :
    adel classK (viewList (setAttribute T k v e).2) = aset (lower k) (normVal T (lower k) v) (adel classK (viewList e)) := by
  rw [setAttribute_eq_mapSet T hv]
  exact viewList_mapSet_general T h hv hc hs v

/-- `d[k] = v` on a list: an existing key keeps its place (the names and their order do not change) … -/
theorem listed_existing_keeps_place {k : Str} (v : Option Str) {l : List (Str × Option Str)} (hk : k ∈ akeys l) :
    akeys (aset k v l) = akeys l := akeys_aset_of_mem v hk

/-- … a new key goes last -/
theorem listed_new_goes_last {k : Str} (v : Option Str) {l : List (Str × Option Str)} (hk : k ∉ akeys l) :
    aset k v l = l ++ [(k, v)] := aset_of_not_mem v hk

/-- `removeAttribute(k)` / `del attributes[k]` is `del d[k]` on the one list — every other entry keeps its place —
    in every state -/
theorem write_list_remove (e : El) {k : Str} (hc : lower k ≠ classK) (hs : lower k ≠ styleK) :
    viewList (removeAttribute k e) = adel (lower k) (viewList e) ∧ viewList (mapDel k e) = adel (lower k) (viewList e) := by
  rw [removeAttribute_is_mapDel]
  exact ⟨viewList_mapDel hc hs, viewList_mapDel hc hs⟩

/-- `setAttributes(dict)` with valid names is the sequence of `setAttribute` calls in the order of the dict (with an
    invalid name: `invalid_setAttributes`) — every law above applies call by call … -/
theorem setAttributes_is_fold (T : Tables) (l : List (Str × Option Str)) (e : El) (hl : ∀ p ∈ l, validName p.1 = true) :
    setAttributes T l e = (.ok, l.foldl (fun e p => (setAttribute T p.1 p.2 e).2) e) := setAttributes_fold T l e hl

/-- … so afterwards every key other than class / style holds what the LAST entry naming it (case-insensitively)
    assigned, and a key no entry names holds what it held -/
theorem write_read_setAttributes (T : Tables) {e : El} (h : DictInv e) (l : List (Str × Option Str))
    (hl : ∀ p ∈ l, validName p.1 = true) {k : Str} (hc : k ≠ classK) (hs : k ≠ styleK) :
    aget k (viewList (setAttributes T l e).2) =
      match lastAssigned k l with
      | some v => some (normVal T k v)
      | none => aget k (viewList e) := by
  rw [setAttributes_fold T l e hl]
  exact foldl_setAttribute_listed T hc hs l h hl

/-! dot-assignment of a linked name (`tag.<name> = value`, name in `TAG_ITEM_ATTRIBUTE_LINKS` for the tag, without a
    validation rule — those are C19's): which writer it is, and what the dot read gives back -/

/-- a plain linked name: `setAttribute(attr, tostr(value))` -/
theorem dot_write_plain (T : Tables) {n : Str} {L : Link} (hn : n ≠ classNameK) (hl : aget n T.links = some L)
    (hval : L.validated = false) (hbs : L.binStr = false) (hb : L.bin = false) (v : DotVal) (e : El) :
    dotSet T n v e = setAttribute T L.attr (some v.tostr) e := by
  unfold dotSet
  simp only [hn, if_false, hl, hval, hbs, hb, Bool.false_eq_true]

/-- a boolean linked name: truthy → `setAttribute(attr, '')`, falsy → `removeAttribute(attr)` -/
theorem dot_write_boolean (T : Tables) {n : Str} {L : Link} (hn : n ≠ classNameK) (hl : aget n T.links = some L)
    (hval : L.validated = false) (hbs : L.binStr = false) (hb : L.bin = true) (v : DotVal) (e : El) :
    dotSet T n v e = if v.truthy then setAttribute T L.attr (some []) e else (.ok, removeAttribute L.attr e) := by
  unfold dotSet
  simp only [hn, if_false, hl, hval, hbs, hb, Bool.false_eq_true, if_true]

/-- WRITE → READ through the dot, plain linked name: `tag.<name> = v; tag.<name>` gives `tostr(v)` -/
theorem dot_write_read_plain (T : Tables) {e : El} (hr : Reach T e) {n : Str} {L : Link} (hn : n ≠ classNameK)
    (hl : aget n T.links = some L) (hval : L.validated = false) (hsp : L.special = false) (hbs : L.binStr = false)
    (hb : L.bin = false) (hv : validName L.attr = true) (ho : Ordinary T L.attr)
    (hnb : T.binary.contains L.attr = false) (v : DotVal) :
    (dotSet T n v e).1 = .ok ∧ (dotGet T n (dotSet T n v e).2).1 = some (.str v.tostr) := by
  rw [dot_write_plain T hn hl hval hbs hb]
  refine ⟨setAttribute_valid T hv _ e, ?_⟩
  have h' : DictInv (setAttribute T L.attr (some v.tostr) e).2 := dictInv_setAttribute T _ _ (reach_inv hr)
  rw [dotGet_plain T h' hn hl hsp hbs hb ho hnb, (write_read_listed T (reach_inv hr) hv ho.notClass ho.notStyle _).1,
      normVal_of_not_binStr T ho.notBinStr]
  rfl

/-- WRITE → READ through the dot, boolean linked name (`tag.hidden = v; tag.hidden`): `bool(v)` — presence -/
theorem dot_write_read_boolean (T : Tables) {e : El} (hr : Reach T e) {n : Str} {L : Link} (hn : n ≠ classNameK)
    (hl : aget n T.links = some L) (hval : L.validated = false) (hsp : L.special = false) (hbs : L.binStr = false)
    (hb : L.bin = true) (hv : validName L.attr = true) (ho : Ordinary T L.attr)
    (hnb : T.binary.contains L.attr = true) (v : DotVal) :
    (dotSet T n v e).1 = .ok ∧ (dotGet T n (dotSet T n v e).2).1 = some (.bool v.truthy) := by
  rw [dot_write_boolean T hn hl hval hbs hb]
  cases hvt : v.truthy with
  | true =>
    simp only [if_true]
    refine ⟨setAttribute_valid T hv _ e, ?_⟩
    have h' : DictInv (setAttribute T L.attr (some []) e).2 := dictInv_setAttribute T _ _ (reach_inv hr)
    rw [dotGet_boolean T h' hn hl hsp hbs hb ho hnb, (write_read_listed T (reach_inv hr) hv ho.notClass ho.notStyle _).1]
    rfl
  | false =>
    simp only [Bool.false_eq_true, if_false]
    refine ⟨trivial, ?_⟩
    have h' : DictInv (removeAttribute L.attr e) := by
      rw [removeAttribute_is_mapDel]; exact dictInv_mapDel _ (reach_inv hr)
    rw [dotGet_boolean T h' hn hl hsp hbs hb ho hnb, (remove_read_listed (reach_inv hr) ho.notClass ho.notStyle).1]
    rfl

/-- a boolean-string linked name (`tag.spellcheck = v`): `setAttribute(attr, convertToBooleanString(v))` followed by a
    read that may synchronise — the outcome is ok and the list is the list after that `setAttribute` -/
theorem dot_write_boolstr (T : Tables) {e : El} (h : DictInv e) {n : Str} {L : Link} (hn : n ≠ classNameK)
    (hl : aget n T.links = some L) (hval : L.validated = false) (hbs : L.binStr = true)
    (hv : validName L.attr = true) (v : DotVal) :
    (dotSet T n v e).1 = .ok ∧
    viewList (dotSet T n v e).2 = viewList (setAttribute T L.attr (some v.boolString) e).2 := by
  have ho := setAttribute_valid T hv (some v.boolString) e
  have h1 : DictInv (setAttribute T L.attr (some v.boolString) e).2 := dictInv_setAttribute T _ _ h
  unfold dotSet
  simp only [hn, if_false, hl, hval, hbs, Bool.false_eq_true, if_true]
  rcases hs : setAttribute T L.attr (some v.boolString) e with ⟨o, e'⟩
  rw [hs] at ho h1
  simp only at ho h1
  subst ho
  simp only
  refine ⟨trivial, ?_⟩
  rcases getAttribute_snd T L.attr PyVal.none e' with hg | hg <;> rw [hg]
  exact viewList_sync_list h1

/-- WRITE → READ through the dot, boolean-string linked name: `tag.spellcheck = v; tag.spellcheck` is `True` exactly
    when `convertToBooleanString(v)` is `'true'` -/
theorem dot_write_read_boolstr (T : Tables) {e : El} (hr : Reach T e) {n : Str} {L : Link} (hn : n ≠ classNameK)
    (hl : aget n T.links = some L) (hval : L.validated = false) (hsp : L.special = false) (hbs : L.binStr = true)
    (hv : validName L.attr = true) (hk : BoolStr T L.attr) (hnb : T.binary.contains L.attr = false) (v : DotVal) :
    (dotGet T n (dotSet T n v e).2).1 = some (.bool (decide (v.boolString = strTrue))) := by
  have hr' : Reach T (dotSet T n v e).2 := reach_step hr (.dot n v)
  rw [boolstr_dotGet T hr' hn hl hsp hbs hk hnb, (dot_write_boolstr T (reach_inv hr) hn hl hval hbs hv v).2,
      (boolstr_stored T (reach_inv hr) hv hk (some v.boolString)).2]
  have hid : Attrs.boolString (some v.boolString) = v.boolString := by
    cases v with
    | none => decide
    | str s => exact boolString_idem (some s)
    | bool b => cases b <;> decide
  rw [hid]
  congr 2
  by_cases hh : v.boolString = strTrue
  · rw [hh]; simp
  · have : ¬ (some (some v.boolString) = some (some strTrue)) := fun h => hh (Option.some.inj (Option.some.inj h))
    rw [decide_eq_false hh, decide_eq_false this]

/-! ### non-vacuity -/

def T0 : Tables := { binary := [['c', 'h', 'e', 'c', 'k', 'e', 'd']], binStr := [], links := [] }
def kFoo : Str := ['f', 'o', 'o']
def kChecked : Str := ['c', 'h', 'e', 'c', 'k', 'e', 'd']

example : Ordinary T0 kFoo := ⟨by decide, by decide, by decide⟩

/-- `setAttribute('FOO', 'v')`, `attributes['checked'] = ''`, then a rejected `attributes['a b'] = 'x'` -/
example : viewList (run T0 (mk T0 ['d', 'i', 'v'] false [])
      [.setAttr ['F', 'O', 'O'] (some ['v']), .mapSet kChecked (some []), .mapSet ['a', ' ', 'b'] (some ['x'])])
    = [(kFoo, some ['v']), (kChecked, some [])] := by decide

example : (step T0 (mk T0 ['d', 'i', 'v'] false []) (.mapSet ['a', ' ', 'b'] (some ['x']))).1 = .keyError := by decide

/-! non-vacuity of the list-level copy theorems, boolean-string keys, special rules -/

def T1 : Tables :=
  { binary := [kChecked], binStr := ["spellcheck".toList],
    links := [("spellcheck".toList, { attr := "spellcheck".toList, special := false, validated := false, binStr := true, bin := false, event := false }),
              ("tabIndex".toList, { attr := "tabindex".toList, special := true, validated := false, binStr := false, bin := false, event := false })] }

/-- `className = 'a'`, a synchronising read, then `setAttribute('foo', 'v')`: `class` is materialised first -/
def eClassFirst : El := run T1 (mk T1 "div".toList false []) [.className (some "a".toList), .sync, .setAttr kFoo (some ['v'])]
/-- the same without the read in between: `class` is materialised last -/
def eClassLast : El := run T1 (mk T1 "div".toList false []) [.className (some "a".toList), .setAttr kFoo (some ['v'])]

example : viewList eClassFirst = [(classK, some "a".toList), (kFoo, some ['v'])] := by decide
/-- the hypotheses of `clone_list` / `clone_list_eq_iff` hold for both elements -/
example : Reach T1 eClassFirst ∧ (∀ w ∈ eClassFirst.cls, CleanName w) ∧ StyRT eClassFirst.sty := by
  refine ⟨⟨_, _, _, _, rfl⟩, ?_, styRT_nil⟩
  have h : eClassFirst.cls = ["a".toList] := by decide
  intro w hw
  rw [h] at hw
  simp only [List.mem_singleton] at hw
  subst hw
  exact ⟨by decide, by decide⟩
/-- the counter-example of the complementary case: `class` listed first — the copy lists it last -/
example : viewList (clone T1 eClassFirst).1 = [(kFoo, some ['v']), (classK, some "a".toList)] := by decide
example : viewList (clone T1 eClassFirst).1 ≠ viewList eClassFirst := by decide
example : ¬ (eClassFirst.cls = [] ∨ (akeys (viewList eClassFirst)).getLast? = some classK) := by decide
/-- `class` listed last: the lists agree -/
example : viewList (clone T1 eClassLast).1 = viewList eClassLast := by
  have hr : Reach T1 eClassLast := ⟨_, _, _, _, rfl⟩
  have hs : StyRT eClassLast.sty := styRT_nil
  have h : eClassLast.cls = ["a".toList] := by decide
  have hc : ∀ w ∈ eClassLast.cls, CleanName w := by
    intro w hw
    rw [h] at hw
    simp only [List.mem_singleton] at hw
    subst hw
    exact ⟨by decide, by decide⟩
  exact (clone_list_eq_iff T1 hr hc hs).mpr (Or.inr (by decide))

/-- `created_list` on a concrete list: `class` given first is listed last, `spellcheck` is normalised -/
example : GoodKeys [(classK, some "a  b".toList), ("spellcheck".toList, some "No".toList), (kFoo, none)] := ⟨by decide, by decide⟩
example : viewList (mk T1 "div".toList false [(classK, some "a  b".toList), ("spellcheck".toList, some "No".toList), (kFoo, none)])
    = [("spellcheck".toList, some strTrue), (kFoo, none), (classK, some "a b".toList)] := by decide

example : BoolStr T1 "SpellCheck".toList := ⟨by decide, by decide, by decide⟩
/-- `setAttribute('spellcheck', 'YES')` stores `'true'`, `'0'` stores `'false'` -/
example : viewList (setAttribute T1 "spellcheck".toList (some "YES".toList) (mk T1 "div".toList false [])).2
    = [("spellcheck".toList, some strTrue)] := by decide
example : viewList (setAttribute T1 "spellcheck".toList (some "0".toList) (mk T1 "div".toList false [])).2
    = [("spellcheck".toList, some strFalse)] := by decide
/-- `attributes['spellcheck']` on an element without the attribute: `'false'` -/
example : getitem T1 "spellcheck".toList (mk T1 "div".toList false []) = .str strFalse := by decide

/-- a rule in the shape of `tabIndex` (`convertToIntOrNegativeOneIfUnset(getAttribute('tabindex', None))`), with a
    toy conversion standing for C19's: the value's length, −1 when unset -/
def rTab : SpecialRule Int :=
  { attr := "tabindex".toList, guard := none, onDefault := -1,
    conv := fun v => match v with | .str s => s.length | _ => -1 }
example : (dotGet T1 "tabIndex".toList (mk T1 "div".toList false [])).1 = none := by decide
example : (dotGetSpecial T1 rTab (mk T1 "div".toList false [("tabindex".toList, some "12".toList)])).1 = 2 := by decide
example : (dotGetSpecial T1 rTab (mk T1 "div".toList false [])).1 = -1 := by decide

/-! non-vacuity of C08f (write → read, frame, list order), of `created_list_all` and of the string-level re-parse -/

/-- a reachable element with a class name, a style and two attributes, read once (so `ClassSynced`) -/
def eW : El := run T1 (mk T1 "div".toList false [("id".toList, some "x".toList)])
  [.className (some "a b".toList), .styAssign (some "top: 1px".toList), .setAttr "title".toList (some "t".toList), .sync]
example : viewList eW = [("id".toList, some "x".toList), ("style".toList, some "top: 1px".toList),
    ("title".toList, some "t".toList), (classK, some "a b".toList)] := by decide
example : Reach T1 eW ∧ ClassSynced eW := ⟨⟨_, _, _, _, rfl⟩, by unfold ClassSynced; decide⟩
example : Ordinary T1 "Title".toList ∧ validName "Title".toList = true := ⟨⟨by decide, by decide, by decide⟩, by decide⟩
/-- `setAttribute('TITLE', 'new')`: the existing key keeps its place, `setAttribute('lang', 'en')`: the new key goes last -/
example : viewList (setAttribute T1 "TITLE".toList (some "new".toList) eW).2 = [("id".toList, some "x".toList),
    ("style".toList, some "top: 1px".toList), ("title".toList, some "new".toList), (classK, some "a b".toList)] := by decide
example : viewList (setAttribute T1 "lang".toList (some "en".toList) eW).2 = viewList eW ++ [("lang".toList, some "en".toList)] := by
  decide
/-- the operations a key is outside of: `title` is not addressed by a class writer, a style writer, `setAttribute('id', …)` -/
example : "title".toList ∉ addresses T1 (.addClass "c".toList) ∧ "title".toList ∉ addresses T1 (.styProp "top".toList none)
    ∧ "title".toList ∉ addresses T1 (.setAttr "ID".toList none) := by decide
/-- `write_list_pending_class`: WITHOUT the hypothesis `ClassSynced` the list law fails in the order — `className = 'a'`
    (no reader in between), then `setAttribute('lang', 'en')`: the pending `class` key is materialised after `lang`.
    Per key (`write_frame`, `write_read_listed`) and on the list without `class` (`write_list_set_general`) nothing is lost. -/
def ePending : El := run T1 (mk T1 "div".toList false [("id".toList, some "x".toList)]) [.className (some "a".toList)]
example : ¬ ClassSynced ePending := by unfold ClassSynced; decide
example : viewList ePending = [("id".toList, some "x".toList), (classK, some "a".toList)] := by decide
example : viewList (setAttribute T1 "lang".toList (some "en".toList) ePending).2
    = [("id".toList, some "x".toList), ("lang".toList, some "en".toList), (classK, some "a".toList)] := by decide
example : viewList (setAttribute T1 "lang".toList (some "en".toList) ePending).2
    ≠ aset "lang".toList (some "en".toList) (viewList ePending) := by decide

/-- `created_list_all` on a raw list with upper-case names, an invalid name, repeated names (`id` three times: first
    position, last value), `class` twice, `style` emptied and set again (listed where the LAST entry stands) -/
def rawL : List (Str × Option Str) :=
  [("style".toList, some "a:b".toList), ("ID".toList, some "1".toList), ("a b".toList, some "x".toList),
   ("class".toList, some " p  q ".toList), ("Id".toList, some "2".toList), ("style".toList, some "junk".toList),
   ("checked".toList, none), ("STYLE".toList, some "Color : red".toList), ("id".toList, some "3".toList),
   ("CLASS".toList, some "r".toList), ("spellcheck".toList, some "No".toList)]
example : createdList T1 rawL = [("id".toList, some "3".toList), ("checked".toList, none),
    ("style".toList, some "color: red".toList), ("spellcheck".toList, some strTrue), (classK, some "r".toList)] := by decide
example : viewList (mk T1 "div".toList false rawL) = createdList T1 rawL := created_list_all T1 _ _ _
example : (intake rawL AttrState.empty).view = createdList AttrStores.sampleTables rawL :=
  intake_view_is_createdList _ AttrStores.sampleTables_ok.1 rawL

/-- the string-level re-parse on a concrete element: hypotheses satisfiable, both sides computed -/
def Tgen : Tables := AttrStores.sampleTables
def eLex : El := mk Tgen "DIV".toList false
  [("ID".toList, some "a".toList), ("checked".toList, some []), ("data-q".toList, some "say \"hi\" & go".toList),
   ("class".toList, some "x  y".toList)]
example : AttrStores.BinaryOK Tgen := AttrStores.sampleTables_ok.2
example : TagNameOK eLex.tag := by decide
example : ∀ p ∈ viewList eLex, ∀ s, p.2 = some s → ValueOK s := by decide
example : (Attrs.startTag Tgen eLex).1 = "<div id=\"a\" checked data-q=\"say &quot;hi&quot; & go\" class=\"x y\" >".toList := by
  decide
example : readBack (startTagItems Tgen eLex).1 = [("id".toList, some "a".toList), ("checked".toList, none),
    ("data-q".toList, some "say \"hi\" & go".toList), (classK, some "x y".toList)] := by decide
example : lexStrict ((Attrs.startTag Tgen eLex).1 ++ endTag eLex.tag eLex.sc)
    = some [Token.start "div".toList (readBack (startTagItems Tgen eLex).1), Token.end_ "div".toList] :=
  startTag_lexed Tgen AttrStores.sampleTables_ok.2 (dictInv_mk _ _ _ _) (by decide) (by decide)

end AHP.C08
