/- C08 — property theorems (stub: the property is not claimed yet). -/
namespace AHP.C08
end AHP.C08
