/-
  C08 — All views of an element's attributes agree after any sequence of attribute edits.

  Property theorems only.  Model: AHP/Model/Attrs.lean (executed by the native driver); lemmas: AHP/Lemmas/Attrs*.lean.

  `viewList e` = `getAttributesList()` = the association list the dict shows after the lazy synchronisation.
  C08a says: every other view — computed by the model function of *its own* read path, with its own
  synchronisation calls — is a projection of `viewList e`, in the same order.  C08b: the invariant over all
  histories.  C08c: invalid names.  C08d: the rendered start tag read back.  C08e: copies.
  `T : Tables` (constants.py) is universally quantified.  "Ordinary key" = neither `class` nor `style`
  (C09 / C10 treat those) and not a boolean-*string* attribute (`spellcheck`, whose value is normalised to
  "true"/"false" by the store).
-/
import AHP.Lemmas.AttrsMap
namespace AHP.C08
open AHP AHP.Attrs

def Reach (T : Tables) (e : El) : Prop :=
  ∃ tag sc attrs ops, e = run T (mk T tag sc attrs) ops

/-- an ordinary key, as stored (lower-case) -/
structure Ordinary (T : Tables) (k : Str) : Prop where
  notClass : lower k ≠ classK
  notStyle : lower k ≠ styleK
  notBinStr : T.binStr.contains (lower k) = false

/-! ### C08b — the invariant over all histories -/

theorem reach_inv {T : Tables} {e : El} (h : Reach T e) : DictInv e := by
  obtain ⟨tag, sc, attrs, ops, rfl⟩ := h
  exact dictInv_run T ops (dictInv_mk T tag sc attrs)

theorem inv_step (T : Tables) (op : Op) {e : El} (h : DictInv e) : DictInv (step T e op).2 := dictInv_step T op h

/-- C08b: in every reachable state the names every view lists are pairwise distinct, valid and lower-case. -/
theorem stored_names {T : Tables} {e : El} (h : Reach T e) :
    (akeys (viewList e)).Nodup ∧ ∀ k ∈ akeys (viewList e), validName k = true ∧ lower k = k := by
  have hi := dictInv_handleClassAttr (reach_inv h)
  rw [akeys_viewList]
  refine ⟨hi.nodup, ?_⟩
  intro k hk
  obtain ⟨p, hp, rfl⟩ := List.mem_map.mp hk
  exact ⟨(hi.slots p hp).1, (hi.slots p hp).2.1⟩

/-- C08b: names are matched case-insensitively: every accessor lower-cases the key first (writers and readers) -/
theorem case_insensitive (T : Tables) (k : Str) (v : Option Str) (d : PyVal) (e : El) :
    mapSet T (lower k) v e = mapSet T k v e ∧ mapDel (lower k) e = mapDel k e ∧
    contains (lower k) e = contains k e ∧ getitem T (lower k) e = getitem T k e ∧
    mapGet T (lower k) d e = mapGet T k d e ∧ hasAttribute (lower k) e = hasAttribute k e ∧
    removeAttribute (lower k) e = removeAttribute k e := by
  refine ⟨?_, ?_, ?_, ?_, ?_, ?_, ?_⟩
  · unfold mapSet; rw [lower_idem]
  · unfold mapDel; rw [lower_idem]
  · unfold contains; rw [lower_idem]
  · unfold getitem; rw [lower_idem]
  · unfold mapGet; rw [lower_idem]
  · unfold hasAttribute; rw [lower_idem]
  · unfold removeAttribute; rw [lower_idem]

/-! ### C08c — an invalid name is rejected with KeyError and changes nothing -/

theorem invalid_setAttribute (T : Tables) {k : Str} (h : validName k = false) (v : Option Str) (e : El) :
    setAttribute T k v e = (.keyError, e) := setAttribute_invalid T h v e

theorem invalid_mapSet (T : Tables) {k : Str} (h : validName k = false) (v : Option Str) (e : El) :
    mapSet T k v e = (.keyError, e) := mapSet_invalid T h v e

theorem invalid_mapDel {T : Tables} {k : Str} (h : validName k = false) {e : El} (hr : Reach T e) :
    mapDel k e = e ∧ removeAttribute k e = e := by
  refine ⟨mapDel_invalid h (reach_inv hr), ?_⟩
  unfold removeAttribute
  exact mapDel_invalid (by rw [validName_lower]; exact h) (reach_inv hr)

/-- `setAttributes`: the first invalid name raises; the names before it were set, it and the rest change nothing -/
theorem invalid_setAttributes (T : Tables) : ∀ (l1 : List (Str × Option Str)) {k : Str} (v : Option Str)
    (l2 : List (Str × Option Str)) (e : El), (∀ p ∈ l1, validName p.1 = true) → validName k = false →
    setAttributes T (l1 ++ (k, v) :: l2) e = (.keyError, (setAttributes T l1 e).2)
  | [], k, v, l2, e, _, hk => by
    simp only [List.nil_append, setAttributes]
    rw [setAttribute_invalid T hk]
  | (n, w) :: l1, k, v, l2, e, h1, hk => by
    have hn := h1 (n, w) (by simp)
    have ho := setAttribute_valid T hn w e
    simp only [List.cons_append, setAttributes]
    rcases hs : setAttribute T n w e with ⟨o, e'⟩
    rw [hs] at ho
    simp only at ho
    subst ho
    simp only
    exact invalid_setAttributes T l1 v l2 e' (fun p hp => h1 p (List.mem_cons_of_mem _ hp)) hk

/-- a valid name is accepted -/
theorem valid_accepted (T : Tables) {k : Str} (h : validName k = true) (v : Option Str) (e : El) :
    (setAttribute T k v e).1 = .ok := setAttribute_valid T h v e

/-! ### C08a — every view is a projection of the one list, in one order -/

/-- `attributes.items()` -/
theorem items_proj (e : El) : (items e).1.map (fun p => (p.1, p.2.tostrOpt)) = viewList e := rfl

/-- `attributes.keys()`, iteration -/
theorem keys_proj (e : El) : (keys e).1 = akeys (viewList e) := by
  rw [keys_fst, akeys_viewList]

/-- the DOM node map lists the same names in the same order -/
theorem domKeys_proj {e : El} (h : DictInv e) : (domKeys e).1 = akeys (viewList e) := by
  unfold domKeys
  simp only
  rw [keys_proj]
  apply List.filter_eq_self.mpr
  intro k hk
  have hi := dictInv_handleClassAttr h
  show contains k (handleClassAttr e) = true
  rw [contains_eq_viewList hi]
  have hl : lower k = k := by
    rw [akeys_viewList] at hk
    obtain ⟨p, hp, rfl⟩ := List.mem_map.mp hk
    exact (hi.slots p hp).2.1
  rw [hl, viewList_sync]
  exact ahas_iff_mem.mpr hk

/-- the rendered start tag lists the same names in the same order … -/
theorem startTag_names (T : Tables) (e : El) : (startTagItems T e).1.map RItem.name = akeys (viewList e) := by
  rw [startTagItems_fst, List.map_map, akeys_viewList, ← akeys_items]
  unfold akeys
  apply List.map_congr_left
  intro p _
  exact renderItem_name T p

/-- … and so does the attribute list read back from it -/
theorem readBack_names (T : Tables) (e : El) : akeys (readBack (startTagItems T e).1) = akeys (viewList e) := by
  rw [akeys_readBack, akeys_viewList]

/-- `in`, for every key (class and style included) -/
theorem contains_proj {e : El} (h : DictInv e) (k : Str) : contains k e = (aget (lower k) (viewList e)).isSome :=
  contains_eq_viewList h k

/-- `hasAttribute` -/
theorem hasAttribute_proj {e : El} (h : DictInv e) (k : Str) : hasAttribute k e = (aget (lower k) (viewList e)).isSome := by
  unfold hasAttribute
  rw [contains_eq_viewList h, lower_idem]

/-- `attributes[k]` -/
theorem getitem_proj (T : Tables) {e : El} (h : DictInv e) {k : Str} (ho : Ordinary T k) :
    getitem T k e = pyOfOpt ((aget (lower k) (viewList e)).join) :=
  getitem_eq_viewList T h ho.notClass ho.notStyle ho.notBinStr

/-- `attributes.get(k, default)` -/
theorem mapGet_proj (T : Tables) {e : El} (h : DictInv e) {k : Str} (ho : Ordinary T k) (d : PyVal) :
    (mapGet T k d e).1 = match aget (lower k) (viewList e) with
      | none => d
      | some v => pyOfOpt v :=
  mapGet_eq_viewList T h ho.notClass ho.notStyle ho.notBinStr d

/-- `getAttribute(k, default)` for a name that is not a boolean attribute -/
theorem getAttribute_proj (T : Tables) {e : El} (h : DictInv e) {k : Str} (ho : Ordinary T k)
    (hb : T.binary.contains k = false) (d : PyVal) :
    (getAttribute T k d e).1 = match aget (lower k) (viewList e) with
      | none => d
      | some v => pyOfOpt v := by
  unfold getAttribute
  rw [hb]
  exact mapGet_proj T h ho d

/-- `getAttribute(k)` for a boolean attribute: False when absent, True when present without a (non-empty) value -/
theorem getAttribute_boolean (T : Tables) {e : El} (h : DictInv e) {k : Str} (ho : Ordinary T k)
    (hb : T.binary.contains k = true) (d : PyVal) :
    (getAttribute T k d e).1 = match aget (lower k) (viewList e) with
      | none => .bool false
      | some v => if (pyOfOpt v).falsy then .bool true else pyOfOpt v := by
  unfold getAttribute
  rw [hb]
  simp only [if_true]
  rw [contains_proj h, getitem_proj T h ho]
  rcases aget (lower k) (viewList e) with _ | v
  · rfl
  · cases v <;> rfl

/-- the DOM node under a name: its name is the stored (lower-case) one, its value the listed one -/
theorem domItem_proj (T : Tables) {e : El} (h : DictInv e) {k : Str} (ho : Ordinary T k) :
    domItem T k e = (aget (lower k) (viewList e)).map (fun v => (lower k, pyOfOpt v)) := by
  unfold domItem
  simp only
  have ho' : Ordinary T (lower k) := ⟨by rw [lower_idem]; exact ho.notClass, by rw [lower_idem]; exact ho.notStyle,
    by rw [lower_idem]; exact ho.notBinStr⟩
  rw [contains_proj h, getitem_proj T h ho', lower_idem]
  rcases aget (lower k) (viewList e) with _ | v
  · rfl
  · cases v <;> rfl

/-- dot access of a linked name without a special rule: the listed value of its html attribute, else the default
    (`''`, or `None` for event attributes) -/
theorem dotGet_plain (T : Tables) {e : El} (h : DictInv e) {n : Str} {L : Link} (hn : n ≠ classNameK)
    (hl : aget n T.links = some L) (hs : L.special = false) (hbs : L.binStr = false) (hb : L.bin = false)
    (ho : Ordinary T L.attr) (hnb : T.binary.contains L.attr = false) :
    (dotGet T n e).1 = some (match aget (lower L.attr) (viewList e) with
      | none => if L.event then .none else .str []
      | some v => pyOfOpt v) := by
  unfold dotGet
  simp only [hn, if_false, hl, hs, hbs, hb, Bool.false_eq_true]
  congr 1
  exact getAttribute_proj T h ho hnb _

/-- dot access of a boolean linked name: True exactly when the attribute is listed -/
theorem dotGet_boolean (T : Tables) {e : El} (h : DictInv e) {n : Str} {L : Link} (hn : n ≠ classNameK)
    (hl : aget n T.links = some L) (hs : L.special = false) (hbs : L.binStr = false) (hb : L.bin = true)
    (ho : Ordinary T L.attr) (hnb : T.binary.contains L.attr = true) :
    (dotGet T n e).1 = some (.bool (aget (lower L.attr) (viewList e)).isSome) := by
  unfold dotGet
  simp only [hn, if_false, hl, hs, hbs, hb, Bool.false_eq_true, if_true]
  congr 2
  rw [getAttribute_boolean T h ho hnb]
  rcases aget (lower L.attr) (viewList e) with _ | v
  · rfl
  · cases v with
    | none => rfl
    | some s =>
      by_cases hs0 : s = []
      · subst hs0; rfl
      · have : s.isEmpty = false := by simpa using hs0
        simp [pyOfOpt, PyVal.falsy, this]

/-! ### C08d — the rendered start tag, read back -/

theorem items_ordinary {e : El} (h : DictInv e) {k : Str} (hc : k ≠ classK) (hs : k ≠ styleK) :
    aget k (items e).1 = (aget k (viewList e)).map pyOfOpt := by
  rw [viewList_ordinary h hc hs, aget_items, aget_other_sync e hc hs]
  unfold rawLookup
  rcases hg : aget k e.dict with _ | s
  · rfl
  · obtain ⟨v, rfl⟩ := slot_of_ordinary h hc hs hg
    cases v <;> rfl

theorem readBack_lookup (T : Tables) {e : El} (h : DictInv e) {k : Str} (hc : k ≠ classK) (hs : k ≠ styleK) :
    aget k (readBack (startTagItems T e).1) = (aget k (viewList e)).map (fun v => readBackVal T k (pyOfOpt v)) := by
  rw [aget_readBack, items_ordinary h hc hs]
  rcases aget k (viewList e) with _ | v <;> rfl

/-- a value-less attribute renders as a bare name and reads back value-less -/
theorem rendered_valueless (T : Tables) {e : El} (h : DictInv e) {k : Str} (hc : k ≠ classK) (hs : k ≠ styleK)
    (hv : aget k (viewList e) = some none) : aget k (readBack (startTagItems T e).1) = some none := by
  rw [readBack_lookup T h hc hs, hv]
  rfl

/-- a boolean attribute with an empty value renders as a bare name (and reads back present, without a value) -/
theorem rendered_boolean_empty (T : Tables) {e : El} (h : DictInv e) {k : Str} (hc : k ≠ classK) (hs : k ≠ styleK)
    (hb : T.binary.contains k = true) (hv : aget k (viewList e) = some (some [])) :
    aget k (readBack (startTagItems T e).1) = some none := by
  rw [readBack_lookup T h hc hs, hv]
  have hb' : k ∈ T.binary := List.contains_iff_mem.mp hb
  simp [readBackVal, renderItem, pyOfOpt, PyVal.falsy, hb']

/-- every other value is rendered between quotes with `"` escaped and reads back unchanged -/
theorem rendered_value (T : Tables) {e : El} (h : DictInv e) {k : Str} (hc : k ≠ classK) (hs : k ≠ styleK) {s : Str}
    (hne : s ≠ [] ∨ T.binary.contains k = false) (hamp : '&' ∉ s) (hv : aget k (viewList e) = some (some s)) :
    aget k (readBack (startTagItems T e).1) = some (some s) := by
  rw [readBack_lookup T h hc hs, hv]
  simp only [Option.map, readBackVal, renderItem, pyOfOpt]
  by_cases hs0 : s = []
  · subst hs0
    rcases hne with hne | hne
    · exact absurd rfl hne
    · have hne' : k ∉ T.binary := fun hm => by
        rw [List.contains_iff_mem.mpr hm] at hne; cases hne
      simp [PyVal.falsy, hne', escQ, replaceQuote, unescQ]
  · have : s.isEmpty = false := by simpa using hs0
    simp [PyVal.falsy, PyVal.tostrOpt, this, unescQ_escQ hamp]

/-- C08d: the element obtained by re-parsing the start tag holds, under every ordinary key, what was read back -/
theorem reparse_lookup (T : Tables) {e : El} (h : DictInv e) {k : Str} (hc : k ≠ classK) (hs : k ≠ styleK)
    (hb : T.binStr.contains k = false) :
    aget k (viewList (reparse T e).1) = aget k (readBack (startTagItems T e).1) := by
  have hg := goodKeys_of_sync h (akeys_readBack T e)
  unfold reparse
  simp only
  rw [viewList_ordinary (dictInv_mk T _ _ _) hc hs, mk_rawLookup T _ _ _ hg hc hs]
  unfold normVal
  rw [hb]
  rcases aget k (readBack (startTagItems T e).1) with _ | v <;> rfl

/-- C08d: "reads back as present": presence of every ordinary key survives the re-parse -/
theorem reparse_presence (T : Tables) {e : El} (h : DictInv e) {k : Str} (ho : Ordinary T k) :
    hasAttribute k (reparse T e).1 = hasAttribute k e := by
  have hi : DictInv (reparse T e).1 := dictInv_mk T _ _ _
  rw [hasAttribute_proj hi, hasAttribute_proj h, reparse_lookup T h ho.notClass ho.notStyle ho.notBinStr,
      readBack_lookup T h ho.notClass ho.notStyle]
  rcases aget (lower k) (viewList e) with _ | v <;> rfl

/-- C08d: a boolean attribute with an empty value reads back as present: `getAttribute` is `True` on the re-parsed element -/
theorem reparse_boolean_true (T : Tables) {e : El} (h : DictInv e) {k : Str} (ho : Ordinary T k) (hl : lower k = k)
    (hb : T.binary.contains k = true) (hv : aget k (viewList e) = some (some [])) (d : PyVal) :
    (getAttribute T k d (reparse T e).1).1 = .bool true := by
  have hi : DictInv (reparse T e).1 := dictInv_mk T _ _ _
  have hc : k ≠ classK := by rw [← hl]; exact ho.notClass
  have hs : k ≠ styleK := by rw [← hl]; exact ho.notStyle
  rw [getAttribute_boolean T hi ho hb, hl, reparse_lookup T h hc hs (by rw [← hl]; exact ho.notBinStr),
      rendered_boolean_empty T h hc hs hb hv]
  rfl

/-! ### C08e — cloneNode, copy, repr, unpickling reproduce the mapping -/

/-- under every ordinary key the copy lists exactly the value of the original (`None` stays `None`) -/
theorem clone_lookup (T : Tables) {e : El} (h : DictInv e) {k : Str} (hc : k ≠ classK) (hs : k ≠ styleK)
    (hb : T.binStr.contains k = false) :
    aget k (viewList (clone T e).1) = aget k (viewList e) := by
  have hg := goodKeys_of_sync h (akeys_attrsList e)
  unfold clone
  simp only
  rw [viewList_ordinary (dictInv_mk T _ _ _) hc hs, mk_rawLookup T _ _ _ hg hc hs]
  unfold normVal
  rw [hb]
  show Option.map (fun v => v) (aget k (viewList e)) = _
  rcases aget k (viewList e) with _ | v <;> rfl

/-- taking the copy reads `getAttributesList()` of the original: it synchronises it and changes nothing else -/
theorem clone_reads_only (T : Tables) (e : El) : (clone T e).2 = handleClassAttr e := rfl

/-! ### non-vacuity -/

def T0 : Tables := { binary := [['c', 'h', 'e', 'c', 'k', 'e', 'd']], binStr := [], links := [] }
def kFoo : Str := ['f', 'o', 'o']
def kChecked : Str := ['c', 'h', 'e', 'c', 'k', 'e', 'd']

example : Ordinary T0 kFoo := ⟨by decide, by decide, by decide⟩

/-- `setAttribute('FOO', 'v')`, `attributes['checked'] = ''`, then a rejected `attributes['a b'] = 'x'` -/
example : viewList (run T0 (mk T0 ['d', 'i', 'v'] false [])
      [.setAttr ['F', 'O', 'O'] (some ['v']), .mapSet kChecked (some []), .mapSet ['a', ' ', 'b'] (some ['x'])])
    = [(kFoo, some ['v']), (kChecked, some [])] := by decide

example : (step T0 (mk T0 ['d', 'i', 'v'] false []) (.mapSet ['a', ' ', 'b'] (some ['x']))).1 = .keyError := by decide

end AHP.C08
