/- C19 — table obligation, part 1 of 8 (split so that the parts are checked in parallel): every (element type, dot name)
   pair of this part of the documented table has, in the tables regenerated from the source, the dispatch its documented
   rule demands (`Spec.cellOK`, kernel evaluation over the generated table). -/
import AHP.Lemmas.Conv
namespace AHP.C19
open AHP.Conv AHP.Conv.Spec
set_option maxRecDepth 100000

theorem C19c_cells_part1 : (Spec.tagProps1.all fun p => p.2.all (cellOK genTables p.1)) = true := by decide +kernel

end AHP.C19
