/-
  C02 — Best-effort tree construction follows the token sequence, however nested.

  Property theorems only.  Model: AHP/Model/Builder.lean (the handlers of Parser.py as a stack machine,
  `feedTokens` = first pass + wrapper fallback).  Specification: AHP/Spec/Build.lean (recursive descent,
  no stack).  Helper lemmas: AHP/Lemmas/Builder*.lean.
-/
import AHP.Lemmas.BuilderTop
import AHP.Lemmas.WrapStr
import AHP.Lemmas.WrapLexFeed
import AHP.Lemmas.StripIERender
import AHP.Lemmas.StripIEMulti
import AHP.Lemmas.ParserObjLex
import AHP.Lemmas.ParserObjDoctype
import AHP.Lemmas.IntakeStableObs
namespace AHP.C02
open AHP AHP.Spec

/-- the input does not mention the reserved wrapper name (outside the property's domain) -/
def NoWrapper (toks : List Token) : Prop := ∀ t ∈ toks, mentionsWrapper t = false

/-! #### table obligation: the specification's void list is the source's -/
theorem void_table (n : Str) : AHP.isVoid n = Spec.isVoid n := isVoid_eq n
theorem wrapper_is_not_void : Spec.isVoid wrapperName = false := by decide

/-! #### doctype -/
theorem doctype_fold (toks : List Token) (s s' : BState) (h : run s toks = .ok s') :
    s'.doctype = toks.foldl Spec.doctypeStep s.doctype := by
  rw [run_eq] at h
  cases hr : runT s.tree toks <;> rw [hr] at h <;> simp [Outcome.map] at h
  rw [← h, stepD_eq_spec]

private theorem fold_wrap (toks : List Token) :
    (wrapToks toks).foldl stepD none = toks.foldl stepD none := by
  unfold wrapToks
  cases h : leadDoctype toks with
  | none => simp [List.foldl_append, stepD]
  | some p =>
    obtain ⟨pre, r⟩ := p
    have htoks : toks = pre ++ r := by
      unfold leadDoctype at h
      split at h
      · simp at h; rw [← h.1, ← h.2]; rfl
      · split at h
        · simp at h; rw [← h.1, ← h.2]; rfl
        · simp at h
      · simp at h
    rw [htoks]
    simp [List.foldl_append, stepD]

private theorem all_of_dropWhile_nil (p : Char → Bool) : ∀ l : Str, l.dropWhile p = [] → ∀ x ∈ l, p x = true := by
  intro l
  induction l with
  | nil => intro _ x hx; simp at hx
  | cons c cs ih =>
    intro h x hx
    by_cases hc : p c = true
    · simp only [List.dropWhile_cons, hc, if_true] at h
      rcases List.mem_cons.mp hx with e | e
      · rw [e]; exact hc
      · exact ih h x e
    · simp [List.dropWhile_cons, hc] at h

private theorem dropWhile_nil_of_all (p : Char → Bool) : ∀ l : Str, (∀ x ∈ l, p x = true) → l.dropWhile p = [] := by
  intro l
  induction l with
  | nil => intro _; rfl
  | cons c cs ih =>
    intro h
    have hc := h c List.mem_cons_self
    simp only [List.dropWhile_cons, hc, if_true]
    exact ih (fun x hx => h x (List.mem_cons_of_mem _ hx))

private theorem wsNL_all (ws : Str) : wsNL ws = true → ∀ c ∈ ws, isWs c = true := by
  induction ws with
  | nil => intro _ c hc; simp at hc
  | cons c cs ih =>
    intro h x hx
    unfold wsNL at h
    by_cases hc : c = '\n'
    · subst hc
      have h' : wsNL cs = true := by simpa [wsNL, List.dropWhile_cons] using h
      rcases List.mem_cons.mp hx with e | e
      · rw [e]; decide
      · exact ih h' x e
    · have h2 : (c :: cs).dropWhile (fun c => c = ' ' || c = '\t') = [] := by
        simpa [List.dropWhile_cons, hc] using h
      have := all_of_dropWhile_nil _ _ h2 x hx
      simp at this
      rcases this with e | e <;> subst e <;> decide

private theorem wsNL_blank (ws : Str) (h : wsNL ws = true) : isBlank ws = true := by
  unfold isBlank strip lstrip
  rw [dropWhile_nil_of_all isWs ws (wsNL_all ws h)]
  rfl

private theorem pre_skip (toks pre r : List Token) (h : leadDoctype toks = some (pre, r)) (l : List Token) :
    toks = pre ++ r ∧ runT TState.init (pre ++ l) = runT TState.init l := by
  unfold leadDoctype at h
  split at h
  · simp at h; obtain ⟨h1, h2⟩ := h; subst h1; subst h2
    exact ⟨rfl, by simp [runT, stepT]⟩
  · split at h
    · rename_i ws d r' hws
      simp at h; obtain ⟨h1, h2⟩ := h; subst h1; subst h2
      refine ⟨rfl, ?_⟩
      have hstep : stepT TState.init (.data ws) = .ok TState.init := by
        have e := wsNL_blank ws hws
        by_cases he : ws.isEmpty = true
        · simp [stepT, he]
        · simp [stepT, he, e, TState.init]
      simp only [List.cons_append, List.nil_append, runT, hstep]
      simp [stepT]
    · simp at h
  · simp at h

/-- the wrapped pass: everything the input contains becomes content of the wrapper, whatever it is -/
theorem wrapped_pass (ts : List Token) (hw : NoWrapper ts) (k : Nat) (hk : ts.length < k) :
    (runT TState.init (.start wrapperName [] :: ts ++ [.end_ wrapperName])).fin
      = .ok ⟨[], some (.elem wrapperName AttrState.empty false (items k [] ts).1)⟩ := by
  let s1 : TState := ⟨[⟨wrapperName, AttrState.empty, []⟩], none⟩
  have hs : stepT TState.init (.start wrapperName []) = .ok s1 := by
    simp [stepT, handleStart, TState.init, TState.hasRoot, wrapper_lower, wrapper_not_void, intake, s1]
  let K := ts.length + 3
  have hitems := runT_items K s1 (ts ++ [.end_ wrapperName]) (by simp [K]) (by simp [s1])
  have hnames : names s1 = [] ++ [wrapperName] := rfl
  have hwm : ∀ t ∈ ts, (match t with
      | .start n _ => lower n ≠ wrapperName | .startend n _ => lower n ≠ wrapperName
      | .end_ n => n ≠ wrapperName | _ => True) := by
    intro t ht
    have := hw t ht
    cases t <;> simp_all [mentionsWrapper]
  rw [hnames, items_append_stop wrapperName K [] ts (by simp [K]) hwm] at hitems
  have hrest : (items K [] ts).2 = [] := by
    rcases (items_rest K [] ts (by simp [K])).1 with h | ⟨m, r2, _, hm⟩
    · exact h
    · simp at hm
  rw [hrest] at hitems
  simp only [List.nil_append] at hitems
  simp only [List.cons_append, runT, hs]
  rw [hitems]
  have hs1 : s1 = { (⟨[], none⟩ : TState) with stack := ⟨wrapperName, AttrState.empty, []⟩ :: (⟨[], none⟩ : TState).stack } := rfl
  have hclose := stepT_close_own ⟨[], none⟩ wrapperName AttrState.empty (items K [] ts).1
  rw [← hs1] at hclose
  simp only [runT, hclose, addNode, Outcome.fin, finish_nil]
  rw [items_fuel K k [] ts (by simp [K]) hk]

private theorem ofPass_eq (second : Bool) (s : BState) (ts : List Token) (tr : TState)
    (h : (runT s.tree ts).fin = .ok tr) :
    FeedResult.ofPass second (run s ts) = .doc ⟨ts.foldl stepD s.doctype, tr.root⟩ second := by
  rw [run_eq]
  cases hr : runT s.tree ts <;> rw [hr] at h <;> simp [Outcome.fin] at h
  simp [Outcome.map, FeedResult.ofPass, BState.doc, h]

/-- **C02a.** For every token sequence — any order, however badly nested — that does not mention the
    reserved wrapper name, the parser (first pass, and the wrapper fallback when the first pass meets a
    second top-level node) builds exactly the document of the stack-free recursive-descent specification:
    same doctype, same tree, single root or wrapped top-level list. -/
theorem feed_eq_spec (toks : List Token) (hw : NoWrapper toks) :
    feedTokens toks = .doc (Spec.build toks).1 (Spec.build toks).2 := by
  have hpro := runT_prolog (toks.length + 1) toks (Nat.lt_succ_self _)
  unfold feedTokens Spec.build
  cases hsingle : single (toks.length + 1) toks with
  | some r =>
    rw [hsingle] at hpro
    have hE := ofPass_eq false BState.init toks ⟨[], r⟩ hpro
    have hrun : run BState.init toks = (runT TState.init toks).map (fun tr => ⟨tr, toks.foldl stepD none⟩) :=
      run_eq toks BState.init
    cases hr : runT TState.init toks with
    | ok tr =>
      rw [hrun, hr] at hE ⊢
      simp only [Outcome.map] at hE ⊢
      rw [hE]
      simp [doctypeOf, stepD_eq_spec, BState.init]
    | multipleRoot => rw [hr] at hpro; simp [Outcome.fin] at hpro
    | invalidClose => rw [hr] at hpro; simp [Outcome.fin] at hpro
    | missedClose => rw [hr] at hpro; simp [Outcome.fin] at hpro
    | invalidAttr => rw [hr] at hpro; simp [Outcome.fin] at hpro
  | none =>
    rw [hsingle] at hpro
    have hrun : run BState.init toks = .multipleRoot := by
      rw [run_eq]
      cases hr : runT BState.init.tree toks <;> simp only [BState.init] at hr <;> rw [hr] at hpro <;>
        simp [Outcome.fin, Outcome.map] at hpro ⊢
    rw [hrun]
    simp only
    -- the second pass
    have hsecond : (runT TState.init (wrapToks toks)).fin
        = .ok ⟨[], some (.elem wrapperName AttrState.empty false
            (items (toks.length + 1) [] (topTokens toks)).1)⟩ := by
      unfold wrapToks topTokens
      cases hl : leadDoctype toks with
      | none => exact wrapped_pass toks hw _ (Nat.lt_succ_self _)
      | some p =>
        obtain ⟨pre, r⟩ := p
        obtain ⟨htoks, hskip⟩ := pre_skip toks pre r hl (.start wrapperName [] :: r ++ [.end_ wrapperName])
        simp only [List.append_assoc] at hskip ⊢
        rw [hskip]
        have hwr : NoWrapper r := fun t ht => hw t (by rw [htoks]; exact List.mem_append_right _ ht)
        exact wrapped_pass r hwr _ (by rw [htoks]; simp; omega)
    have hE := ofPass_eq true BState.init (wrapToks toks) _ hsecond
    rw [hE]
    simp only [BState.init, doctypeOf]
    rw [fold_wrap, stepD_eq_spec]

/-- **C02 (void / self-closed elements never stay open; text, references and comments verbatim).**
    Read off the specification: these are its defining equations. -/
theorem spec_void_is_leaf (k : Nat) (open_ : List Str) (n : Str) (a : List Attr) (ts : List Token)
    (hv : Spec.isVoid (lower n) = true) :
    items (k + 1) open_ (.start n a :: ts)
      = (.elem (lower n) (intake a AttrState.empty) true [] :: (items k open_ ts).1, (items k open_ ts).2) := by
  simp [items, hv]

theorem spec_selfclosed_is_leaf (k : Nat) (open_ : List Str) (n : Str) (a : List Attr) (ts : List Token) :
    items (k + 1) open_ (.startend n a :: ts)
      = (.elem (lower n) (intake a AttrState.empty) true [] :: (items k open_ ts).1, (items k open_ ts).2) := by
  simp [items]

theorem spec_stray_end_ignored (k : Nat) (open_ : List Str) (n : Str) (ts : List Token)
    (h : open_.contains n = false) : items (k + 1) open_ (.end_ n :: ts) = items k open_ ts := by
  simp only [items, h, Bool.false_eq_true, if_false]

theorem spec_text_verbatim (k : Nat) (open_ : List Str) (e : Str) (ts : List Token) :
    items (k + 1) open_ (.entity e :: ts) = (.text ('&' :: e ++ [';']) :: (items k open_ ts).1, (items k open_ ts).2) := by
  simp [items, textOf]

/-! #### C02 — the attribute clause and the doctype clause against INDEPENDENT specifications (`Spec/Attrs.lean`)

  Review finding (C02-2): `Spec.items` / `Spec.single` build an element's store with the same `intake` as
  `handleStart`, and `Spec.doctypeStep` is textually `stepD`, so "attribute names are lower-cased with invalid names
  dropped and the last duplicate winning" and "the doctype is reported separately" were not specified independently.
  `Spec.attrs` / `Spec.doctypeRead` are written from the property text without `intake`, `AttrState.set`, `dictSet`
  or `stepD`; the theorems below say what every store built by `intake` — hence every element of `Spec.build` and of
  `feedTokens` — lists, and what doctype every parse reports. -/

/-- the specification's reading of a valid attribute name (a letter or underscore, then letters, digits, `-`, `_`)
    is `Tags.isValidAttributeName` -/
theorem valid_name_reading (n : Str) : Spec.validName n = validAttrName n := AttrStores.validName_eq n

/-- **C02 (attribute clause; names other than class / style / spellcheck).** For every raw attribute list — any
    letter case, duplicates, invalid names — the element lists exactly: the lower-cased valid names in the order of
    their first occurrence, each with the value of its last occurrence. -/
theorem attrs_spec_plain (l : List Attr)
    (h : ∀ p ∈ l, lower p.1 ≠ "class".toList ∧ lower p.1 ≠ "style".toList ∧ lower p.1 ≠ "spellcheck".toList) :
    (intake l AttrState.empty).view = Spec.attrs l :=
  intake_view_eq_spec_plain l (fun p hp => by
    obtain ⟨h1, h2, h3⟩ := h p hp
    exact ⟨h1, h2, fun e => h3 (by rw [e]; decide)⟩)

/-- **C02 (attribute clause, every list without a declaration-less `style`).** The listing is the documented
    normalisation (`Spec.normalise`: class words joined by single blanks and listed last; style parsed and
    re-rendered; spellcheck as boolean string) of the independently specified attribute set. -/
theorem attrs_spec (l : List Attr) (h : ∀ p ∈ l, Spec.deadStyle p = false) :
    (intake l AttrState.empty).view = Spec.normalise (Spec.attrs l) :=
  intake_view_eq_spec_live l h

/-- **C02 (attribute clause, in general).** Every raw list: the same over `Spec.liveStyle l` — a `style` attribute
    without any declaration deletes the element's `style` entry (`_ensureHtmlAttribute`), so a `style` attribute behind
    it is listed at its own position, not at the first one's (library behaviour the property text does not mention;
    `liveStyle_needed` shows the carve-out is needed). -/
theorem attrs_spec_general (l : List Attr) :
    (intake l AttrState.empty).view = Spec.normalise (Spec.attrs (Spec.liveStyle l)) :=
  intake_view_eq_spec l

/-- what `Spec.attrs` says on a concrete list: upper case, a duplicate (`id`: last value, first position), an
    invalid name, a value-less attribute -/
example : Spec.attrs [("ID".toList, some "x".toList), ("Title".toList, some "t".toList), ("1a".toList, some "z".toList),
      ("hidden".toList, none), ("id".toList, some "y".toList)]
    = [("id".toList, some "y".toList), ("title".toList, some "t".toList), ("hidden".toList, none)] := by decide

/-- `attrs_spec_plain` applies to it -/
example : (intake [("ID".toList, some "x".toList), ("Title".toList, some "t".toList), ("1a".toList, some "z".toList),
      ("hidden".toList, none), ("id".toList, some "y".toList)] AttrState.empty).view
    = [("id".toList, some "y".toList), ("title".toList, some "t".toList), ("hidden".toList, none)] := by
  rw [attrs_spec_plain _ (by decide)]; decide

/-- `attrs_spec` with class / style / spellcheck present -/
example : Spec.normalise (Spec.attrs [("class".toList, some " b  a ".toList), ("STYLE".toList, some "color:red".toList),
      ("spellcheck".toList, some "No".toList), ("Class".toList, some "c".toList), ("id".toList, some "i".toList)])
    = [("style".toList, some "color: red".toList), ("spellcheck".toList, some "true".toList),
       ("id".toList, some "i".toList), ("class".toList, some "c".toList)] := by decide

/-- `attrs_spec` applies to it (no declaration-less `style`) -/
example : (intake [("class".toList, some " b  a ".toList), ("STYLE".toList, some "color:red".toList),
      ("spellcheck".toList, some "No".toList), ("Class".toList, some "c".toList), ("id".toList, some "i".toList)]
      AttrState.empty).view
    = [("style".toList, some "color: red".toList), ("spellcheck".toList, some "true".toList),
       ("id".toList, some "i".toList), ("class".toList, some "c".toList)] := by
  rw [attrs_spec _ (by decide)]; decide

/-- the carve-out is needed: `style="a:b" id=x style="" style="c:d"` lists `id` BEFORE `style` (checked on the
    library), where "last value at the first position" would list `style` first -/
theorem liveStyle_needed :
    (intake [("style".toList, some "a:b".toList), ("id".toList, some "x".toList), ("style".toList, some [])
      , ("style".toList, some "c:d".toList)] AttrState.empty).view
      = [("id".toList, some "x".toList), ("style".toList, some "c: d".toList)] ∧
    Spec.normalise (Spec.attrs [("style".toList, some "a:b".toList), ("id".toList, some "x".toList),
      ("style".toList, some []), ("style".toList, some "c:d".toList)])
      = [("style".toList, some "c: d".toList), ("id".toList, some "x".toList)] := by decide

/-- **C02 (doctype clause).** After ANY token sequence the handlers' doctype is: the last doctype declaration when
    it is non-empty; otherwise the first non-empty unknown declaration behind it (behind the start of the input when
    there is no declaration); nothing when there is neither. -/
theorem doctype_spec (toks : List Token) : toks.foldl stepD none = Spec.doctypeRead toks := doctype_fold_eq_read toks

/-- …so that is the doctype of the specification's document -/
theorem build_doctype_read (toks : List Token) : (Spec.build toks).1.doctype = Spec.doctypeRead toks := by
  have h : Spec.doctypeOf toks = Spec.doctypeRead toks := by
    unfold Spec.doctypeOf; rw [← stepD_eq_spec]; exact doctype_fold_eq_read toks
  unfold Spec.build
  split <;> exact h

/-- …and of EVERY document the two-pass `feed` builds (first pass or wrapped second pass; wrapper name mentioned
    or not) -/
theorem feed_doctype_read (toks : List Token) (d : Doc) (b : Bool) (h : feedTokens toks = .doc d b) :
    d.doctype = Spec.doctypeRead toks := by
  have key : ∀ (ts : List Token) (sec : Bool), FeedResult.ofPass sec (run BState.init ts) = .doc d b →
      d.doctype = ts.foldl stepD none := by
    intro ts sec hh
    rw [run_eq] at hh
    cases hr : runT BState.init.tree ts <;> rw [hr] at hh <;>
      simp [Outcome.map, FeedResult.ofPass, BState.doc, BState.init] at hh
    rw [← hh.1]
  unfold feedTokens at h
  split at h
  · rw [key _ _ h, fold_wrap, doctype_fold_eq_read]
  · rw [key _ _ h, doctype_fold_eq_read]

/-- the usual cases spelled out: a non-empty doctype declaration somewhere — the LAST one is reported -/
theorem doctype_last_declaration (pre post : List Token) (c : Char) (d : Str) (hpost : ∀ t ∈ post, ∀ x, t ≠ .decl x) :
    (pre ++ .decl (c :: d) :: post).foldl stepD none = some (c :: d) :=
  doctype_last_decl pre post c d hpost

/-- no doctype declaration: the FIRST non-empty unknown declaration -/
theorem doctype_first_unknown_declaration (pre post : List Token) (c : Char) (u : Str)
    (hpre : ∀ t ∈ pre, (∀ x, t ≠ .decl x) ∧ (∀ x, t = .unknownDecl x → x = []))
    (hpost : ∀ t ∈ post, ∀ x, t ≠ .decl x) :
    (pre ++ .unknownDecl (c :: u) :: post).foldl stepD none = some (c :: u) :=
  doctype_first_unknown pre post c u hpre hpost

/-- neither kind of declaration: no doctype -/
theorem doctype_absent (ts : List Token) (h : ∀ t ∈ ts, (∀ x, t ≠ .decl x) ∧ (∀ x, t ≠ .unknownDecl x)) :
    ts.foldl stepD none = none := doctype_none ts h

example : Spec.doctypeRead [.unknownDecl "CDATA[x".toList, .decl "DOCTYPE a".toList, .start "p".toList [],
    .unknownDecl "if".toList, .decl "DOCTYPE b".toList, .unknownDecl "late".toList] = some "DOCTYPE b".toList := by decide
example : Spec.doctypeRead [.start "p".toList [], .unknownDecl "CDATA[x".toList, .unknownDecl "y".toList]
    = some "CDATA[x".toList := by decide

/-- what the API shows of a parse result: doctype, root as names / listed attribute pairs / flags / blocks, and
    whether the wrapper was needed -/
def shown : FeedResult → Option ((Option Str × Option Spec.OTree) × Bool)
  | .doc d second => some ((d.doctype, d.root.map Node.toO), second)
  | .raised _ => none

/-- **C02a against a specification that shares NOTHING with the model but the string functions** (`Spec.buildO`:
    recursive descent without a stack, attribute lists by `Spec.attrs` / `Spec.normalise`, doctype by
    `Spec.doctypeRead`; no `intake`, no `AttrState.set`, no `dictSet`, no `stepD`).  For every token sequence that does
    not mention the wrapper name, what the API shows of the parsed document — doctype; names, attribute name/value
    pairs in listing order, self-closing flags, text blocks of every element; single root or wrapped — is `buildO`. -/
theorem feed_shows_spec (toks : List Token) (hw : NoWrapper toks) :
    shown (feedTokens toks) = some (Spec.buildO toks) := by
  rw [feed_eq_spec toks hw, ← obs_build]
  rfl

/-- the same on TEXT, with the stripping step (serialiser's image, no wrapper name, no conditional marker) -/
theorem parseText_shows_spec (ts : List Token) (h : ListOK ts) (hw : NoWrapper ts) (hm : ∀ t ∈ ts, TokNoIE t) :
    (parseText (renderToks ts)).bind shown = some (Spec.buildO ts) := by
  rw [parseText_renderToks ts h hm, feedText_renderToks ts h]
  exact feed_shows_spec ts hw

example : Spec.buildO [.decl "DOCTYPE html".toList, .start "P".toList [("CLASS".toList, some " b  a".toList),
      ("id".toList, some "1".toList), ("ID".toList, some "2".toList)], .data "x".toList, .start "br".toList [],
      .end_ "q".toList]
    = ((some "DOCTYPE html".toList,
        some (.elem "p".toList [("id".toList, some "2".toList), ("class".toList, some "b a".toList)] false
          [.text "x".toList, .elem "br".toList [] true []])), false) := by rfl

/-! #### C02c / C02d — the parser OBJECT across parses (`Lemmas/ParserObj.lean`)

  Review finding (C02-1): the former `entry_points_agree` assumed its own premise and the former
  `reuse_reflects_last_only` restated the definition of a history function that kept no state.  Both are replaced:
  the object now carries `_inTag` / `root` / `doctype`, the index maps of the indexed class, the tokenizer's own
  state and the encoding from call to call; `parseOn` follows `parseStr` (`reset`, decode, `feed`), `feedObj` follows
  `feed` (which does NOT reset first).  `PObj.Tokenizer τ` is ANY tokenizer with memory. -/

open PObj in
/-- **C02d (reuse).** For every history of inputs and EVERY starting object — whatever an earlier parse left in
    `_inTag` / `root` / `doctype` (elements left open, a parse that raised half-way), in the index maps, in the
    tokenizer (`rawdata`, raw-text mode) — the object and the outcome after the last `parseStr` are those of a
    freshly constructed object of the same class and encoding given the last input alone. -/
theorem reuse_reflects_last_only {τ ε β : Type} (T : Tokenizer τ) (decode : ε → β → Option Str)
    (o0 : ParserObj τ ε) (r0 : Option Raised) (h : List (Input β)) (last : Input β) :
    parseHist T decode (o0, r0) (h ++ [last]) = parseOn T decode (ParserObj.fresh T o0.enc o0.indexed) last :=
  reuse_object T decode o0 r0 h last

open PObj in
/-- …and that result is the two-pass `feed` of the token level (`feedTokens` with the tokenizer's own callbacks for
    the wrapped text) on what the tokenizer delivers FROM ITS FRESH STATE for the stripped last text: nothing of the
    history enters. -/
theorem reuse_reflects_last_only_doc {τ ε β : Type} (T : Tokenizer τ) (decode : ε → β → Option Str)
    (o0 : ParserObj τ ε) (r0 : Option Raised) (h : List (Input β)) (s : Str) :
    viewOf (parseHist T decode (o0, r0) (h ++ [.str s]))
      = viewOfFeed (feedTwo (T.feed T.fresh (stripIE s)).1 (T.feed T.fresh (wrapStr (stripIE s))).1) := by
  rw [reuse_object, parseOn_str_view]

open PObj in
/-- **C02d, indexed class.** After the last `parseStr` of any history (not raising) the index holds exactly the
    elements of the pass that built the last document, in document order; a plain parser's stays empty. -/
theorem reuse_index_last_only {τ ε β : Type} (T : Tokenizer τ) (decode : ε → β → Option Str)
    (o0 : ParserObj τ ε) (r0 : Option Raised) (h : List (Input β)) (s : Str)
    (hok : (parseHist T decode (o0, r0) (h ++ [.str s])).2 = none) :
    (parseHist T decode (o0, r0) (h ++ [.str s])).1.core.log
      = (if o0.indexed then
          (match run BState.init (T.feed T.fresh (stripIE s)).1 with
           | .multipleRoot => (T.feed T.fresh (wrapStr (stripIE s))).1
           | _ => (T.feed T.fresh (stripIE s)).1).flatMap newTags
         else []) := by
  rw [reuse_object] at hok ⊢
  exact parseOn_str_log T decode _ s hok

open PObj in
/-- **C02d end to end (strict lexer).** With the strict lexer as tokenizer: after ANY history on ANY starting
    object, `parseStr` of the rendering of a token list in the serialiser's image (not mentioning the wrapper, no
    conditional-comment marker) leaves the document of the recursive-descent specification of THAT list. -/
theorem reuse_eq_spec {ε β : Type} (decode : ε → β → Option Str) (o0 : ParserObj Unit ε) (r0 : Option Raised)
    (h : List (Input β)) (ts : List Token) (hok : ListOK ts) (hw : NoWrapper ts) (hm : ∀ t ∈ ts, TokNoIE t) :
    viewOf (parseHist lexTok decode (o0, r0) (h ++ [.str (renderToks ts)])) = .inl (Spec.build ts).1 := by
  rw [reuse_reflects_last_only_doc]
  have hs : stripIE (renderToks ts) = renderToks ts :=
    stripIE_of_no_marker _ (renderToks_no_marker_of ts hok hm)
  rw [hs]
  simp only [lexTok, lexStrict_renderToks ts hok, lexStrict_wrapStr_renderToks ts hok, Option.getD_some]
  rw [← feedTokens_eq_feedTwo, feed_eq_spec ts hw]
  rfl

open PObj in
/-- **C02d has content: it FAILS without the reset.** `parseStr` without its first line: the second document of a
    two-parse history lands inside the element the first one left open. -/
theorem reuse_fails_without_reset :
    ¬ ∀ (o : ParserObj Unit Unit) (i : Input Unit),
        rootName (parseOnNoReset lexTok noBytes o i)
          = rootName (parseOnNoReset lexTok noBytes (ParserObj.fresh lexTok o.enc o.indexed) i) := by
  intro hall
  have h1 := hall (parseOnNoReset lexTok noBytes (ParserObj.fresh lexTok () false) (.str "<a >".toList)).1
    (.str "<b ></b>".toList)
  have h2 := noReset_counter
  have h3 : rootName (parseOnNoReset lexTok noBytes (ParserObj.fresh lexTok () false) (.str "<b ></b>".toList))
      = some "b".toList := by decide
  have e : (parseOnNoReset lexTok noBytes (ParserObj.fresh lexTok () false) (.str "<a >".toList)).1.indexed = false := by
    decide
  simp only [hist2] at h2
  rw [h2.1, e, h3] at h1
  exact absurd h1 (by decide)

/-- the same for the two halves of the reset separately: the indexed class with the plain `_reset` (the library
    before `c1d2cb2`) keeps stale index entries; a `_reset` without `HTMLParser.reset` lets text the tokenizer kept
    from the first input join the second -/
theorem reuse_fails_with_half_resets :
    (PObj.logNames (PObj.parseOnPlainReset (β := Unit) PObj.lexTok
        (PObj.parseOnPlainReset (β := Unit) PObj.lexTok (PObj.ParserObj.fresh PObj.lexTok () true) (.str "<a ></a>".toList)).1
        (.str "<b ></b>".toList)) ≠
      PObj.logNames (PObj.parseOn PObj.lexTok PObj.noBytes (PObj.ParserObj.fresh PObj.lexTok () true) (.str "<b ></b>".toList))) ∧
    (PObj.rootName (PObj.parseOnNoTkReset (β := Unit) PObj.bufTok
        (PObj.parseOnNoTkReset (β := Unit) PObj.bufTok (PObj.ParserObj.fresh PObj.bufTok () false) (.str "<a ></a><".toList)).1
        (.str "b ></b>".toList)) ≠
      PObj.rootName (PObj.parseOn PObj.bufTok PObj.noBytes (PObj.ParserObj.fresh PObj.bufTok () false) (.str "b ></b>".toList))) := by
  decide

open PObj in
/-- **C02c (entry points: `parseStr(bytes)`).** Bytes are decoded with the object's encoding after the reset and
    then go the way of `parseStr(str)`: whenever the decoded text is `s`, object and outcome are those of
    `parseStr(s)`.  (That the decoding itself is the codec's — and `parseFile(path | file object)` and the
    constructor's `filename=`, which read the text through `codecs.open` / `.read()` before the same `feed` — is
    observed in the tie, not proved: `decode` is a parameter.) -/
theorem entry_points_agree {τ ε β : Type} (T : Tokenizer τ) (decode : ε → β → Option Str) (o : ParserObj τ ε)
    (b : β) (s : Str) (h : decode o.enc b = some s) :
    parseOn T decode o (.bytes b) = parseOn T decode o (.str s) :=
  parseOn_bytes T decode o b s h

open PObj in
/-- two byte strings with the same decoding (in the object's encoding) give the same object and outcome — also when
    neither decodes -/
theorem entry_points_same_text {τ ε β : Type} (T : Tokenizer τ) (decode : ε → β → Option Str) (o : ParserObj τ ε)
    (b₁ b₂ : β) (h : decode o.enc b₁ = decode o.enc b₂) :
    parseOn T decode o (.bytes b₁) = parseOn T decode o (.bytes b₂) := by
  simp only [parseOn, h]

open PObj in
/-- bytes that do not decode: the call raises after the reset — the earlier document is gone -/
theorem entry_point_undecodable {τ ε β : Type} (T : Tokenizer τ) (decode : ε → β → Option Str) (o : ParserObj τ ε)
    (b : β) (h : decode o.enc b = none) :
    parseOn T decode o (.bytes b) = (ParserObj.fresh T o.enc o.indexed, some .decode) ∧
    (parseOn T decode o (.bytes b)).1.core.doc = ⟨none, none⟩ := by
  rw [parseOn_bytes_undecodable T decode o b h]
  exact ⟨rfl, rfl⟩

/-! non-vacuity of `entry_points_agree` / `reuse_index_last_only`: a decoder that accepts one byte string; an indexed
    parser whose second document takes the wrapped second pass (its index then holds the wrapper and both roots, none
    of the first document's elements) -/
example : PObj.parseOn PObj.lexTok (fun (_ : Unit) (b : List UInt8) => if b = [60, 97, 32, 62] then some "<a >".toList else none)
      (PObj.ParserObj.fresh PObj.lexTok () false) (.bytes [60, 97, 32, 62])
    = PObj.parseOn PObj.lexTok (fun (_ : Unit) (b : List UInt8) => if b = [60, 97, 32, 62] then some "<a >".toList else none)
      (PObj.ParserObj.fresh PObj.lexTok () false) (.str "<a >".toList) :=
  entry_points_agree _ _ _ _ _ (by decide)

example : (PObj.parseHist PObj.lexTok PObj.noBytes (PObj.ParserObj.fresh PObj.lexTok () true, none)
      [.str "<i ><u >".toList, .str "<a ></a><b ></b>".toList]).2 = none ∧
    PObj.logNames (PObj.parseHist PObj.lexTok PObj.noBytes (PObj.ParserObj.fresh PObj.lexTok () true, none)
      [.str "<i ><u >".toList, .str "<a ></a><b ></b>".toList]) = [wrapperName, "a".toList, "b".toList] := by decide

/-! non-vacuity: a three-parse history — the first leaves `<a>` open, the second raises (text after the root in
    both passes), the third is a single-root document — on the strict lexer -/
example : PObj.rootName (PObj.parseHist PObj.lexTok PObj.noBytes (PObj.ParserObj.fresh PObj.lexTok () true, none)
    [.str "<a >".toList, .str "<a ></a></xxxblank>x".toList, .str "<b ></b>".toList]) = some "b".toList := by decide

example : (PObj.parseHist PObj.lexTok PObj.noBytes (PObj.ParserObj.fresh PObj.lexTok () true, none)
    [.str "<a >".toList, .str "<a ></a></xxxblank>x".toList]).2 = some (.parse .multipleRoot) := by decide

/-- **C02b.** `getRootNodes` of a wrapped document lists the top-level elements in order; `getHTML`
    serialises every top-level block (text included) in order. -/
theorem rootNodes_wrapped (dt : Option Str) (kids : List Node) :
    (Doc.rootNodes ⟨dt, some (.elem wrapperName AttrState.empty false kids)⟩) = kids.filter (fun k => !k.isText) := by
  simp [Doc.rootNodes]

theorem html_wrapped (kids : List Node) :
    docHTML none (.elem wrapperName AttrState.empty false kids) = htmlL kids := by
  simp [docHTML, Node.innerHTML]

/-! #### C02f — `addStartTag` at character level

  `DoctypeSplit s p rest` (Lemmas/WrapStr.lean) is the explicit reading of `DOCTYPE_MATCH.match`: `s = p ++ rest`,
  `p` = newlines, then blanks, then `<!doctype…>` (any letter case) up to its *first* `>`.
  `startsWithDoctype s` is the decidable reading of "there is such a split" (`startsWithDoctype_iff`). -/

/-- the wrapper's tags are the constants `INVISIBLE_ROOT_TAG_START` / `INVISIBLE_ROOT_TAG_END` -/
theorem wrapper_tags : wrapOpen = "<xxxblank>".toList ∧ wrapClose = "</xxxblank>".toList := by decide

/-- **C02f, first case.** The text starts as `DOCTYPE_MATCH` reads it: the wrapper start tag goes directly after
    the matched prefix. -/
theorem addStartTag_after_doctype (s p rest : Str) (h : DoctypeSplit s p rest) :
    wrapStr s = p ++ wrapOpen ++ rest ++ wrapClose := by
  rw [wrapStr_eq]
  unfold addStartTagStr
  rw [doctypePrefix_of_split s p rest h]

/-- **C02f, complementary case.** The text does not start with newlines, blanks, `<!doctype…>` (decidable
    reading): the wrapper start tag goes in front of everything. -/
theorem addStartTag_no_doctype (s : Str) (h : startsWithDoctype s = false) :
    wrapStr s = wrapOpen ++ s ++ wrapClose := by
  rw [wrapStr_eq]
  unfold addStartTagStr
  rw [doctypePrefix_none_of_not s h]

/-- the same with the explicit reading -/
theorem addStartTag_no_doctype' (s : Str) (h : ¬ DoctypeStart s) :
    wrapStr s = wrapOpen ++ s ++ wrapClose := by
  apply addStartTag_no_doctype
  cases hb : startsWithDoctype s with
  | false => rfl
  | true => exact absurd ((startsWithDoctype_iff s).mp hb) h

/-- first case of the dichotomy: the text splits (in exactly one way) and the wrapper follows the prefix -/
def AfterDoctype (s : Str) : Prop :=
  ∃ p rest, DoctypeSplit s p rest ∧ (∀ p' rest', DoctypeSplit s p' rest' → p' = p ∧ rest' = rest) ∧
    wrapStr s = p ++ wrapOpen ++ rest ++ wrapClose

/-- second case: no split, the wrapper is in front -/
def InFront (s : Str) : Prop := ¬ DoctypeStart s ∧ wrapStr s = wrapOpen ++ s ++ wrapClose

/-- **C02f, dichotomy.** Every text falls in exactly one of the two cases, with the explicit result in each;
    which one is decided by `startsWithDoctype`. -/
theorem addStartTag_cases (s : Str) :
    (AfterDoctype s ∨ InFront s) ∧ ¬ (AfterDoctype s ∧ InFront s) ∧
    (AfterDoctype s ↔ startsWithDoctype s = true) ∧ (InFront s ↔ startsWithDoctype s = false) := by
  have hA : startsWithDoctype s = true → AfterDoctype s := by
    intro hb
    obtain ⟨p, rest, hsp⟩ := (startsWithDoctype_iff s).mp hb
    exact ⟨p, rest, hsp, fun p' rest' h' => doctypeSplit_unique s p rest p' rest' hsp h',
      addStartTag_after_doctype s p rest hsp⟩
  have hA' : AfterDoctype s → startsWithDoctype s = true := by
    rintro ⟨p, rest, hsp, _, _⟩
    exact (startsWithDoctype_iff s).mpr ⟨p, rest, hsp⟩
  have hB : startsWithDoctype s = false → InFront s := by
    intro hb
    refine ⟨fun hd => ?_, addStartTag_no_doctype s hb⟩
    rw [(startsWithDoctype_iff s).mpr hd] at hb
    exact absurd hb (by simp)
  have hB' : InFront s → startsWithDoctype s = false := by
    rintro ⟨hn, _⟩
    cases hb : startsWithDoctype s with
    | false => rfl
    | true => exact absurd ((startsWithDoctype_iff s).mp hb) hn
  refine ⟨?_, ?_, ⟨hA', hA⟩, ⟨hB', hB⟩⟩
  · cases hb : startsWithDoctype s with
    | true => exact Or.inl (hA hb)
    | false => exact Or.inr (hB hb)
  · rintro ⟨ha, hb⟩
    have h1 := hA' ha
    rw [hB' hb] at h1
    exact absurd h1 (by simp)

/-- the earlier, partial form of the first case (kept under its name; now a corollary) -/
theorem addStartTag_after_doctype_partial (nl bl d rest : Str)
    (hnl : ∀ x ∈ nl, isNl x = true) (hbl : ∀ x ∈ bl, isBl x = true)
    (hd : lower (d.take 7) = "doctype".toList) (hgt : '>' ∉ d) :
    wrapStr (nl ++ bl ++ ('<' :: '!' :: d ++ '>' :: rest))
      = nl ++ bl ++ ('<' :: '!' :: d ++ ['>']) ++ ('<' :: wrapperName ++ ['>']) ++ rest
          ++ ('<' :: '/' :: wrapperName ++ ['>']) := by
  have h : DoctypeSplit (nl ++ bl ++ ('<' :: '!' :: d ++ '>' :: rest)) (nl ++ bl ++ ('<' :: '!' :: d ++ ['>'])) rest :=
    ⟨nl, bl, d, hnl, hbl, hd, hgt, rfl, by simp⟩
  exact addStartTag_after_doctype _ _ _ h

/-! non-vacuity: both cases occur; white space in the wrong order, a declaration without `>`, a comment and the
    empty text are "no doctype" -/
example : DoctypeSplit "\n  <!DOCTYPE html><a></a>x".toList "\n  <!DOCTYPE html>".toList "<a></a>x".toList :=
  ⟨"\n".toList, "  ".toList, "DOCTYPE html".toList, by decide, by decide, by decide, by decide, rfl, rfl⟩
example : startsWithDoctype "\n  <!DOCTYPE html><a></a>x".toList = true := by decide
example : startsWithDoctype " \n<!DOCTYPE html><a></a>".toList = false := by decide
example : startsWithDoctype "<!DOCTYPE html".toList = false := by decide
example : startsWithDoctype "<!-- c --><a></a><b></b>".toList = false := by decide
example : startsWithDoctype [] = false := by decide
example : InFront "<a></a><b></b>".toList :=
  ((addStartTag_cases _).2.2.2).mpr (by decide)
example : AfterDoctype "<!doctype html><a></a><b></b>".toList :=
  ((addStartTag_cases _).2.2.1).mpr (by decide)
example : wrapStr "\n  <!DOCTYPE html><a></a>x".toList = "\n  <!DOCTYPE html><xxxblank><a></a>x</xxxblank>".toList := by decide
example : wrapStr " \n<!DOCTYPE html><a></a>".toList = "<xxxblank> \n<!DOCTYPE html><a></a></xxxblank>".toList := by decide

/-! #### C02f — composition with the strict lexer

  `renderToks` / `ListOK` (Lemmas/LexRoundTrip.lean): the serialisers' output grammar and "every token well formed
  and followed by something that keeps it a token of its own" — the side condition of `lexStrict_renderToks`.
  `ListOK` contains the two conditions that matter for the wrapper: a doctype declaration has no `>` inside
  (`TokOK (.decl d)`), and a data run is not followed by another data run (`Follows`).  `ListOK` is the inductive
  predicate of C01 and includes raw-text elements (`script` / `style`: start tag, content as at most one data token
  with `RawOK`, end tag); every theorem below is for all of it (`sampleRawDoc`). -/

/-- **C02f (`DOCTYPE_MATCH`: characters = tokens).** On the rendering of a token list in the serialiser's image,
    `DOCTYPE_MATCH.match` finds exactly the rendering of what `leadDoctype` finds on the tokens: a leading
    declaration, or a leading data run of the shape `[\n]*[ \t]*` and then the declaration; nothing otherwise. -/
theorem doctypeMatch_text_eq_tokens (ts : List Token) (h : ListOK ts) :
    doctypePrefix (renderToks ts) = (leadDoctype ts).map (fun pr => (renderToks pr.1, renderToks pr.2)) :=
  doctypePrefix_renderToks ts h

/-- **C02f (composition).** The text of the second pass, `addStartTag(text, '<xxxblank>') + '</xxxblank>'`, of the
    rendering of a token list in the serialiser's image lexes to `wrapToks` of that list: the character-level
    placement of the wrapper is the token-level one `feed_eq_spec` works with. -/
theorem wrapText_lex_eq_wrapToks (ts : List Token) (h : ListOK ts) :
    lexStrict (wrapStr (renderToks ts)) = some (wrapToks ts) :=
  lexStrict_wrapStr_renderToks ts h

/-- leading doctype token: the wrapper opens directly after it -/
theorem wrapText_lex_leading_doctype (d : Str) (r : List Token) (h : ListOK (.decl d :: r)) :
    lexStrict (wrapStr (renderToks (.decl d :: r)))
      = some (.decl d :: .start wrapperName [] :: r ++ [.end_ wrapperName]) := by
  rw [wrapText_lex_eq_wrapToks _ h]; rfl

/-- white space of the shape `[\n]*[ \t]*` in front of the doctype: a data token of its own that stays *outside*
    the wrapper (the builder drops it: `pre_skip`; the specification does not count it as content: `topTokens`) -/
theorem wrapText_lex_ws_doctype (ws d : Str) (r : List Token) (hws : wsNL ws = true)
    (h : ListOK (.data ws :: .decl d :: r)) :
    lexStrict (wrapStr (renderToks (.data ws :: .decl d :: r)))
      = some (.data ws :: .decl d :: .start wrapperName [] :: r ++ [.end_ wrapperName]) := by
  rw [wrapText_lex_eq_wrapToks _ h]
  simp [wrapToks, leadDoctype, hws]

/-- anything else first (including white space of another shape in front of a doctype): the wrapper is in front
    of everything, the white space and the declaration are inside it -/
theorem wrapText_lex_other (ts : List Token) (h : ListOK ts) (hl : leadDoctype ts = none) :
    lexStrict (wrapStr (renderToks ts)) = some (.start wrapperName [] :: ts ++ [.end_ wrapperName]) := by
  rw [wrapText_lex_eq_wrapToks _ h]
  simp [wrapToks, hl]

/-- **C02a/f end to end, on text.** For every token list in the serialiser's image that does not mention the
    reserved wrapper name, parsing the TEXT `renderToks ts` with the two-pass `feed` (lex; build; on
    MultipleRootNodeException insert the wrapper *into the text*, lex and build again) gives the document of the
    recursive-descent specification. -/
theorem feedText_eq_spec (ts : List Token) (h : ListOK ts) (hw : NoWrapper ts) :
    feedText (renderToks ts) = some (.doc (Spec.build ts).1 (Spec.build ts).2) := by
  rw [feedText_renderToks ts h, feed_eq_spec ts hw]

/-! non-vacuity: a multi-root document with white space and a doctype in front is in the serialiser's image,
    does not mention the wrapper, and takes the second pass -/
private theorem tagOK_a : TagNameOK "a".toList := ⟨⟨'a', [], rfl, by decide⟩, by decide, by decide⟩
private theorem tagOK_br : TagNameOK "br".toList := ⟨⟨'b', ['r'], rfl, by decide⟩, by decide, by decide⟩

def sampleDoc : List Token :=
  [.data "\n ".toList, .decl "DOCTYPE html".toList, .start "a".toList [], .end_ "a".toList, .data "x".toList,
   .start "br".toList []]

theorem sampleDoc_ok : ListOK sampleDoc := by
  apply listOK_of_noAdjData
  · intro t ht
    simp [sampleDoc] at ht
    rcases ht with rfl | rfl | rfl | rfl | rfl | rfl
    · exact Or.inr (Or.inr ⟨by decide, by decide⟩)
    · exact ⟨by decide, by decide⟩
    · exact ⟨tagOK_a, by decide, fun x hx => by simp at hx⟩
    · exact tagOK_a
    · exact Or.inr (Or.inr ⟨by decide, by decide⟩)
    · exact ⟨tagOK_br, by decide, fun x hx => by simp at hx⟩
  · intro t ht
    simp [sampleDoc] at ht
    rcases ht with rfl | rfl | rfl | rfl | rfl | rfl <;> first | trivial | exact ⟨by decide, by decide⟩
  · simp [sampleDoc, NoAdjData, isData]

example : NoWrapper sampleDoc := by
  intro t ht
  simp [sampleDoc] at ht
  rcases ht with rfl | rfl | rfl | rfl | rfl | rfl <;> decide

example : renderToks sampleDoc = "\n <!DOCTYPE html><a ></a>x<br >".toList := by decide
example : wrapStr (renderToks sampleDoc) = "\n <!DOCTYPE html><xxxblank><a ></a>x<br ></xxxblank>".toList := by decide
example : (Spec.build sampleDoc).2 = true := by decide
example : feedText (renderToks sampleDoc) = some (.doc (Spec.build sampleDoc).1 true) :=
  feedText_eq_spec sampleDoc sampleDoc_ok (by
    intro t ht
    simp [sampleDoc] at ht
    rcases ht with rfl | rfl | rfl | rfl | rfl | rfl <;> decide)

/-! non-vacuity with a raw-text element: `ListOK` contains `script` / `style` blocks whose content is ONE data token
    with `<`, `&&`, another element's end tag (`ListOK.raw`); the C02f theorems hold for them as stated — the
    wrapper is placed after the doctype, the script's content stays one token, the second pass is taken -/
def sampleRawDoc : List Token :=
  [.data "\n ".toList, .decl "DOCTYPE html".toList, .start "script".toList [],
   .data "if(a<b&&c){s='</div>'}".toList, .end_ "script".toList, .start "br".toList []]

theorem sampleRawDoc_ok : ListOK sampleRawDoc := by
  refine .cons (Or.inr (Or.inr ⟨by decide, by decide⟩)) ?_
    (.cons ⟨by decide, by decide⟩ trivial
      (.raw (by decide) (by simp) (by decide) (by decide)
        (.cons ⟨tagOK_br, by decide, fun x hx => by simp at hx⟩ trivial .nil)))
  simp only [Follows]
  rw [if_neg (by decide), if_neg (by decide)]
  exact Or.inr ⟨_, Or.inl rfl⟩

example : ∃ t ∈ sampleRawDoc, ¬ TokOK t := ⟨.data "if(a<b&&c){s='</div>'}".toList, by simp [sampleRawDoc], by decide⟩
example : renderToks sampleRawDoc = "\n <!DOCTYPE html><script >if(a<b&&c){s='</div>'}</script><br >".toList := by decide
example : doctypePrefix (renderToks sampleRawDoc)
    = some ("\n <!DOCTYPE html>".toList, "<script >if(a<b&&c){s='</div>'}</script><br >".toList) := by
  rw [doctypeMatch_text_eq_tokens _ sampleRawDoc_ok]; decide
example : lexStrict (wrapStr (renderToks sampleRawDoc))
    = some [.data "\n ".toList, .decl "DOCTYPE html".toList, .start wrapperName [], .start "script".toList [],
        .data "if(a<b&&c){s='</div>'}".toList, .end_ "script".toList, .start "br".toList [], .end_ wrapperName] := by
  rw [wrapText_lex_eq_wrapToks _ sampleRawDoc_ok]; decide
example : (Spec.build sampleRawDoc).2 = true := by decide
example : feedText (renderToks sampleRawDoc) = some (.doc (Spec.build sampleRawDoc).1 true) :=
  feedText_eq_spec sampleRawDoc sampleRawDoc_ok (by
    intro t ht
    simp [sampleRawDoc] at ht
    rcases ht with rfl | rfl | rfl | rfl | rfl | rfl <;> decide)
/-- a raw-text element first: no doctype on either side, the wrapper is in front -/
example : lexStrict (wrapStr (renderToks [.start "style".toList [], .end_ "style".toList, .data "x".toList]))
    = some [.start wrapperName [], .start "style".toList [], .end_ "style".toList, .data "x".toList, .end_ wrapperName] :=
  wrapText_lex_other _ (.rawEmpty (by decide) (by simp)
    (.cons (Or.inr (Or.inr ⟨by decide, by decide⟩)) (Or.inl rfl) .nil)) rfl

/-! the side conditions are needed.
    (1) A `>` inside the declaration (`TokOK (.decl d)` fails): the tokenizer and `DOCTYPE_MATCH` both end the
        declaration at the first `>`, the wrapper lands inside what the token list calls the declaration.
    (2) Two adjacent data runs (`Follows` fails): the text starts `\n <!doctype…`, so the wrapper goes after the
        declaration, while `leadDoctype` sees two data tokens first and puts it in front.
    (3) The wrapper's name in the text (`NoWrapper` fails): the stray `</xxxblank>` closes the wrapper early and the
        second pass raises, where the specification builds a document. -/
example : lexStrict (wrapStr (renderToks [.decl "doctype a>b".toList, .start "a".toList [], .end_ "a".toList]))
    ≠ some (wrapToks [.decl "doctype a>b".toList, .start "a".toList [], .end_ "a".toList]) := by decide

example : lexStrict (wrapStr (renderToks [.data "\n".toList, .data " ".toList, .decl "doctype html".toList,
      .start "a".toList [], .end_ "a".toList]))
    ≠ some (wrapToks [.data "\n".toList, .data " ".toList, .decl "doctype html".toList,
      .start "a".toList [], .end_ "a".toList]) := by decide

def strayWrapperEnd : List Token :=
  [.start "a".toList [], .end_ "a".toList, .end_ wrapperName, .start "a".toList [], .end_ "a".toList]

theorem strayWrapperEnd_ok : ListOK strayWrapperEnd := by
  apply listOK_of_noAdjData
  · intro t ht
    simp [strayWrapperEnd] at ht
    rcases ht with rfl | rfl | rfl | rfl | rfl
    · exact ⟨tagOK_a, by decide, fun x hx => by simp at hx⟩
    · exact tagOK_a
    · exact wrapper_tagNameOK
    · exact ⟨tagOK_a, by decide, fun x hx => by simp at hx⟩
    · exact tagOK_a
  · intro t ht
    simp [strayWrapperEnd] at ht
    rcases ht with rfl | rfl | rfl | rfl | rfl <;> trivial
  · simp [strayWrapperEnd, NoAdjData, isData]

theorem strayWrapperEnd_raises : feedTokens strayWrapperEnd = .raised .multipleRoot := by rfl

/-- without `NoWrapper` the end-to-end statement fails: the text-level `feed` raises -/
example : feedText (renderToks strayWrapperEnd)
    ≠ some (.doc (Spec.build strayWrapperEnd).1 (Spec.build strayWrapperEnd).2) := by
  rw [feedText_renderToks _ strayWrapperEnd_ok, strayWrapperEnd_raises]
  intro h
  cases h

/-! #### C02g — `stripIEConditionals`: what `feed` does to the text before the tokenizer sees it

  Model: AHP/Model/StripIE.lean (`stripIE` = `IE_CONDITIONAL_PATTERN.findall`, `replace` of every match in order,
  the `END_HTML` / `START_HTML` test with `addStartTag(contents, '<html>')`); `parseText = feedText ∘ stripIE`
  (Lemmas/StripIERender.lean) is `Parser.feed`, i.e. what `parseStr` / `parseFile` run after `reset()`.
  `hasIEMarker s` (Lemmas/StripIE.lean) decides whether `<!--` ws* `[` ws* `if` (ws = blank, tab, CR, LF) — the
  part of the pattern in front of `.*-->` — stands somewhere in `s`; `IsIEOpener op` is the explicit reading of
  such an opener. -/

/-- **C02g (identity).** A text in which `<!--` ws* `[` ws* `if` does not occur is returned unchanged. -/
theorem stripIE_id (s : Str) (h : hasIEMarker s = false) : stripIE s = s :=
  stripIE_of_no_marker s h

/-- **C02g (two readings of the marker).** The decidable `hasIEMarker` is the explicit reading: an opener
    `<!--` ws* `[` ws* `if` stands somewhere in the text. -/
theorem hasIEMarker_reading (s : Str) : hasIEMarker s = true ↔ ∃ a op b, IsIEOpener op ∧ s = a ++ op ++ b :=
  hasIEMarker_iff s

theorem hasIEMarker_of_opener (a op b : Str) (hop : IsIEOpener op) : hasIEMarker (a ++ op ++ b) = true :=
  (hasIEMarker_iff _).mpr ⟨a, op, b, hop, rfl⟩

/-- so a text without the marker contains no explicit opener anywhere -/
theorem no_opener_of_no_marker (s : Str) (h : hasIEMarker s = false) :
    ¬ ∃ a op b, IsIEOpener op ∧ s = a ++ op ++ b := by
  intro hex
  rw [(hasIEMarker_iff s).mpr hex] at h
  exact absurd h (by simp)

/-- **C02g (the model's greedy matching is the regular expression's).** The deterministic parts of the three
    patterns (`IE_CONDITIONAL_PATTERN` up to `if`, the middles of `END_HTML` / `START_HTML`) are item sequences
    in which every star is followed by a character class disjoint from its own.  For such a sequence the greedy
    `matchItems` returns `(m, r)` exactly when `m` is matched in the declarative sense (`Matches`: any way of
    splitting the text over the items) and the text is `m ++ r` — and a text has at most one such prefix, so
    backtracking has nothing else to find. -/
theorem patterns_greedy_is_declarative :
    (∀ ps, ps = ieOpenerPat ∨ ps = endHtmlPat ∨ ps = startHtmlPat →
      (∀ z m r, matchItems ps z = some (m, r) ↔ Matches ps m ∧ z = m ++ r) ∧
      (∀ m₁ r₁ m₂ r₂, Matches ps m₁ → Matches ps m₂ → m₁ ++ r₁ = m₂ ++ r₂ → m₁ = m₂ ∧ r₁ = r₂)) := by
  intro ps h
  have hd : Det ps := by
    rcases h with rfl | rfl | rfl
    · exact det_ieOpenerPat
    · exact det_endHtmlPat
    · exact det_startHtmlPat
  exact ⟨fun z m r => matchItems_iff ps hd z m r, fun m₁ r₁ m₂ r₂ h₁ h₂ he => matches_unique ps hd m₁ r₁ m₂ r₂ h₁ h₂ he⟩

/-- **C02g (one match, explicitly).** `IE_CONDITIONAL_PATTERN.match(z)` gives `m` iff `m` is an opener, a body
    without line break, and `-->`, and the rest of that line has no further `-->` (greedy `.*`, `.` ≠ `\n`). -/
theorem ieMatch_reading (z m : Str) : ieMatchAt z = some m ↔
    ∃ op body rest, IsIEOpener op ∧ '\n' ∉ body ∧ m = op ++ body ++ arrow ∧ z = m ++ rest ∧
      hasArrow (rest.takeWhile (· ≠ '\n')) = false :=
  ieMatchAt_iff z m

/-- **C02g (serialiser output, tight form).** The rendering of a token list in the serialiser's image contains
    the marker exactly when the rendering of one of its tokens does: no opener reaches across a token boundary. -/
theorem renderToks_marker_iff (ts : List Token) (h : ListOK ts) :
    hasIEMarker (renderToks ts) = ts.any (fun t => hasIEMarker (renderTok t)) :=
  hasIEMarker_renderToks ts h

/-- one well-formed token: its rendering contains the marker iff the token-level test `tokIE` says so — a comment
    whose body starts with ws* `[` ws* `if`; an attribute value, declaration body or processing instruction
    that contains the marker; never a tag name, an end tag, text outside raw-text elements (`text_no_marker`) or
    a reference -/
theorem token_marker_iff (t : Token) (h : TokOK t) : hasIEMarker (renderTok t) = tokIE t :=
  tokIE_render t h

/-- text outside raw-text elements (a `<` / `&` singleton, or a run without `<` and `&`) never tests positive:
    the `.data` clause of `tokIE` / `TokNoIE` speaks about the content of `script` / `style` only -/
theorem text_no_marker (s : Str) (h : TokOK (.data s)) : tokIE (.data s) = false ∧ TokNoIE (.data s) :=
  ⟨tokIE_data_of_tokOK s h, tokNoIE_data_of_tokOK s h⟩

/-- the same for every token of a list in the serialiser's image (`ListOK.tokOK`: well formed, or the start tag
    / the content of a raw-text element).  The content of `script` / `style` is rendered as it is, and
    `stripIEConditionals` works on the text without knowing about elements: the content tests positive iff it
    contains the marker. -/
theorem token_marker_iff_any (t : Token) (h : TokOK t ∨ RawTok t) : hasIEMarker (renderTok t) = tokIE t :=
  tokIE_render_any t h

/-- **C02g (serialiser output, on tokens).** The rendering of a token list in the serialiser's image contains
    the marker iff one of its tokens tests positive (raw-text elements included; for their content token the
    test is "the raw text contains the marker"). -/
theorem renderToks_marker_iff_tokens (ts : List Token) (h : ListOK ts) :
    hasIEMarker (renderToks ts) = ts.any tokIE :=
  hasIEMarker_renderToks_tok ts h

/-- `TokNoIE` is the negative test spelled out -/
theorem tokNoIE_reading (t : Token) : TokNoIE t ↔ tokIE t = false := tokNoIE_iff t

/-- **C02g (serialiser output).** The condition on tokens (`TokNoIE`): no comment's body starts with
    ws* `[` ws* `if`; no attribute value, declaration body, processing instruction or content of a raw-text
    element (`script` / `style`) contains the marker (tags, end tags, text outside raw-text elements and
    references never do).  Then the rendering has no marker.

    Without the clause on data tokens — `TokNoIE (.data _) = True`, as it was while `ListOK` had no raw-text
    elements — the statement is FALSE on the wider `ListOK`: `rawCondDoc` below. -/
theorem renderToks_no_marker (ts : List Token) (h : ListOK ts) (hm : ∀ t ∈ ts, TokNoIE t) :
    hasIEMarker (renderToks ts) = false :=
  renderToks_no_marker_of ts h hm

/-- a comment token is the only place where the condition speaks about the *start* of a body: its rendering
    has the marker exactly when the body starts with ws* `[` ws* `if` -/
theorem comment_marker_iff (c : Str) (h : CommentOK c) :
    hasIEMarker (renderTok (.comment c)) = condStart c :=
  hasIEMarker_comment c h

/-- on such renderings `feed` with the stripping step is `feed` without it -/
theorem parseText_eq_feedText (ts : List Token) (h : ListOK ts) (hm : ∀ t ∈ ts, TokNoIE t) :
    parseText (renderToks ts) = feedText (renderToks ts) :=
  parseText_renderToks ts h hm

/-- **C02a/f/g end to end, on text, with the stripping step.** For every token list in the serialiser's image
    that does not mention the wrapper name and meets the token-level condition, `feed` (strip IE conditionals;
    lex; build; on MultipleRootNodeException insert the wrapper into the text, lex and build again) gives the
    document of the recursive-descent specification. -/
theorem parseText_eq_spec (ts : List Token) (h : ListOK ts) (hw : NoWrapper ts) (hm : ∀ t ∈ ts, TokNoIE t) :
    parseText (renderToks ts) = some (.doc (Spec.build ts).1 (Spec.build ts).2) := by
  rw [parseText_eq_feedText ts h hm, feedText_eq_spec ts h hw]

/-- **C02g (one conditional on one line).** `pre ++ cond ++ post` with `cond` = an opener, a body that stays on
    the line, and `-->`; no marker in `pre` or in `post`; no further `-->` on the rest of `cond`'s line (so the
    greedy `.*` ends at `cond`'s own arrow).  `findall` finds exactly `cond`, `replace` removes exactly that
    occurrence, and the result is `pre ++ post` up to the html-tag rule. -/
theorem stripIE_removes (pre op body post : Str) (hop : IsIEOpener op) (hbody : '\n' ∉ body)
    (hpre : hasIEMarker pre = false) (hpost : hasIEMarker post = false)
    (hline : hasArrow (post.takeWhile (· ≠ '\n')) = false) :
    stripIE (pre ++ (op ++ body ++ arrow) ++ post) = addHtmlIfMissing (pre ++ post) := by
  unfold stripIE
  rw [ieFindAll_single pre op body post hop hbody hpre hpost hline]
  simp only [List.isEmpty_cons, Bool.false_eq_true, if_false, List.foldl_cons, List.foldl_nil]
  rw [removeAll_single pre op body post hop hpre hpost]

/-- **C02g (`findall`, explicitly).** The matches are found from left to right and do not overlap: nothing found
    means no match starts anywhere; a first match `m` splits the text into `pre ++ m ++ post` with no match
    starting inside `pre`, the pattern giving exactly `m` there, and the search continuing in `post`. -/
theorem findall_reading (s : Str) :
    (ieFindAll s = [] → NoMatchIn s) ∧
    (∀ m ms, ieFindAll s = m :: ms → ∃ pre post, s = pre ++ m ++ post ∧ NoMatchBefore pre (m ++ post) ∧
      ieMatchAt (m ++ post) = some m ∧ ms = ieFindAll post) :=
  ⟨noMatchIn_of_findAll_nil s, fun m ms h => findAll_cons_split s m ms h⟩

/-- **C02g (exactly one match, in general).** Whenever `findall` finds exactly one match — whatever else the
    text contains: openers without `-->` on their line, a second copy of the match's text overlapping it — the
    result is the text with that one occurrence cut out, up to the html-tag rule.  `stripIE_removes` is the
    instance with explicit hypotheses on `pre`, the conditional and `post`. -/
theorem stripIE_single_match (s m : Str) (h : ieFindAll s = [m]) :
    ∃ pre post, s = pre ++ m ++ post ∧ NoMatchBefore pre (m ++ post) ∧ ieMatchAt (m ++ post) = some m ∧
      NoMatchIn post ∧ stripIE s = addHtmlIfMissing (pre ++ post) :=
  stripIE_of_single_match s m h

/-- **C02g (several conditionals).** The text `g₀ c₁ g₁ … cₖ gₖ` (`segText` / `joinGaps`, Lemmas/StripIEMulti.lean):
    at every `cᵢ` the pattern matches exactly `cᵢ` (`MatchOK`; by `ieMatch_reading`: opener, body on one line, `-->`,
    no further `-->` on the rest of the line); the gaps joined contain no marker (cutting a conditional out makes
    no new one); no marker inside a conditional behind its own opener; no conditional is a proper prefix of
    another (`Incomp`; equal ones are fine — the first `replace` takes them all).  Then `findall` finds
    `c₁ … cₖ`, the removals do not disturb one another, and the result is the gaps joined, up to the html-tag rule. -/
theorem stripIE_several (g0 : Str) (L : Segs) (hne : L ≠ []) (hok : MatchOK L)
    (hgaps : hasIEMarker (g0 ++ joinGaps L) = false)
    (hin : ∀ cg ∈ L, hasIEMarker (cg.1.drop 1) = false)
    (hinc : ∀ a ∈ L, ∀ b ∈ L, Incomp a.1 b.1) :
    stripIE (g0 ++ segText L) = addHtmlIfMissing (g0 ++ joinGaps L) :=
  stripIE_segs g0 L hne hok hgaps hin hinc

/-- **C02g (a conditional comment token is dropped).** A token list in the serialiser's image with one comment
    token whose body starts with ws* `[` ws* `if` (one line; no further `-->` on the rest of that line in what
    follows; the marker nowhere else; the html-tag rule not firing): `feed` builds the document of the list
    WITHOUT that token — where `feed` without the stripping step keeps the comment as a text block. -/
theorem parseText_drops_conditional (ts1 ts2 : List Token) (c : Str) (hc : condStart c = true) (hnl : '\n' ∉ c)
    (h1 : hasIEMarker (renderToks ts1) = false) (h2 : hasIEMarker (renderToks ts2) = false)
    (hline : hasArrow ((renderToks ts2).takeWhile (· ≠ '\n')) = false)
    (hhtml : occurs endHtmlPat (renderToks (ts1 ++ ts2)) = false ∨ occurs startHtmlPat (renderToks (ts1 ++ ts2)) = true)
    (hok : ListOK (ts1 ++ ts2)) (hw : NoWrapper (ts1 ++ ts2)) :
    parseText (renderToks (ts1 ++ .comment c :: ts2))
      = some (.doc (Spec.build (ts1 ++ ts2)).1 (Spec.build (ts1 ++ ts2)).2) := by
  unfold parseText
  rw [stripIE_comment_token ts1 ts2 c hc hnl h1 h2 hline]
  have : addHtmlIfMissing (renderToks (ts1 ++ ts2)) = renderToks (ts1 ++ ts2) := by
    unfold addHtmlIfMissing
    rcases hhtml with h | h <;> simp [h]
  rw [this, feedText_eq_spec _ hok hw]

/-- **C02g / C03 (size).** Stripping only removes text, except for the six characters of `<html>`. -/
theorem stripIE_length_le (s : Str) : (stripIE s).length ≤ s.length + 6 := stripIE_length s

/-- the html-tag rule spelled out: an `</html>` end tag (any case, white space allowed inside) without an
    `<html>` start tag gets `<html>` inserted by `addStartTag` — directly after a leading doctype as
    `DOCTYPE_MATCH` reads it, else in front; otherwise nothing is added -/
theorem addHtmlIfMissing_cases (s : Str) :
    (occurs endHtmlPat s = true ∧ occurs startHtmlPat s = false ∧
      ((∃ p rest, DoctypeSplit s p rest ∧ addHtmlIfMissing s = p ++ htmlStartTag ++ rest) ∨
       (startsWithDoctype s = false ∧ addHtmlIfMissing s = htmlStartTag ++ s))) ∨
    ((occurs endHtmlPat s = false ∨ occurs startHtmlPat s = true) ∧ addHtmlIfMissing s = s) := by
  unfold addHtmlIfMissing
  cases he : occurs endHtmlPat s with
  | false => right; exact ⟨Or.inl rfl, by simp⟩
  | true =>
    cases hs : occurs startHtmlPat s with
    | true => right; exact ⟨Or.inr rfl, by simp⟩
    | false =>
      left
      refine ⟨rfl, rfl, ?_⟩
      simp only [Bool.not_false, Bool.and_self, if_true]
      cases hd : startsWithDoctype s with
      | true =>
        left
        obtain ⟨p, rest, hsp⟩ := (startsWithDoctype_iff s).mp hd
        refine ⟨p, rest, hsp, ?_⟩
        unfold addStartTagStr
        rw [doctypePrefix_of_split s p rest hsp]
      | false =>
        right
        refine ⟨rfl, ?_⟩
        unfold addStartTagStr
        rw [doctypePrefix_none_of_not s hd]

/-- the usual case: the document keeps an `<html>` start tag (or has no `</html>`): the conditional is cut out -/
theorem stripIE_removes_plain (pre op body post : Str) (hop : IsIEOpener op) (hbody : '\n' ∉ body)
    (hpre : hasIEMarker pre = false) (hpost : hasIEMarker post = false)
    (hline : hasArrow (post.takeWhile (· ≠ '\n')) = false)
    (hhtml : occurs endHtmlPat (pre ++ post) = false ∨ occurs startHtmlPat (pre ++ post) = true) :
    stripIE (pre ++ (op ++ body ++ arrow) ++ post) = pre ++ post := by
  rw [stripIE_removes pre op body post hop hbody hpre hpost hline]
  unfold addHtmlIfMissing
  rcases hhtml with h | h <;> simp [h]

/-! non-vacuity and the conditions at work -/
example : IsIEOpener "<!--[if".toList := ⟨[], [], by simp, by simp, rfl⟩
example : IsIEOpener "<!-- \n[\tif".toList :=
  ⟨" \n".toList, "\t".toList, by decide, by decide, rfl⟩

example : hasIEMarker "<p>x</p><!-- [ if IE]>".toList = true := by decide
example : hasIEMarker "<p>x</p><!--[IF IE]><!-- if --><!-[if]>".toList = false := by decide

/-- the classic use: the conditional carries the only `<html>` start tag; it is cut out and `<html>` is put
    back after the doctype -/
example : stripIE "<!DOCTYPE html><!--[if lt IE 9]><html class=\"ie\"><![endif]-->\n<p>x</p></html>".toList
    = "<!DOCTYPE html><html>\n<p>x</p></html>".toList := by decide

example : stripIE "<!DOCTYPE html><!--[if lt IE 9]><html class=\"ie\"><![endif]-->\n<p>x</p></html>".toList
    = addHtmlIfMissing ("<!DOCTYPE html>".toList ++ "\n<p>x</p></html>".toList) :=
  stripIE_removes "<!DOCTYPE html>".toList "<!--[if".toList " lt IE 9]><html class=\"ie\"><![endif]".toList
    "\n<p>x</p></html>".toList ⟨[], [], by simp, by simp, rfl⟩ (by decide) (by decide) (by decide) (by decide)

/-- one match although an opener without `-->` on its line stands in front and a near miss behind
    (`stripIE_removes` does not apply: `hasIEMarker pre = true`; `stripIE_single_match` does) -/
example : ieFindAll "<!--[if IE]>\n<p>a</p><!--[if IE 6]>b<![endif]-->c\n<!--[IF]-->".toList
    = ["<!--[if IE 6]>b<![endif]-->".toList] := by decide
example : stripIE "<!--[if IE]>\n<p>a</p><!--[if IE 6]>b<![endif]-->c\n<!--[IF]-->".toList
    = "<!--[if IE]>\n<p>a</p>c\n<!--[IF]-->".toList := by decide

/-- the classic head of a document: three conditionals (one of them downlevel-revealed) carrying the `<html>` start
    tags, one per line; all three go, `<html>` is put back after the doctype -/
def classicSegs : Segs :=
  [("<!--[if lt IE 7]><html class=\"ie6\"><![endif]-->".toList, "\n".toList),
   ("<!--[if IE 7]><html class=\"ie7\"><![endif]-->".toList, "\n".toList),
   ("<!--[if gt IE 8]><!--><html><!--<![endif]-->".toList, "\n<head></head><body><p>x</p></body></html>".toList)]

example : stripIE ("<!DOCTYPE html>\n".toList ++ segText classicSegs)
    = addHtmlIfMissing ("<!DOCTYPE html>\n".toList ++ joinGaps classicSegs) :=
  stripIE_several _ classicSegs (by decide) ⟨by decide, by decide, by decide, trivial⟩ (by decide) (by decide) (by decide)

example : addHtmlIfMissing ("<!DOCTYPE html>\n".toList ++ joinGaps classicSegs)
    = "<!DOCTYPE html><html>\n\n\n\n<head></head><body><p>x</p></body></html>".toList := by decide

/-- `Incomp` is needed: the first conditional is a proper prefix of the second, its removal damages the second,
    which is then not found any more -/
example : stripIE "<!--[if a]-->\n<!--[if a]--> x -->\n".toList = "\n x -->\n".toList := by decide
/-- "no marker in the gaps joined" is needed: cutting the conditional out of `<!-` … `-[if y]` makes a new one -/
example : stripIE "<!-<!--[if x]-->-\n[if y]-->".toList = "<!--\n[if y]-->".toList := by decide

/-- `.*` is greedy: a later `-->` on the same line belongs to the match (`hline` is needed) -/
example : stripIE "a<!--[if IE]>b<![endif]--> c <!-- d --> e\nf".toList = "a e\nf".toList := by decide
/-- `.` stops at a line break: a conditional whose `-->` is on another line is not touched (`hbody` is needed) -/
example : stripIE "a<!--[if IE]>\nb<![endif]-->c".toList = "a<!--[if IE]>\nb<![endif]-->c".toList := by decide
/-- `replace` removes *every* occurrence of a match, and matches are removed in order: here the first match
    also occurs at the end of the second, which is then no longer found (`hpost` is needed) -/
example : stripIE "<!--[if a]-->\n<!--[if b]--><!--[if a]-->".toList = "\n<!--[if b]-->".toList := by decide
/-- removing a match can leave a new conditional behind: `stripIE` is applied once, not to a fixed point -/
example : stripIE "<!-<!--[if x]-->-\n[if y]-->".toList = "<!--\n[if y]-->".toList := by decide
example : stripIE (stripIE "<!-<!--[if x]-->-\n[if y]-->".toList) = [] := by decide

/-- a token list with comments, a doctype and attribute values that meets the token-level condition -/
def sampleDocIE : List Token :=
  [.decl "DOCTYPE html".toList, .comment "x [if] is not at the start ".toList,
   .start "a".toList [("href".toList, some "x<!-- [y".toList)], .data "[if IE]".toList, .end_ "a".toList,
   .comment "if".toList, .start "br".toList []]

theorem sampleDocIE_ok : ListOK sampleDocIE := by
  apply listOK_of_noAdjData
  · intro t ht
    simp [sampleDocIE] at ht
    rcases ht with rfl | rfl | rfl | rfl | rfl | rfl | rfl
    · exact ⟨by decide, by decide⟩
    · simp [TokOK, CommentOK]
    · refine ⟨tagOK_a, by decide, ?_⟩
      intro x hx
      simp at hx
      subst hx
      exact ⟨⟨by decide, by decide, by decide⟩, by simp [ValueOK], by decide⟩
    · exact Or.inr (Or.inr ⟨by decide, by decide⟩)
    · exact tagOK_a
    · simp [TokOK, CommentOK]
    · exact ⟨tagOK_br, by decide, fun x hx => by simp at hx⟩
  · intro t ht
    simp [sampleDocIE] at ht
    rcases ht with rfl | rfl | rfl | rfl | rfl | rfl | rfl <;> first | trivial | exact ⟨by decide, by decide⟩
  · simp [sampleDocIE, NoAdjData, isData]

theorem sampleDocIE_noIE : ∀ t ∈ sampleDocIE, TokNoIE t := by
  intro t ht
  simp [sampleDocIE] at ht
  rcases ht with rfl | rfl | rfl | rfl | rfl | rfl | rfl
  · show hasIEMarker _ = false; decide
  · show condStart _ = false; decide
  · intro x hx v hv
    simp at hx
    subst hx
    simp at hv
    subst hv
    decide
  · show hasIEMarker _ = false; decide
  · trivial
  · show condStart _ = false; decide
  · intro x hx; simp at hx

example : parseText (renderToks sampleDocIE) = some (.doc (Spec.build sampleDocIE).1 (Spec.build sampleDocIE).2) :=
  parseText_eq_spec sampleDocIE sampleDocIE_ok (by
    intro t ht
    simp [sampleDocIE] at ht
    rcases ht with rfl | rfl | rfl | rfl | rfl | rfl | rfl <;> decide) sampleDocIE_noIE

/-- a document with a raw-text element that meets the token-level condition: the script's content has `<`, `&&`,
    an end tag — but no opener -/
theorem sampleRawDoc_noIE : ∀ t ∈ sampleRawDoc, TokNoIE t := by
  intro t ht
  simp [sampleRawDoc] at ht
  rcases ht with rfl | rfl | rfl | rfl | rfl | rfl
  · show hasIEMarker _ = false; decide
  · show hasIEMarker _ = false; decide
  · intro x hx; simp at hx
  · show hasIEMarker _ = false; decide
  · trivial
  · intro x hx; simp at hx

example : parseText (renderToks sampleRawDoc) = some (.doc (Spec.build sampleRawDoc).1 (Spec.build sampleRawDoc).2) :=
  parseText_eq_spec sampleRawDoc sampleRawDoc_ok (by
    intro t ht
    simp [sampleRawDoc] at ht
    rcases ht with rfl | rfl | rfl | rfl | rfl | rfl <;> decide) sampleRawDoc_noIE

/-- the clause of `TokNoIE` on data tokens is needed: a script whose content holds a conditional comment is in the
    serialiser's image (`ListOK.raw`; every other token meets the condition), its content token tests positive,
    the rendering has the marker, and `stripIEConditionals` cuts the conditional out of the script's text -/
def rawCondDoc : List Token :=
  [.start "script".toList [], .data "a<!--[if IE]>b<![endif]-->c".toList, .end_ "script".toList]

theorem rawCondDoc_ok : ListOK rawCondDoc :=
  .raw (by decide) (by simp) (by decide) (by decide) .nil

example : rawCondDoc.map tokIE = [false, true, false] := by decide
example : hasIEMarker (renderToks rawCondDoc) = true := by
  rw [renderToks_marker_iff_tokens _ rawCondDoc_ok]; decide
example : stripIE (renderToks rawCondDoc) = "<script >ac</script>".toList := by decide

/-- the token-level condition is needed: a comment token whose body starts with `[if` is in the serialiser's
    image, but `feed` strips it from the text — the element it stood in comes out empty -/
def condComment : List Token :=
  [.start "a".toList [], .comment "[if IE]><b>x</b><![endif]".toList, .end_ "a".toList]

theorem condComment_ok : ListOK condComment := by
  apply listOK_of_noAdjData
  · intro t ht
    simp [condComment] at ht
    rcases ht with rfl | rfl | rfl
    · exact ⟨tagOK_a, by decide, fun x hx => by simp at hx⟩
    · simp [TokOK, CommentOK]
    · exact tagOK_a
  · intro t ht
    simp [condComment] at ht
    rcases ht with rfl | rfl | rfl <;> trivial
  · simp [condComment, NoAdjData, isData]

example : stripIE (renderToks condComment) = "<a ></a>".toList := by decide

/-- …and `parseText_drops_conditional` says what comes out instead: the document of the list without the token -/
example : parseText (renderToks condComment)
    = some (.doc (Spec.build [.start "a".toList [], .end_ "a".toList]).1 (Spec.build [.start "a".toList [], .end_ "a".toList]).2) :=
  parseText_drops_conditional [.start "a".toList []] [.end_ "a".toList] "[if IE]><b>x</b><![endif]".toList
    (by decide) (by decide) (by decide) (by decide) (by decide) (Or.inl (by decide))
    (.cons ⟨tagOK_a, by decide, fun x hx => by simp at hx⟩ trivial (.cons tagOK_a trivial .nil))
    (by intro t ht; simp at ht; rcases ht with rfl | rfl <;> decide)

/-- number of children of the root element a parse gave -/
def rootKids : FeedResult → Option Nat
  | .doc ⟨_, some (.elem _ _ _ kids)⟩ _ => some kids.length
  | _ => none

def emptyA : List Token := [.start "a".toList [], .end_ "a".toList]

theorem emptyA_ok : ListOK emptyA :=
  .cons ⟨tagOK_a, by decide, fun x hx => by simp at hx⟩ trivial (.cons tagOK_a trivial .nil)

theorem condComment_stripped : stripIE (renderToks condComment) = renderToks emptyA := by decide

example : parseText (renderToks condComment) ≠ feedText (renderToks condComment) := by
  unfold parseText
  rw [condComment_stripped, feedText_renderToks _ condComment_ok, feedText_renderToks _ emptyA_ok]
  intro h
  have h2 := congrArg (Option.map rootKids) h
  revert h2
  decide

/-! #### Non-vacuity -/
example : NoWrapper [.start "a".toList [], .data "x".toList, .end_ "b".toList, .start "br".toList []] := by
  intro t ht; simp at ht; rcases ht with h | h | h | h <;> subst h <;> decide

example : (Spec.build [.start "a".toList [], .start "b".toList [], .data "x".toList, .end_ "a".toList,
    .data "y".toList]).2 = true := by decide

/-- `reuse_eq_spec` applies: after a history that left an element open, `parseStr` of `sampleDocIE`'s rendering gives
    the specification's document of `sampleDocIE` -/
example : PObj.viewOf (PObj.parseHist PObj.lexTok PObj.noBytes (PObj.ParserObj.fresh PObj.lexTok () true, none)
    ([.str "<a >".toList] ++ [.str (renderToks sampleDocIE)])) = .inl (Spec.build sampleDocIE).1 :=
  reuse_eq_spec PObj.noBytes _ none [.str "<a >".toList] sampleDocIE sampleDocIE_ok (by
    intro t ht
    simp [sampleDocIE] at ht
    rcases ht with rfl | rfl | rfl | rfl | rfl | rfl | rfl <;> decide) sampleDocIE_noIE

end AHP.C02
