/- C02 — property theorems (stub: the property is not claimed yet). -/
namespace AHP.C02
end AHP.C02
