/- C05 — property theorems (stub: the property is not claimed yet). -/
namespace AHP.C05
end AHP.C05
