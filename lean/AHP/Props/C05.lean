/-
  C05 — each mutation has exactly its documented effect; failed calls change nothing.

  Model: AHP/Model/Dom.lean (`step`), AHP/Model/DomView.lean (serialisation).
  Specification: AHP/Lemmas/DomSpec.lean — reference documents are plain trees of blocks without any
  cached field; `sstep` is the documented effect of each call on the block list of its target only.
  `abs` forgets `children`, `text`, `parentNode`, `ownerDocument`.
-/
import AHP.Lemmas.DomMove
namespace AHP.C05
open AHP AHP.Dom AHP.Dom.Spec

/-- A call whose fragment argument does not have the reserved wrapper name as its single root
    (input with that name is outside the domain of the fragment properties). -/
def plain : Op → Prop
  | .appendInnerHTML _ p => Parsed.plain p
  | _ => True

/-! ## C05a — refinement -/

/-- C05a. In every invariant state, every call does to the document exactly what the documented effect
    does to the reference document, returns the same value / raises the same exception, and is
    inside the model exactly when the reference accepts it (both sides `none` together). -/
theorem step_refines_spec (w : World) (op : Op) (hw : Inv w) (hp : plain op) :
    (step w op).map absR = sstep (absW w) op := by
  cases op with
  | appendText t s => exact abs_appendText hw t s
  | appendChild t c =>
    cases c with
    | none =>
      simp only [step, sstep, Option.map_map]
      have : sfindL? t (absW w).roots = (w.find? t).map absP := sfindL?_absL t w.roots
      rw [this, Option.map_map]
      rfl
    | some c => exact abs_appendChild hw t c
  | appendBlock t b => exact abs_appendBlock hw t b
  | appendBlocks t bs => exact abs_appendBlocks hw t bs
  | appendInnerHTML t p => exact abs_appendInnerHTML hw t p hp
  | insertBefore t b r => exact abs_insert hw false t b r
  | insertAfter t b r => exact abs_insert hw true t b r
  | removeText t s => exact abs_removeText hw t s
  | removeTextAll t s => exact abs_removeTextAll hw t s
  | remove t => exact abs_remove hw t
  | removeChild t c => exact abs_removeChild hw t c
  | removeChildren t cs => exact abs_removeBlocks hw t (cs.map .elm)
  | removeBlock t b => exact abs_removeBlock hw t b
  | removeBlocks t bs => exact abs_removeBlocks hw t bs
  | setAttribute t k v => exact abs_setAttribute hw t k v

/-- C05a for histories: the observable document after any history equals the reference document
    driven by the same calls. -/
theorem history_refines_spec (ops : List Op) (w : World) (hw : Inv w) (hp : ∀ op ∈ ops, plain op) :
    (run w ops).map absW = srun (absW w) ops := by
  induction ops generalizing w with
  | nil => simp [run, srun]
  | cons op ops ih =>
    simp only [run, srun, ← step_refines_spec w op hw (hp op (by simp))]
    cases h : step w op with
    | none => simp
    | some r =>
      simp only [Option.map_some, absR]
      exact ih r.1 (step_Inv' (w' := r.1) (v := r.2) op hw (by simpa using h)) (fun o ho => hp o (by simp [ho]))

/-! ## C05b — failed calls change nothing -/

theorem apply_raise {w w' : World} {t loc k} (h : w.apply t loc = some (w', .raise k))
    (hl : ∀ m bs e, (loc m bs).1 = some e → ∀ k, (loc m bs).2 ≠ .raise k) : w' = w := by
  unfold World.apply at h
  split at h
  · simp at h
  · rename_i m bs hf
    split at h
    · simp only [Option.some.injEq, Prod.mk.injEq] at h; exact h.1.symm
    · rename_i e he
      simp only [Option.some.injEq, Prod.mk.injEq] at h
      exact absurd h.2 (hl m bs e he k)

theorem appendBlock_not_raise {w w' : World} {t b k} (h : w.appendBlock t b = some (w', .raise k)) : False := by
  cases b with
  | txt s => simp [World.appendBlock] at h
  | elm c =>
    simp only [World.appendBlock, World.appendChild] at h
    split at h
    · simp at h
    · unfold World.apply at h
      split at h
      · simp at h
      · simp at h

theorem removeChild_raise {w w' : World} {t c k} (h : w.removeChild t c = some (w', .raise k)) : False := by
  unfold World.removeChild World.apply at h
  split at h
  · simp at h
  · rename_i m bs hf
    have : ∀ k, (locRemoveChild c m bs).2 ≠ .raise k := by
      intro k; unfold locRemoveChild; split
      · split <;> simp
      · simp
    split at h <;> (simp only [Option.some.injEq, Prod.mk.injEq] at h; exact this k h.2)

theorem removeText_raise {w w' : World} {t s k} (h : w.removeText t s = some (w', .raise k)) : False := by
  unfold World.removeText World.apply at h
  split at h
  · simp at h
  · rename_i m bs hf
    have : ∀ k, (locRemoveText s m bs).2 ≠ .raise k := by
      intro k; unfold locRemoveText; split <;> simp
    simp only [Option.some.injEq, Prod.mk.injEq] at h
    exact this k h.2

/-- C05b (exceptions). Whatever the call: if it raises, the whole world is exactly as it was. -/
theorem raising_call_changes_nothing (w w' : World) (op : Op) (k : String)
    (h : step w op = some (w', .raise k)) : w' = w := by
  cases op with
  | appendText t s =>
    simp only [step, World.appendText] at h
    exact apply_raise h (fun m bs e _ k => by simp)
  | appendChild t c =>
    cases c with
    | none =>
      simp only [step, Option.map_eq_some_iff, Prod.mk.injEq] at h
      obtain ⟨_, _, he, _⟩ := h
      exact he.symm
    | some c => exact (appendBlock_not_raise (b := .elm c) h).elim
  | appendBlock t b => exact (appendBlock_not_raise h).elim
  | appendBlocks t bs => simp [step, World.appendBlocks] at h
  | appendInnerHTML t p => simp [step, World.appendInnerHTML] at h
  | insertBefore t b r | insertAfter t b r =>
    simp only [step, World.insert] at h
    split at h
    · exact (appendBlock_not_raise h).elim
    · split at h
      · refine apply_raise h ?_
        intro m bs e he k
        unfold locInsertText at he ⊢
        split <;> simp_all
      · split at h
        · simp at h
        · split at h
          · simp at h
          · split at h
            · simp only [Option.some.injEq, Prod.mk.injEq] at h; exact h.1.symm
            · simp at h
  | removeText t s => exact (removeText_raise h).elim
  | removeTextAll t s =>
    simp only [step, World.removeTextAll] at h
    exact apply_raise h (fun m bs e _ k => by simp [locRemoveTextAll])
  | remove t =>
    simp only [step, World.remove] at h
    split at h
    · simp at h
    · split at h <;> simp at h
  | removeChild t c => exact (removeChild_raise h).elim
  | removeChildren t cs => simp [step, World.removeChildren, World.removeBlocks] at h
  | removeBlock t b =>
    cases b with
    | elm c => exact (removeChild_raise h).elim
    | txt s => exact (removeText_raise h).elim
  | removeBlocks t bs => simp [step, World.removeBlocks] at h
  | setAttribute t k' v =>
    simp only [step, World.setAttribute] at h
    split at h
    · simp at h
    · refine apply_raise h ?_
      intro m bs e he k
      unfold locSetAttribute at he ⊢
      split <;> simp_all

/-- reference block that is not a child: ValueError, nothing changed (text argument) -/
theorem insert_text_ref_not_child (w : World) (after : Bool) (t : Nat) (s : Str) (r : Blk) (m : Meta) (bs : List DN)
    (hf : w.find? t = some (m, bs)) (hr : indexOf r bs = none) :
    w.insert after t (.txt s) (some r) = some (w, .raise "ValueError") := by
  simp [World.insert, World.apply, hf, locInsertText, hr]

/-- reference block that is not a child: ValueError, nothing changed, the element argument stays detached -/
theorem insert_el_ref_not_child (w : World) (after : Bool) (t c : Nat) (r : Blk) (ct : DN) (rest : List DN) (m : Meta) (bs : List DN)
    (hc : takeRoot c w.roots = some (ct, rest)) (hf : findL? t rest = some (m, bs)) (hr : indexOf r bs = none) :
    w.insert after t (.elm c) (some r) = some (w, .raise "ValueError") := by
  simp [World.insert, hc, hf, hr]

/-- `appendChild(None)`: KeyError, nothing changed -/
theorem appendChild_none (w : World) (t : Nat) (m : Meta) (bs : List DN) (hf : w.find? t = some (m, bs)) :
    step w (.appendChild t none) = some (w, .raise "KeyError") := by
  simp [step, hf]

/-- invalid attribute name: KeyError, nothing changed -/
theorem setAttribute_invalid (w : World) (t : Nat) (k v : Str) (m : Meta) (bs : List DN) (hf : w.find? t = some (m, bs))
    (hs : specialAttr k = false) (hk : validAttrName k = false) :
    step w (.setAttribute t k v) = some (w, .raise "KeyError") := by
  simp [step, World.setAttribute, hs, World.apply, hf, locSetAttribute, hk]

/-- removing a non-child: the call reports None and nothing changed -/
theorem removeChild_non_child (w : World) (hw : Inv w) (t c : Nat) (m : Meta) (bs : List DN)
    (hf : w.find? t = some (m, bs)) (hc : c ∉ elemIds bs) :
    step w (.removeChild t c) = some (w, .none) := by
  obtain ⟨p, o, hk⟩ := findL?_roots_OK t w.roots hw.roots hf
  simp only [OK_el] at hk
  have : c ∉ m.children := hk.2.2.1 ▸ hc
  simp [step, World.removeChild, World.apply, hf, locRemoveChild, this]

/-- conversely: whenever `removeChild` reports None in an invariant state, nothing changed -/
theorem removeChild_none_changes_nothing (w w' : World) (hw : Inv w) (t c : Nat)
    (h : step w (.removeChild t c) = some (w', .none)) : w' = w := by
  simp only [step, World.removeChild, World.apply] at h
  split at h
  · simp at h
  · rename_i m bs hf
    obtain ⟨p, o, hk⟩ := findL?_roots_OK t w.roots hw.roots hf
    simp only [OK_el] at hk
    split at h
    · simp only [Option.some.injEq, Prod.mk.injEq] at h; exact h.1.symm
    · rename_i e he
      simp only [Option.some.injEq, Prod.mk.injEq] at h
      exfalso
      have hv := h.2
      unfold locRemoveChild at hv he
      split at hv
      · rename_i hc
        cases hr : removeFirstEl c bs with
        | none => exact absurd (hk.2.2.1 ▸ hc) (removeFirstEl_none c bs hr)
        | some r => rw [hr] at hv; simp at hv
      · rename_i hc
        rw [if_neg hc] at he; simp at he

/-- `remove()` on an element without parent: False, nothing changed -/
theorem remove_root (w : World) (t : Nat) (m : Meta) (bs : List DN) (hf : w.find? t = some (m, bs)) (hp : m.parent = none) :
    step w (.remove t) = some (w, .bool false) := by
  simp [step, World.remove, hf, hp]

/-- `removeText` without a matching text block: None, and in an invariant state nothing changed
    (the text cache is regenerated to the value it had) -/
theorem removeText_no_match (w : World) (hw : Inv w) (t : Nat) (s : Str) (m : Meta) (bs : List DN)
    (hf : w.find? t = some (m, bs)) (hn : replaceFirstText s bs = none) :
    step w (.removeText t s) = some (w, .none) := by
  obtain ⟨p, o, hk⟩ := findL?_roots_OK t w.roots hw.roots hf
  simp only [OK_el] at hk
  have hloc : locRemoveText s m bs = (⟨m, bs, []⟩, .none) := by
    unfold locRemoveText; rw [hn]
    simp only [Prod.mk.injEq, and_true]
    congr 1
    cases m; simp_all
  simp only [step, World.removeText, World.apply, hf, hloc]
  congr 2
  simp only [World.edit]
  rw [updL_found_id t _ w.roots hw.nodup hf (by simp [hloc])]
  cases w; simp

/-! ## C05c — frame -/

/-- C05c. Whatever a call through `World.apply` does at its target `t`, every element outside the
    subtree of `t` keeps all its fields (name, attributes, self-closing flag, children, text,
    parentNode, ownerDocument); what leaves the target is appended to the roots. -/
theorem frame_apply (w w' : World) (t : Nat) (loc : Meta → List DN → Option Edit × Val) (v : Val)
    (hid : ∀ m bs e, (loc m bs).1 = some e → e.m.id = m.id)
    (h : w.apply t loc = some (w', v)) :
    ∃ kept out, w'.roots = kept ++ out ∧ outsideL t kept = outsideL t w.roots := by
  unfold World.apply at h
  split at h
  · simp at h
  · split at h
    · simp only [Option.some.injEq, Prod.mk.injEq] at h
      exact ⟨w.roots, [], by simp [← h.1], rfl⟩
    · simp only [Option.some.injEq, Prod.mk.injEq] at h
      refine ⟨_, _, by rw [← h.1]; rfl, outsideL_updL t _ ?_ w.roots⟩
      intro m bs
      cases he : (loc m bs).1 with
      | none => simp [he]
      | some e => simpa [he] using hid m bs e he

/-- the calls that move the element `c` under the target `t` -/
inductive Moves (t c : Nat) : Op → Prop
  | appendChild : Moves t c (.appendChild t (some c))
  | appendBlock : Moves t c (.appendBlock t (.elm c))
  | insertBefore (r : Option Blk) : Moves t c (.insertBefore t (.elm c) r)
  | insertAfter (r : Option Blk) : Moves t c (.insertAfter t (.elm c) r)

/-- C05c for the element-moving calls (`appendChild`, `appendBlock` with an element, `insertBefore` /
    `insertAfter` with an element), when the call succeeds (returns the element). The moved element
    `ct` was a root of the world (`w.roots = a ++ ct :: b`) and the target was found outside it. Then:
    * the root list of the new world is `a ++ b` root by root (same uids in the same order): the
      moved root has left it, nothing was added;
    * every element outside the subtree of `t` and outside the moved tree keeps all its fields
      (`outsideL t` lists name, attributes, self-closing flag, children, text, parentNode,
      ownerDocument of each): the old world has those of `a`, of the moved tree, of `b`; the new
      world those of `a` and `b`, unchanged;
    * at the target only `isSelfClosing`, `children` and the block list change, and the block list
      is the old one with the moved tree — after the accounting `attach` — inserted at one position.
    What `attach` changes inside the moved tree is `moved_tree_fields`. -/
theorem frame_move (w w' : World) (op : Op) (t c : Nat) (hw : Inv w) (hop : Moves t c op)
    (h : step w op = some (w', .el c)) :
    ∃ a b ct m bs m' i, w.roots = a ++ ct :: b ∧ rootId ct = some c ∧ findL? t (a ++ b) = some (m, bs) ∧
      w'.roots.map DN.rid = (a ++ b).map DN.rid ∧
      outsideL t w.roots = outsideL t a ++ metas ct ++ outsideL t b ∧
      outsideL t w'.roots = outsideL t a ++ outsideL t b ∧
      w'.find? t = some (m', insertAt i (attach m ct) bs) ∧ KeepsScalars m m' := by
  have key : ∃ a b ct m bs m' i, w.roots = a ++ ct :: b ∧ rootId ct = some c ∧ findL? t (a ++ b) = some (m, bs) ∧
      outsideL t w'.roots = outsideL t a ++ outsideL t b ∧ w'.roots.map DN.rid = (a ++ b).map DN.rid ∧
      w'.find? t = some (m', insertAt i (attach m ct) bs) ∧ KeepsScalars m m' := by
    cases hop with
    | appendChild =>
      obtain ⟨a, b, ct, m, bs, m', h1, h2, h3, h4, h5, h6, h7, _⟩ := appendChild_frame w w' t c _ h
      exact ⟨a, b, ct, m, bs, m', _, h1, h2, h3, h4, h5, h6, h7⟩
    | appendBlock =>
      obtain ⟨a, b, ct, m, bs, m', h1, h2, h3, h4, h5, h6, h7, _⟩ := appendChild_frame w w' t c _ h
      exact ⟨a, b, ct, m, bs, m', _, h1, h2, h3, h4, h5, h6, h7⟩
    | insertBefore r => exact insert_frame w w' false t c r h
    | insertAfter r => exact insert_frame w w' true t c r h
  obtain ⟨a, b, ct, m, bs, m', i, h1, h2, h3, h4, h5, h6, h7⟩ := key
  refine ⟨a, b, ct, m, bs, m', i, h1, h2, h3, h5, ?_, h4, h6, h7⟩
  have hnd := hw.nodup
  rw [h1] at hnd
  have htin : t ∈ idsL (a ++ b) := findL?_mem t _ h3
  have htct : t ∉ ids ct := by
    intro hin
    simp only [idsL_append, idsL_cons] at hnd htin
    have hd := List.nodup_append.mp hnd
    have hd2 := List.nodup_append.mp hd.2.1
    rcases List.mem_append.mp htin with ha | hb
    · exact hd.2.2 t ha t (List.mem_append_left _ hin) rfl
    · exact hd2.2.2 t hin t hb rfl
  rw [h1, outsideL_append]
  simp only [outsideL, outside_not_mem t ct htct, List.append_assoc]

/-- What a move changes inside the moved tree `ct = el mc k`: `parentNode` of its root becomes the
    target, `ownerDocument` of every element becomes the target's; every other field of every element
    of it (uid, name, attributes, self-closing flag, children, text, the parent links below the
    root) and the shape of the tree stay. -/
theorem moved_tree_fields (m mc : Meta) (k : List DN) :
    metas (attach m (.el mc k)) =
      { mc with parent := some m.id, owner := m.owner } :: (metasL k).map (fun x => { x with owner := m.owner }) :=
  metas_attach m mc k

/-- C05c for `appendInnerHTML`: every element outside the subtree of the target keeps all its fields,
    the root list stays as it was root by root (every element created for the fragment is consumed),
    the target keeps uid, name, attributes, parentNode, ownerDocument, and its block list is the old
    one followed by the fragment's blocks after the accounting `attach`. -/
theorem frame_appendInnerHTML (w w' : World) (t : Nat) (p : Parsed) (v : Val) (m : Meta) (bs : List DN) (hw : Inv w)
    (hf : w.find? t = some (m, bs)) (h : step w (.appendInnerHTML t p) = some (w', v)) :
    ∃ m', outsideL t w'.roots = outsideL t w.roots ∧ w'.roots.map DN.rid = w.roots.map DN.rid ∧
      w'.find? t = some (m', bs ++ (createBlocks (p.build w.nextDoc w.next).1).map (attach m)) ∧ KeepsIdent m m' :=
  appendInnerHTML_frame w w' t p v m bs hw hf h

/-! ## C05d — serialisation laws -/

/-- outerHTML = start tag + innerHTML + end tag, for every element. -/
theorem outerHTML_law (m : Meta) (bs : List DN) :
    outerHTML (.el m bs) = startTag m ++ innerHTML m bs ++ endTag m := by
  simp [outerHTML, innerHTML]

/-- innerHTML = the concatenation of the blocks' HTML, for every consistent element (for a
    self-closing element both sides are empty because it has no content). -/
theorem innerHTML_law (m : Meta) (bs : List DN) (par own : Option Nat) (h : OK par own (.el m bs)) :
    innerHTML m bs = (bs.map outerHTML).flatten := by
  rw [← innerL_eq_flatten]
  simp only [innerHTML]
  split
  · rename_i hsc
    simp only [OK_el] at h
    exact (noContent_innerL bs (h.2.2.2.2.1 hsc)).symm
  · rfl

/-- textContent = the document-order concatenation of all text. -/
theorem textContent_law (m : Meta) (bs : List DN) : textContent (.el m bs) = (bs.map textContent).flatten := by
  simp [textContent, textContentL_eq_flatten]

/-- The serialisation of a document is a function of its blocks alone: it equals the serialisation of
    the reference document (no cached field takes part). -/
theorem serialisation_depends_on_blocks_only (n : DN) : outerHTML n = shtml (abs n) ∧ textContent n = stext (abs n) :=
  ⟨outerHTML_abs n, textContent_abs n⟩

/-- After any history, outerHTML / textContent of every root are those of the reference document
    driven by the same calls (C05a + the two lemmas above). `str()`, `toHTML`, `asHTML`, `getHTML` are
    `outerHTML` in the code (Tags.py `__str__`, `toHTML` and its two aliases), one function in the model. -/
theorem history_serialisation (ops : List Op) (w w' : World) (sw' : SWorld) (hw : Inv w) (hp : ∀ op ∈ ops, plain op)
    (h : run w ops = some w') (hs : srun (absW w) ops = some sw') :
    w'.roots.map outerHTML = sw'.roots.map shtml ∧ w'.roots.map textContent = sw'.roots.map stext := by
  have := history_refines_spec ops w hw hp
  rw [h, hs] at this
  simp only [Option.map_some, Option.some.injEq] at this
  rw [← this]
  simp only [absW, absL_eq_map, List.map_map]
  exact ⟨List.map_congr_left (fun n _ => outerHTML_abs n), List.map_congr_left (fun n _ => textContent_abs n)⟩

/-! ## Non-vacuity -/

def exSeed : FN := .el "div".toList [] false [.text "a".toList, .el "b".toList [] false [.text "x".toList], .el "br".toList [] false []]
def exSpares : List FN := [.el "span".toList [] false [], .el "p".toList [] true []]
def exOps : List Op :=
  [.insertBefore 0 (.elm 3) (some (.txt "a".toList)), .appendText 4 "t".toList, .removeChild 0 1, .appendChild 3 (some 1),
   .insertAfter 0 (.txt "z".toList) (some (.elm 2)), .remove 1, .appendInnerHTML 2 (.multi [.text "hi".toList, .el "i".toList [] false []])]

example : (run (initWorld false exSeed exSpares) exOps).isSome = true := by decide
example : ∀ op ∈ exOps, plain op := by
  intro op h
  simp only [exOps, List.mem_cons, List.not_mem_nil, or_false] at h
  rcases h with rfl | rfl | rfl | rfl | rfl | rfl | rfl <;> simp [plain, Parsed.plain]
example : (step (initWorld false exSeed exSpares) (.insertBefore 0 (.txt "q".toList) (some (.txt "zz".toList)))).map (·.2)
    = some (.raise "ValueError") := by
  show ((initWorld false exSeed exSpares).insert false 0 (.txt "q".toList) (some (.txt "zz".toList))).map (·.2) = _
  cases hf : (initWorld false exSeed exSpares).find? 0 with
  | none => exact absurd hf (by decide)
  | some r =>
    obtain ⟨m, bs⟩ := r
    have hr : indexOf (.txt "zz".toList) bs = none := by
      have : ((initWorld false exSeed exSpares).find? 0).map (fun r => indexOf (.txt "zz".toList) r.2) = some none := by decide
      rw [hf] at this; simpa using this
    rw [insert_text_ref_not_child _ false 0 _ _ m bs hf hr]; rfl

/-- a successful move: the spare element 3 inserted before the text `a` of element 0 -/
example : ∃ w', step (initWorld false exSeed exSpares) (.insertBefore 0 (.elm 3) (some (.txt "a".toList))) = some (w', .el 3) := by
  cases h : step (initWorld false exSeed exSpares) (.insertBefore 0 (.elm 3) (some (.txt "a".toList))) with
  | none => exact absurd h (by decide)
  | some r =>
    obtain ⟨w', v⟩ := r
    have hv : (step (initWorld false exSeed exSpares) (.insertBefore 0 (.elm 3) (some (.txt "a".toList)))).map
        (fun r => match r.2 with | .el n => n == 3 | _ => false) = some true := by decide
    rw [h] at hv
    cases v <;> simp at hv
    exact ⟨w', by rw [hv]⟩

end AHP.C05
