/-
  C15 — XPath results do not depend on evaluation history, caching or threads.

  Property theorems only.  Model: AHP/Model/Cache.lean (`_cache.py`, `XPathExpression.__init__`, the
  per-thread quantum machine, the lock-level small-step programs).  Helper lemmas and the cache-free
  specification `specStep`/`specRun`: AHP/Lemmas/Cache.lean, AHP/Lemmas/CacheHist.lean.

  Parameters everywhere: `compile : E → Option V` (the XPath compiler; `none` = raises), `key : E → K`
  (sha1 of the text — injective by assumption), `eval : V → T → R` (evaluation; `R` includes run-time
  errors).  What `eval ∘ compile` *is* is C14; here only that nothing else enters a result.
-/
import AHP.Lemmas.CacheHist
import AHP.Gen.Tables
namespace AHP.C15
open AHP AHP.Cache

section
variable {E K V T R : Type} [DecidableEq K]
variable (compile : E → Option V) (key : E → K) (eval : V → T → R)

/-! #### C15a — the cache invariant, for every bound `MAX > CLEAR` and every history -/

/-- C15a: after every event of every history (compile, evaluate, reuse; valid, invalid and failing
    expressions in any order) the recency list is duplicate-free, the map's keys are exactly the
    recency list, and there are at most `MAX` of them. -/
theorem inv_at_every_point (MAX CLEAR : Nat) (hb : CLEAR < MAX) (evs : List (Event E T)) :
    ∀ p ∈ run compile key eval MAX CLEAR World.empty evs, Inv MAX p.2 :=
  run_inv hb evs World.empty (Inv.empty MAX)

/-- C15a (size bound as the property words it): the map never holds more than `MAX` entries. -/
theorem size_bound (MAX CLEAR : Nat) (hb : CLEAR < MAX) (evs : List (Event E T)) :
    ∀ p ∈ run compile key eval MAX CLEAR World.empty evs,
      (dictKeys p.2.map).length ≤ MAX ∧ p.2.recent.length ≤ MAX := by
  intro p hp
  have h := inv_at_every_point compile key eval MAX CLEAR hb evs p hp
  exact ⟨h.keys_length ▸ h.bound, h.bound⟩

/-- C15a (coherence): whatever the map holds under a key is the compiled form of that expression —
    for every bound, even a broken one. -/
theorem coherent_at_every_point (hinj : Function.Injective key) (MAX CLEAR : Nat) (evs : List (Event E T)) :
    ∀ p ∈ run compile key eval MAX CLEAR World.empty evs, Coh compile key p.2 :=
  run_coh hinj evs World.empty (Coh.empty compile key)

/-- C15a (table obligation): the shipped constants, regenerated from `_cache.py` on every run,
    satisfy the hypothesis of the theorems above. -/
theorem shipped_bound_ok : 1 ≤ Gen.clearAtOneTime ∧ Gen.clearAtOneTime < Gen.maxCachedExpressions := by
  decide

/-- C15a instantiated for the shipped constants. -/
theorem shipped_inv (evs : List (Event E T)) :
    ∀ p ∈ run compile key eval Gen.maxCachedExpressions Gen.clearAtOneTime World.empty evs,
      Inv Gen.maxCachedExpressions p.2 :=
  inv_at_every_point compile key eval _ _ shipped_bound_ok.2 evs

/-- C15a instantiated for the bound the exhaustive correspondence run patches in (3 / evict 1). -/
theorem small_inv (evs : List (Event E T)) :
    ∀ p ∈ run compile key eval 3 1 World.empty evs, Inv 3 p.2 :=
  inv_at_every_point compile key eval 3 1 (by decide) evs

/-! #### C15b — results depend on the expression text and the tree only -/

/-- C15b: in every history, from the empty cache, the observations are those of the cache-free
    specification: a query shows `eval (compile e) t`, a reused object shows `eval` of the form it was
    compiled to, a failing compile shows the failure — whether the compiled form was fresh, taken from
    the cache, evicted and re-entered, and whatever failed in between.  Holds for *every* bound. -/
theorem results_independent_of_history (hinj : Function.Injective key) (MAX CLEAR : Nat)
    (evs : List (Event E T)) :
    (run compile key eval MAX CLEAR World.empty evs).map (·.1) = specRun compile eval [] evs :=
  run_obs_eq_spec hinj evs World.empty (Coh.empty compile key)

/-- C15b, pointwise: after *any* history `h` a query of `e` on `t` shows exactly what it shows on an
    empty cache. -/
theorem query_after_any_history (hinj : Function.Injective key) (MAX CLEAR : Nat)
    (h : List (Event E T)) (e : E) (t : T) :
    (step compile key eval MAX CLEAR (exec compile key eval MAX CLEAR World.empty h) (.query e t)).2
      = (step compile key eval MAX CLEAR World.empty (.query e t)).2 := by
  have hc := @exec_coh E K V T R _ compile key eval MAX CLEAR hinj h World.empty (Coh.empty compile key)
  have h1 := (@step_spec E K V T R _ compile key eval MAX CLEAR hinj _ hc (.query e t)).2
  have h2 := (@step_spec E K V T R _ compile key eval MAX CLEAR hinj World.empty (Coh.empty compile key) (.query e t)).2
  have a := congrArg Prod.snd h1
  have b := congrArg Prod.snd h2
  simp only [specStep] at a b
  rw [a, b]
  cases compile e <;> rfl

/-- C15b for two histories: the same query gives the same answer at the end of any two histories. -/
theorem query_same_in_any_two_histories (hinj : Function.Injective key) (MAX CLEAR : Nat)
    (h₁ h₂ : List (Event E T)) (e : E) (t : T) :
    (step compile key eval MAX CLEAR (exec compile key eval MAX CLEAR World.empty h₁) (.query e t)).2
      = (step compile key eval MAX CLEAR (exec compile key eval MAX CLEAR World.empty h₂) (.query e t)).2 := by
  rw [query_after_any_history compile key eval hinj, query_after_any_history compile key eval hinj]

/-! #### C15c — schedules -/

/-- The invariant of a system of threads: cache invariant and coherence, and every thread is on track
    for its solo specification. -/
structure SysOK (MAX : Nat) (evss : List (List (Event E T))) (s : Sys E K V T R) : Prop where
  inv : Inv MAX s.cache
  coh : Coh compile key s.cache
  len : s.threads.length = evss.length
  thr : ∀ i th, s.threads[i]? = some th → ThreadOK compile eval th (specRun compile eval [] (evss.getD i []))

theorem sysOK_init (MAX : Nat) (evss : List (List (Event E T))) :
    SysOK compile key eval MAX evss (Sys.init evss : Sys E K V T R) := by
  refine ⟨Inv.empty MAX, Coh.empty compile key, by simp [Sys.init], ?_⟩
  intro i th h
  simp only [Sys.init, List.getElem?_map] at h
  cases hi : evss[i]? with
  | none => simp [hi] at h
  | some evs =>
    simp only [hi, Option.map_some, Option.some.injEq] at h
    subst h
    have : evss.getD i [] = evs := by simp [List.getD, hi]
    rw [this]
    exact ThreadOK.init evs

theorem sysOK_step (hinj : Function.Injective key) (MAX CLEAR : Nat) (hb : CLEAR < MAX)
    (evss : List (List (Event E T))) (s : Sys E K V T R) (h : SysOK compile key eval MAX evss s) (i : Nat) :
    SysOK compile key eval MAX evss (sysStep compile key eval MAX CLEAR s i) := by
  unfold sysStep
  cases hth : s.threads[i]? with
  | none => exact h
  | some th =>
    simp only
    have hok := h.thr i th hth
    have ⟨h1, h2⟩ := tstep_ok (compile := compile) (key := key) (eval := eval) (MAX := MAX) (CLEAR := CLEAR) hinj h.coh hok
    have h3 := tstep_inv (compile := compile) (key := key) (eval := eval) (MAX := MAX) (CLEAR := CLEAR) hb th h.inv
    generalize tstep compile key eval MAX CLEAR s.cache th = p at *
    obtain ⟨c, th'⟩ := p
    refine ⟨h3, h1, by simp [h.len], ?_⟩
    intro j tj hj
    simp only at hj
    rw [List.getElem?_set] at hj
    split at hj
    · rename_i hij
      subst hij
      split at hj
      · injection hj with hj; subst hj; exact h2
      · cases hj
    · exact h.thr j tj hj

/-- C15c: for every number of threads, every event list per thread and every schedule, at every
    point of the schedule: the cache invariant and coherence hold, and every thread has observed
    exactly a prefix of its solo specification — with `query_after_any_history`, what it gets alone. -/
theorem every_schedule (hinj : Function.Injective key) (MAX CLEAR : Nat) (hb : CLEAR < MAX)
    (evss : List (List (Event E T))) (sched : List Nat) :
    SysOK compile key eval MAX evss (sysRun compile key eval MAX CLEAR (Sys.init evss) sched) := by
  unfold sysRun
  suffices ∀ s, SysOK compile key eval MAX evss s →
      SysOK compile key eval MAX evss (sched.foldl (sysStep compile key eval MAX CLEAR) s) from
    this _ (sysOK_init compile key eval MAX evss)
  induction sched with
  | nil => intro s h; exact h
  | cons i rest ih =>
    intro s h
    exact ih _ (sysOK_step compile key eval hinj MAX CLEAR hb evss s h i)

/-- C15c (results): a thread that has finished under any schedule has observed exactly its solo results. -/
theorem finished_thread_solo_results (hinj : Function.Injective key) (MAX CLEAR : Nat) (hb : CLEAR < MAX)
    (evss : List (List (Event E T))) (sched : List Nat) (i : Nat) (th : Thread E V T R)
    (hth : (sysRun compile key eval MAX CLEAR (Sys.init evss) sched).threads[i]? = some th)
    (hdone : th.todo = []) :
    th.obs = specRun compile eval [] (evss.getD i []) := by
  have h := (every_schedule compile key eval hinj MAX CLEAR hb evss sched).thr i th hth
  have := h.obs
  rw [hdone] at this
  simpa [specRun] using this

/-- C15c (no step blocks, every schedule runs to completion): an unfinished thread can always take its
    quantum, and the quantum strictly decreases what it has left (at most two quanta per event). -/
theorem unfinished_thread_progresses (hinj : Function.Injective key) (MAX CLEAR : Nat) (hb : CLEAR < MAX)
    (evss : List (List (Event E T))) (sched : List Nat) (i : Nat) (th : Thread E V T R)
    (hth : (sysRun compile key eval MAX CLEAR (Sys.init evss) sched).threads[i]? = some th)
    (hne : th.todo ≠ []) (c : State K V) :
    (tstep compile key eval MAX CLEAR c th).2.measure < th.measure :=
  tstep_measure ((every_schedule compile key eval hinj MAX CLEAR hb evss sched).thr i th hth) hne

end

/-! #### C15c, lock level — the critical sections release on every path, nothing deadlocks -/

section Lock
variable {K V : Type} [DecidableEq K]

/-- A lock-level configuration: the shared cell and one program point per thread. -/
structure LSys (K V : Type) where
  sh : Shared K V
  pcs : List (Pc K V)

/-- Thread `i` moves; `none` = it is blocked on `acquire` (or does not exist). -/
def lsysStep (MAX CLEAR : Nat) (s : LSys K V) (i : Nat) : Option (LSys K V) :=
  match s.pcs[i]? with
  | none => none
  | some pc =>
    match lstep MAX CLEAR s.sh pc with
    | none => none
    | some (sh', pc') => some ⟨sh', s.pcs.set i pc'⟩

/-- Mutual exclusion + the lock bit says whether somebody is inside + the data invariant. -/
structure LockInv (MAX : Nat) (s : LSys K V) : Prop where
  excl : ∀ (i j : Nat) (pi pj : Pc K V), s.pcs[i]? = some pi → s.pcs[j]? = some pj → pi.holds = true → pj.holds = true → i = j
  held : s.sh.held = true ↔ ∃ (i : Nat) (pc : Pc K V), s.pcs[i]? = some pc ∧ pc.holds = true
  inv : Inv MAX s.sh.cache

/-- Facts about one lock-level step of one thread. -/
theorem lstep_facts (MAX CLEAR : Nat) (hb : CLEAR < MAX) (sh sh' : Shared K V) (pc pc' : Pc K V)
    (hinv : Inv MAX sh.cache) (hheld : pc.holds = true → sh.held = true)
    (hl : lstep MAX CLEAR sh pc = some (sh', pc')) :
    (pc'.holds = true → (pc.holds = true ∨ sh.held = false)) ∧
    ((pc.holds = true ∨ pc'.holds = true) → sh'.held = pc'.holds) ∧
    (pc.holds = false → pc'.holds = false → sh'.held = sh.held) ∧
    Inv MAX sh'.cache := by
  cases pc with
  | getAcquire k =>
    simp only [lstep] at hl
    split at hl
    · cases hl
    · rename_i hh
      simp only [Option.some.injEq, Prod.mk.injEq] at hl
      obtain ⟨rfl, rfl⟩ := hl
      simp only [Bool.not_eq_true] at hh
      simp [Pc.holds, hinv, hh]
  | getBody k =>
    simp only [lstep, Option.some.injEq, Prod.mk.injEq] at hl
    obtain ⟨rfl, rfl⟩ := hl
    have hh : sh.held = true := hheld rfl
    simp [Pc.holds, get_inv hinv, hh]
  | getRelease r =>
    simp only [lstep, Option.some.injEq, Prod.mk.injEq] at hl
    obtain ⟨rfl, rfl⟩ := hl
    simp [Pc.holds, hinv]
  | setAcquire k v f =>
    simp only [lstep] at hl
    split at hl
    · cases hl
    · rename_i hh
      simp only [Option.some.injEq, Prod.mk.injEq] at hl
      obtain ⟨rfl, rfl⟩ := hl
      simp only [Bool.not_eq_true] at hh
      simp [Pc.holds, hinv, hh]
  | setBody k v f =>
    have hh : sh.held = true := hheld rfl
    simp only [lstep] at hl
    split at hl
    · simp only [Option.some.injEq, Prod.mk.injEq] at hl
      obtain ⟨rfl, rfl⟩ := hl
      simp [Pc.holds, hinv, hh]
    · simp only [Option.some.injEq, Prod.mk.injEq] at hl
      obtain ⟨rfl, rfl⟩ := hl
      simp [Pc.holds, set_inv hb hinv, hh]
  | setRelease =>
    simp only [lstep, Option.some.injEq, Prod.mk.injEq] at hl
    obtain ⟨rfl, rfl⟩ := hl
    simp [Pc.holds, hinv]
  | setFail =>
    simp only [lstep, Option.some.injEq, Prod.mk.injEq] at hl
    obtain ⟨rfl, rfl⟩ := hl
    simp [Pc.holds, hinv]
  | done r x =>
    simp only [lstep, Option.some.injEq, Prod.mk.injEq] at hl
    obtain ⟨rfl, rfl⟩ := hl
    simp [Pc.holds, hinv]

/-- C15c (lock): every step of every thread keeps mutual exclusion, the meaning of the lock bit, and
    the cache invariant — the data is only ever touched by the unique lock holder, one whole
    `get`/`set` at a time. -/
theorem lock_inv_step (MAX CLEAR : Nat) (hb : CLEAR < MAX) (s s' : LSys K V) (i : Nat)
    (h : LockInv MAX s) (hs : lsysStep MAX CLEAR s i = some s') : LockInv MAX s' := by
  unfold lsysStep at hs
  cases hpc : s.pcs[i]? with
  | none => simp [hpc] at hs
  | some pc =>
    simp only [hpc] at hs
    cases hl : lstep MAX CLEAR s.sh pc with
    | none => simp [hl] at hs
    | some q =>
      obtain ⟨sh', pc'⟩ := q
      simp only [hl, Option.some.injEq] at hs
      subst hs
      have hilt : i < s.pcs.length := by
        rcases Nat.lt_or_ge i s.pcs.length with h1 | h1
        · exact h1
        · rw [List.getElem?_eq_none_iff.mpr h1] at hpc; cases hpc
      obtain ⟨k1, k2, k3, k4⟩ := lstep_facts MAX CLEAR hb s.sh sh' pc pc' h.inv
        (fun hx => h.held.mpr ⟨i, pc, hpc, hx⟩) hl
      -- the other threads are unchanged
      have hother : ∀ j pj, j ≠ i → ((s.pcs.set i pc')[j]? = some pj ↔ s.pcs[j]? = some pj) := by
        intro j pj hji
        rw [List.getElem?_set]
        have : ¬ i = j := fun e => hji e.symm
        simp [this]
      have hself : (s.pcs.set i pc')[i]? = some pc' := by
        rw [List.getElem?_set]; simp [hilt]
      refine ⟨?_, ?_, k4⟩
      · -- mutual exclusion
        intro a b pa pb ha hb' hpa hpb
        by_cases hai : a = i
        · by_cases hbi : b = i
          · rw [hai, hbi]
          · subst hai
            rw [hself] at ha; injection ha with ha; subst ha
            have hb2 := (hother b pb hbi).mp hb'
            rcases k1 hpa with hold | hfree
            · exact h.excl _ _ _ _ hpc hb2 hold hpb
            · have : s.sh.held = true := h.held.mpr ⟨b, pb, hb2, hpb⟩
              rw [this] at hfree; cases hfree
        · by_cases hbi : b = i
          · subst hbi
            rw [hself] at hb'; injection hb' with hb'; subst hb'
            have ha2 := (hother a pa hai).mp ha
            rcases k1 hpb with hold | hfree
            · exact h.excl _ _ _ _ ha2 hpc hpa hold
            · have : s.sh.held = true := h.held.mpr ⟨a, pa, ha2, hpa⟩
              rw [this] at hfree; cases hfree
          · exact h.excl _ _ _ _ ((hother a pa hai).mp ha) ((hother b pb hbi).mp hb') hpa hpb
      · -- the lock bit
        show sh'.held = true ↔ _
        constructor
        · intro hh
          cases hx : pc'.holds with
          | true => exact ⟨i, pc', hself, hx⟩
          | false =>
            cases hy : pc.holds with
            | true => rw [k2 (Or.inl hy), hx] at hh; cases hh
            | false =>
              rw [k3 hy hx] at hh
              obtain ⟨j, pj, hj, hpj⟩ := h.held.mp hh
              have hji : j ≠ i := by
                intro e; subst e
                rw [hpc] at hj; injection hj with hj; subst hj
                rw [hy] at hpj; cases hpj
              exact ⟨j, pj, (hother j pj hji).mpr hj, hpj⟩
        · rintro ⟨j, pj, hj, hpj⟩
          by_cases hji : j = i
          · subst hji
            rw [hself] at hj; injection hj with hj; subst hj
            rw [k2 (Or.inr hpj)]; exact hpj
          · have hj2 := (hother j pj hji).mp hj
            have hheld : s.sh.held = true := h.held.mpr ⟨j, pj, hj2, hpj⟩
            have hpcf : pc.holds = false := by
              cases hx : pc.holds with
              | false => rfl
              | true => exact absurd (h.excl _ _ _ _ hpc hj2 hx hpj).symm hji
            have hpcf' : pc'.holds = false := by
              cases hx : pc'.holds with
              | false => rfl
              | true =>
                rcases k1 hx with a | a
                · rw [hpcf] at a; cases a
                · rw [hheld] at a; cases a
            rw [k3 hpcf hpcf']; exact hheld

/-- C15c (no deadlock): in every configuration satisfying the lock invariant in which some thread is
    not finished, some unfinished thread can move. -/
theorem no_deadlock (MAX CLEAR : Nat) (s : LSys K V) (h : LockInv MAX s)
    (hun : ∃ (i : Nat) (pc : Pc K V), s.pcs[i]? = some pc ∧ pc.isDone = false) :
    ∃ (i : Nat) (pc : Pc K V), s.pcs[i]? = some pc ∧ pc.isDone = false ∧ (lsysStep MAX CLEAR s i).isSome = true := by
  cases hh : s.sh.held with
  | true =>
    obtain ⟨j, pj, hj, hpj⟩ := h.held.mp hh
    refine ⟨j, pj, hj, ?_, ?_⟩
    · cases pj <;> simp [Pc.holds, Pc.isDone] at hpj ⊢
    · unfold lsysStep
      simp only [hj]
      cases pj with
      | setBody k v f => cases f <;> simp [lstep]
      | getBody k => simp [lstep]
      | getRelease r => simp [lstep]
      | setRelease => simp [lstep]
      | setFail => simp [lstep]
      | getAcquire k => simp [Pc.holds] at hpj
      | setAcquire k v f => simp [Pc.holds] at hpj
      | done r x => simp [Pc.holds] at hpj
  | false =>
    obtain ⟨i, pc, hi, hpc⟩ := hun
    refine ⟨i, pc, hi, hpc, ?_⟩
    unfold lsysStep
    simp only [hi]
    have hnh : pc.holds = false := by
      cases hx : pc.holds with
      | false => rfl
      | true =>
        have := h.held.mpr ⟨i, pc, hi, hx⟩
        rw [hh] at this; cases this
    cases pc <;> simp [Pc.holds, Pc.isDone] at hnh hpc <;> simp [lstep, hh]

/-- C15c (all exits release): from any program point inside a critical section, the thread's own next
    steps (never blocked) reach `done` with the lock released within two steps — including the
    exception path of `setCachedExpression` and both return paths of `getCachedExpression`. -/
theorem releases_on_all_paths (MAX CLEAR : Nat) (sh : Shared K V) (pc : Pc K V) (hp : pc.holds = true) :
    ∃ sh1 pc1, lstep MAX CLEAR sh pc = some (sh1, pc1) ∧
      ((pc1.isDone = true ∧ sh1.held = false) ∨
       ∃ sh2 pc2, lstep MAX CLEAR sh1 pc1 = some (sh2, pc2) ∧ pc2.isDone = true ∧ sh2.held = false) := by
  cases pc <;> simp [Pc.holds] at hp
  · exact ⟨_, _, rfl, Or.inr ⟨_, _, rfl, rfl, rfl⟩⟩
  · exact ⟨_, _, rfl, Or.inl ⟨rfl, rfl⟩⟩
  · rename_i k v f
    cases f
    · exact ⟨_, _, rfl, Or.inr ⟨_, _, rfl, rfl, rfl⟩⟩
    · exact ⟨_, _, rfl, Or.inr ⟨_, _, rfl, rfl, rfl⟩⟩
  · exact ⟨_, _, rfl, Or.inl ⟨rfl, rfl⟩⟩
  · exact ⟨_, _, rfl, Or.inl ⟨rfl, rfl⟩⟩

/-- C15c (atomicity): one whole critical section of `getCachedExpression`, run without interruption,
    is exactly the model's `get` — and likewise `set`; so "each cache operation is one atomic step"
    is what the lock-level programs implement. -/
theorem get_section_is_get (MAX CLEAR : Nat) (c : State K V) (k : K) :
    ∃ sh1 pc1 sh2 pc2 sh3,
      lstep MAX CLEAR ⟨false, c⟩ (.getAcquire k) = some (sh1, pc1) ∧
      lstep MAX CLEAR sh1 pc1 = some (sh2, pc2) ∧
      lstep MAX CLEAR sh2 pc2 = some (sh3, .done (get c k).2 false) ∧
      sh3.cache = (get c k).1 ∧ sh3.held = false :=
  ⟨_, _, _, _, _, rfl, rfl, rfl, rfl, rfl⟩

theorem set_section_is_set (MAX CLEAR : Nat) (c : State K V) (k : K) (v : V) :
    ∃ sh1 pc1 sh2 pc2 sh3,
      lstep MAX CLEAR ⟨false, c⟩ (.setAcquire k v false) = some (sh1, pc1) ∧
      lstep MAX CLEAR sh1 pc1 = some (sh2, pc2) ∧
      lstep MAX CLEAR sh2 pc2 = some (sh3, .done none false) ∧
      sh3.cache = set MAX CLEAR c k v ∧ sh3.held = false :=
  ⟨_, _, _, _, _, rfl, rfl, rfl, rfl, rfl⟩

end Lock

/-! #### Why the obligation is strict: `CLEAR = MAX` breaks bound and key agreement -/

/-- With `CLEAR = MAX` (here 2/2) `recent[-0:]` is the whole list: three stores leave a recency
    list of length 3 over an empty map — `Inv` fails on both counts.  (Reproduced on the real cache
    with the constants patched; this is why `shipped_bound_ok` demands `CLEAR < MAX`.) -/
theorem clear_eq_max_breaks :
    let s : State Nat Nat := set 2 2 (set 2 2 (set 2 2 State.empty 0 0) 1 1) 2 2
    s.recent = [0, 1, 2] ∧ s.map = [] := by decide

/-! #### Non-vacuity -/

/-- A history with hits, a compile error, an eviction and a re-entry under the bound 3/1:
    the final cache state and all observations, computed by the model. -/
example :
    let compile : Nat → Option Nat := fun e => if e = 9 then none else some e
    let evs : List (Event Nat Nat) := [.query 0 0, .query 1 0, .query 0 0, .query 9 0, .query 2 0, .query 3 0, .query 0 0]
    (run compile id (fun v t => v * 10 + t) 3 1 World.empty evs).map (fun p => (p.1, p.2.recent))
      = [(.result 0, [0]), (.result 10, [0, 1]), (.result 0, [1, 0]), (.compileError, [1, 0]),
         (.result 20, [1, 0, 2]), (.result 30, [2, 3]), (.result 0, [2, 3, 0])] := by decide

example : Function.Injective (id : Nat → Nat) := fun _ _ h => h

end AHP.C15
