/- C15 — property theorems (stub: the property is not claimed yet). -/
namespace AHP.C15
end AHP.C15
