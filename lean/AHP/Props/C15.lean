/-
  C15 — XPath results do not depend on evaluation history, caching or threads.

  Property theorems only.  Model: AHP/Model/Cache.lean (`_cache.py`, `XPathExpression.__init__`, the
  per-thread quantum machine, the lock-level machine with one step per statement of a critical section, whole
  threads on it), AHP/Model/CacheHeap.lean (the sharing of compiled objects).  Helper lemmas and the cache-free
  specification `specStep`/`specRun`: AHP/Lemmas/Cache.lean, AHP/Lemmas/CacheHist.lean; lock level:
  AHP/Lemmas/CacheLock.lean (uninterrupted runs, what a section computes), CacheLockSys.lean (`LockBits`,
  `LockInv`), CacheLockThreads.lean (`Sim`: lock level ⇒ quantum level); heap: AHP/Lemmas/CacheHeap.lean.

  Parameters everywhere: `compile : E → Option V` (the XPath compiler; `none` = raises), `key : E → K`
  (sha1 of the text — injective by assumption), `eval : V → T → R` (evaluation; `R` includes run-time
  errors).  What `eval ∘ compile` *is* is C14; here only that nothing else enters a result.

  Honest scope of "a compiled expression object reused any number of times on any trees": in `Model/Cache.lean`
  a compiled form is a *value* `V` and `eval` a pure function, so `Event.evalSlot` is `eval v t` in the model and
  in the specification alike — reuse-independence holds there BY CONSTRUCTION.  What C15b PROVES is cache
  coherence: whatever is handed out under `key e` — fresh, cached, evicted and re-entered — is `compile e`
  (needs `key` injective, the sha1 assumption).  The object sharing the code really has (the cache stores the
  live object; a hit hands out a shallow copy of its operation list, i.e. the same operation objects) is modelled
  separately in `Model/CacheHeap.lean`; `heap_results_independent_of_history` below shows that this level
  behaves like the value level under the explicit hypothesis `EvalReadsOnly` ("`evaluate` writes neither the
  expression object nor its operations") — an ASSUMPTION on the code of `evaluate`/`applyFunction`, watched by
  the tie (reuse events), not proved — and `writing_evaluation_breaks_independence` that it cannot be dropped.
-/
import AHP.Lemmas.CacheLockThreads
import AHP.Lemmas.CacheHeap
import AHP.Gen.Tables
namespace AHP.C15
open AHP AHP.Cache

section
variable {E K V T R : Type} [DecidableEq K]
variable (compile : E → Option V) (key : E → K) (eval : V → T → R)

/-! #### C15a — the cache invariant, for every bound `MAX > CLEAR` and every history -/

/-- C15a: after every event of every history (compile, evaluate, reuse; valid, invalid and failing
    expressions in any order) the recency list is duplicate-free, the map's keys are exactly the
    recency list, and there are at most `MAX` of them. -/
theorem inv_at_every_point (MAX CLEAR : Nat) (hb : CLEAR < MAX) (evs : List (Event E T)) :
    ∀ p ∈ run compile key eval MAX CLEAR World.empty evs, Inv MAX p.2 :=
  run_inv hb evs World.empty (Inv.empty MAX)

/-- C15a (size bound as the property words it): the map never holds more than `MAX` entries. -/
theorem size_bound (MAX CLEAR : Nat) (hb : CLEAR < MAX) (evs : List (Event E T)) :
    ∀ p ∈ run compile key eval MAX CLEAR World.empty evs,
      (dictKeys p.2.map).length ≤ MAX ∧ p.2.recent.length ≤ MAX := by
  intro p hp
  have h := inv_at_every_point compile key eval MAX CLEAR hb evs p hp
  exact ⟨h.keys_length ▸ h.bound, h.bound⟩

/-- C15a (coherence): whatever the map holds under a key is the compiled form of that expression —
    for every bound, even a broken one. -/
theorem coherent_at_every_point (hinj : Function.Injective key) (MAX CLEAR : Nat) (evs : List (Event E T)) :
    ∀ p ∈ run compile key eval MAX CLEAR World.empty evs, Coh compile key p.2 :=
  run_coh hinj evs World.empty (Coh.empty compile key)

/-- C15a (table obligation): the shipped constants, regenerated from `_cache.py` on every run,
    satisfy the hypothesis of the theorems above. -/
theorem shipped_bound_ok : 1 ≤ Gen.clearAtOneTime ∧ Gen.clearAtOneTime < Gen.maxCachedExpressions := by
  decide

/-- C15a instantiated for the shipped constants. -/
theorem shipped_inv (evs : List (Event E T)) :
    ∀ p ∈ run compile key eval Gen.maxCachedExpressions Gen.clearAtOneTime World.empty evs,
      Inv Gen.maxCachedExpressions p.2 :=
  inv_at_every_point compile key eval _ _ shipped_bound_ok.2 evs

/-- C15a instantiated for the bound the exhaustive correspondence run patches in (3 / evict 1). -/
theorem small_inv (evs : List (Event E T)) :
    ∀ p ∈ run compile key eval 3 1 World.empty evs, Inv 3 p.2 :=
  inv_at_every_point compile key eval 3 1 (by decide) evs

/-! #### C15b — results depend on the expression text and the tree only -/

/-- C15b: in every history, from the empty cache, the observations are those of the cache-free
    specification: a query shows `eval (compile e) t`, a reused object shows `eval` of the form it was
    compiled to, a failing compile shows the failure — whether the compiled form was fresh, taken from
    the cache, evicted and re-entered, and whatever failed in between.  Holds for *every* bound. -/
theorem results_independent_of_history (hinj : Function.Injective key) (MAX CLEAR : Nat)
    (evs : List (Event E T)) :
    (run compile key eval MAX CLEAR World.empty evs).map (·.1) = specRun compile eval [] evs :=
  run_obs_eq_spec hinj evs World.empty (Coh.empty compile key)

/-- C15b, pointwise: after *any* history `h` a query of `e` on `t` shows exactly what it shows on an
    empty cache. -/
theorem query_after_any_history (hinj : Function.Injective key) (MAX CLEAR : Nat)
    (h : List (Event E T)) (e : E) (t : T) :
    (step compile key eval MAX CLEAR (exec compile key eval MAX CLEAR World.empty h) (.query e t)).2
      = (step compile key eval MAX CLEAR World.empty (.query e t)).2 := by
  have hc := @exec_coh E K V T R _ compile key eval MAX CLEAR hinj h World.empty (Coh.empty compile key)
  have h1 := (@step_spec E K V T R _ compile key eval MAX CLEAR hinj _ hc (.query e t)).2
  have h2 := (@step_spec E K V T R _ compile key eval MAX CLEAR hinj World.empty (Coh.empty compile key) (.query e t)).2
  have a := congrArg Prod.snd h1
  have b := congrArg Prod.snd h2
  simp only [specStep] at a b
  rw [a, b]
  cases compile e <;> rfl

/-- C15b for two histories: the same query gives the same answer at the end of any two histories. -/
theorem query_same_in_any_two_histories (hinj : Function.Injective key) (MAX CLEAR : Nat)
    (h₁ h₂ : List (Event E T)) (e : E) (t : T) :
    (step compile key eval MAX CLEAR (exec compile key eval MAX CLEAR World.empty h₁) (.query e t)).2
      = (step compile key eval MAX CLEAR (exec compile key eval MAX CLEAR World.empty h₂) (.query e t)).2 := by
  rw [query_after_any_history compile key eval hinj, query_after_any_history compile key eval hinj]

/-! #### C15c — schedules -/

/-- The invariant of a system of threads: cache invariant and coherence, and every thread is on track
    for its solo specification. -/
structure SysOK (MAX : Nat) (evss : List (List (Event E T))) (s : Sys E K V T R) : Prop where
  inv : Inv MAX s.cache
  coh : Coh compile key s.cache
  len : s.threads.length = evss.length
  thr : ∀ i th, s.threads[i]? = some th → ThreadOK compile eval th (specRun compile eval [] (evss.getD i []))

theorem sysOK_init (MAX : Nat) (evss : List (List (Event E T))) :
    SysOK compile key eval MAX evss (Sys.init evss : Sys E K V T R) := by
  refine ⟨Inv.empty MAX, Coh.empty compile key, by simp [Sys.init], ?_⟩
  intro i th h
  simp only [Sys.init, List.getElem?_map] at h
  cases hi : evss[i]? with
  | none => simp [hi] at h
  | some evs =>
    simp only [hi, Option.map_some, Option.some.injEq] at h
    subst h
    have : evss.getD i [] = evs := by simp [List.getD, hi]
    rw [this]
    exact ThreadOK.init evs

theorem sysOK_step (hinj : Function.Injective key) (MAX CLEAR : Nat) (hb : CLEAR < MAX)
    (evss : List (List (Event E T))) (s : Sys E K V T R) (h : SysOK compile key eval MAX evss s) (i : Nat) :
    SysOK compile key eval MAX evss (sysStep compile key eval MAX CLEAR s i) := by
  unfold sysStep
  cases hth : s.threads[i]? with
  | none => exact h
  | some th =>
    simp only
    have hok := h.thr i th hth
    have ⟨h1, h2⟩ := tstep_ok (compile := compile) (key := key) (eval := eval) (MAX := MAX) (CLEAR := CLEAR) hinj h.coh hok
    have h3 := tstep_inv (compile := compile) (key := key) (eval := eval) (MAX := MAX) (CLEAR := CLEAR) hb th h.inv
    generalize tstep compile key eval MAX CLEAR s.cache th = p at *
    obtain ⟨c, th'⟩ := p
    refine ⟨h3, h1, by simp [h.len], ?_⟩
    intro j tj hj
    simp only at hj
    rw [List.getElem?_set] at hj
    split at hj
    · rename_i hij
      subst hij
      split at hj
      · injection hj with hj; subst hj; exact h2
      · cases hj
    · exact h.thr j tj hj

/-- C15c: for every number of threads, every event list per thread and every schedule, at every
    point of the schedule: the cache invariant and coherence hold, and every thread has observed
    exactly a prefix of its solo specification — with `query_after_any_history`, what it gets alone. -/
theorem every_schedule (hinj : Function.Injective key) (MAX CLEAR : Nat) (hb : CLEAR < MAX)
    (evss : List (List (Event E T))) (sched : List Nat) :
    SysOK compile key eval MAX evss (sysRun compile key eval MAX CLEAR (Sys.init evss) sched) := by
  unfold sysRun
  suffices ∀ s, SysOK compile key eval MAX evss s →
      SysOK compile key eval MAX evss (sched.foldl (sysStep compile key eval MAX CLEAR) s) from
    this _ (sysOK_init compile key eval MAX evss)
  induction sched with
  | nil => intro s h; exact h
  | cons i rest ih =>
    intro s h
    exact ih _ (sysOK_step compile key eval hinj MAX CLEAR hb evss s h i)

/-- C15c (results): a thread that has finished under any schedule has observed exactly its solo results. -/
theorem finished_thread_solo_results (hinj : Function.Injective key) (MAX CLEAR : Nat) (hb : CLEAR < MAX)
    (evss : List (List (Event E T))) (sched : List Nat) (i : Nat) (th : Thread E V T R)
    (hth : (sysRun compile key eval MAX CLEAR (Sys.init evss) sched).threads[i]? = some th)
    (hdone : th.todo = []) :
    th.obs = specRun compile eval [] (evss.getD i []) := by
  have h := (every_schedule compile key eval hinj MAX CLEAR hb evss sched).thr i th hth
  have := h.obs
  rw [hdone] at this
  simpa [specRun] using this

/-- C15c (no step blocks, every schedule runs to completion): an unfinished thread can always take its
    quantum, and the quantum strictly decreases what it has left (at most two quanta per event). -/
theorem unfinished_thread_progresses (hinj : Function.Injective key) (MAX CLEAR : Nat) (hb : CLEAR < MAX)
    (evss : List (List (Event E T))) (sched : List Nat) (i : Nat) (th : Thread E V T R)
    (hth : (sysRun compile key eval MAX CLEAR (Sys.init evss) sched).threads[i]? = some th)
    (hne : th.todo ≠ []) (c : State K V) :
    (tstep compile key eval MAX CLEAR c th).2.measure < th.measure :=
  tstep_measure ((every_schedule compile key eval hinj MAX CLEAR hb evss sched).thr i th hth) hne

end

/-! #### C15b on shared objects — what "reused any number of times" needs -/

section Heap
variable {E K O T R : Type} [DecidableEq K]
variable (compile : E → Option (List O)) (key : E → K)

/-- C15b on the heap of shared objects (cache holds the live object, hits hand out shallow copies sharing
    the operation objects, held objects are evaluated again and again): **if evaluation only reads**
    (`EvalReadsOnly`), every history shows exactly what the value model shows … -/
theorem heap_run_is_value_run (evalH : Heap O → Nat → T → Heap O × R) (eval : List O → T → R)
    (hro : EvalReadsOnly evalH eval) (MAX CLEAR : Nat) (evs : List (Event E T)) :
    hrun compile key evalH MAX CLEAR HWorld.empty evs
      = (run compile key eval MAX CLEAR World.empty evs).map (·.1) :=
  hrun_eq_run compile key MAX CLEAR evalH eval hro evs HWorld.empty HWorld.OK.empty

/-- … hence the cache-free specification: results depend on the expression text and the tree only, also
    for objects reused any number of times on any trees and for copies sharing operations with the cached
    object.  The hypothesis `hro` is the assumption on `evaluate`; it enters in `hstep_spec`, evaluation cases. -/
theorem heap_results_independent_of_history (evalH : Heap O → Nat → T → Heap O × R) (eval : List O → T → R)
    (hro : EvalReadsOnly evalH eval) (hinj : Function.Injective key) (MAX CLEAR : Nat) (evs : List (Event E T)) :
    hrun compile key evalH MAX CLEAR HWorld.empty evs = specRun compile eval [] evs := by
  rw [heap_run_is_value_run compile key evalH eval hro]
  exact results_independent_of_history compile key eval hinj MAX CLEAR evs

end Heap

/-- An evaluation that writes: it returns the sum of the object's operations and bumps the first of them
    (think of an operation object keeping a counter, or a memo, in itself). -/
def writingEval (h : Heap Nat) (x : Nat) (_t : Nat) : Heap Nat × Nat :=
  let addrs := h.exprs.getD x []
  (⟨match addrs with
     | a :: _ => h.ops.set a (h.ops.getD a 0 + 1)
     | [] => h.ops, h.exprs⟩,
   (h.deref x).foldl (· + ·) 0)

/-- Why `EvalReadsOnly` cannot be dropped: with `writingEval` the object held in slot 0 shows `1` when
    evaluated right away and `2` when, in between, the *same text* was queried once — the query got a
    shallow copy of the cached live object (= the held one), evaluated it, and wrote through the shared
    operation object.  A result then depends on the history, not only on text and tree. -/
theorem writing_evaluation_breaks_independence :
    let compile : Nat → Option (List Nat) := fun e => some [e, 1]
    hrun compile id writingEval 3 1 HWorld.empty [.new 0, .evalSlot 0 0] = [.compiled, .result 1] ∧
    hrun compile id writingEval 3 1 HWorld.empty [.new 0, .query 0 0, .evalSlot 0 0]
      = [.compiled, .result 1, .result 2] := by
  decide

/-- Non-vacuity of `EvalReadsOnly`: the reading evaluation (sum of the operations, heap untouched). -/
example : EvalReadsOnly (fun (h : Heap Nat) x (_ : Nat) => (h, (h.deref x).foldl (· + ·) 0))
    (fun v _ => v.foldl (· + ·) 0) := ⟨fun _ _ _ => rfl, fun _ _ _ => rfl⟩

/-- … and a heap history with a miss, a hit (shallow copy), reuse and a compile error under it. -/
example :
    let compile : Nat → Option (List Nat) := fun e => if e = 9 then none else some [e, 1]
    hrun compile id (fun (h : Heap Nat) x (_ : Nat) => (h, (h.deref x).foldl (· + ·) 0)) 3 1 HWorld.empty
      [.new 0, .query 0 0, .evalSlot 0 0, .query 9 0, .new 0, .evalSlot 1 5, .evalSlot 7 0]
      = [.compiled, .result 1, .result 1, .compileError, .compiled, .result 1, .noSlot] := by
  decide


/-! #### C15c, lock level — the critical sections, statement by statement

  Machine: `lstep` (`Model/Cache.lean`), one step per statement between `acquire` and `release`, all of them
  reading and writing the *shared* cache.  `LSys`/`lsysStep`: threads each performing one cache operation
  (incl. a failing store).  `LTSys`/`ltStep`: whole threads working through their event lists.
  Invariants and the simulation: `Lemmas/CacheLockSys.lean`, `Lemmas/CacheLockThreads.lean`. -/

section Lock
variable {K V : Type} [DecidableEq K]

/-- C15c (lock): every step of every thread keeps mutual exclusion, the meaning of the lock bit, the cache
    invariant *whenever the lock is free*, and "the thread inside will, by its own statements alone, restore
    the invariant and free the lock".  (Inside a section the cache invariant is broken in general —
    `mid_section_breaks_inv` — which is what the lock is for.) -/
theorem lock_inv_step (MAX CLEAR : Nat) (hb : CLEAR < MAX) (s s' : LSys K V) (i : Nat)
    (h : LockInv MAX CLEAR s) (hs : lsysStep MAX CLEAR s i = some s') : LockInv MAX CLEAR s' :=
  lockInv_step hb h hs

/-- C15c (lock, initial configurations): any number of threads about to call `getCachedExpression` /
    `setCachedExpression` (or already returned), lock free, cache in order. -/
theorem lock_inv_initial (MAX CLEAR : Nat) (s : LSys K V) (hfree : s.sh.held = false) (hi : Inv MAX s.sh.cache)
    (hout : ∀ pc ∈ s.pcs, pc.holds = false) : LockInv MAX CLEAR s :=
  lockInv_init hfree hi hout

/-- C15c (lock, every reachable configuration of cache operations): `LockInv` — mutual exclusion included —
    holds after every schedule (picks of blocked threads are wasted quanta). -/
theorem lock_inv_every_run (MAX CLEAR : Nat) (hb : CLEAR < MAX) (s : LSys K V) (hfree : s.sh.held = false)
    (hi : Inv MAX s.sh.cache) (hout : ∀ pc ∈ s.pcs, pc.holds = false) (sched : List Nat) :
    LockInv MAX CLEAR (lsysRun MAX CLEAR s sched) :=
  lockInv_run hb sched s (lockInv_init hfree hi hout)

/-- C15c (the lock bit is checked, and the check never fails): a thread inside a section on a configuration
    satisfying the invariant always finds the lock held — it is never blocked. -/
theorem holder_never_blocked (MAX CLEAR : Nat) (s : LSys K V) (h : LockInv MAX CLEAR s) (i : Nat) (pc : Pc K V)
    (hpc : s.pcs[i]? = some pc) (hh : pc.holds = true) : (lsysStep MAX CLEAR s i).isSome = true := by
  have hheld : s.sh.held = true := h.held.mpr ⟨i, pc, hpc, hh⟩
  have := lstep_isSome_of_holds MAX CLEAR hh hheld
  unfold lsysStep lsysStepG
  simp only [hpc]
  unfold lstep at this
  cases hl : lstepG true MAX CLEAR s.sh pc with
  | none => rw [hl] at this; cases this
  | some q => rfl

/-- C15c (`acquire` blocks): a thread about to acquire cannot move while another one is inside. -/
theorem acquire_blocks_while_held (MAX CLEAR : Nat) (s : LSys K V) (i : Nat) (pc : Pc K V)
    (hpc : s.pcs[i]? = some pc) (hh : pc.holds = false) (hd : pc.isDone = false) (hheld : s.sh.held = true) :
    lsysStep MAX CLEAR s i = none := by
  have := lstep_blocked MAX CLEAR hh hd hheld
  unfold lsysStep lsysStepG
  unfold lstep at this
  simp only [hpc, this]

/-- C15c (no deadlock): in every configuration satisfying the lock invariant in which some thread is
    not finished, some unfinished thread can move. -/
theorem no_deadlock (MAX CLEAR : Nat) (s : LSys K V) (h : LockInv MAX CLEAR s)
    (hun : ∃ (i : Nat) (pc : Pc K V), s.pcs[i]? = some pc ∧ pc.isDone = false) :
    ∃ (i : Nat) (pc : Pc K V), s.pcs[i]? = some pc ∧ pc.isDone = false ∧ (lsysStep MAX CLEAR s i).isSome = true := by
  cases hh : s.sh.held with
  | true =>
    obtain ⟨j, pj, hj, hpj⟩ := h.held.mp hh
    exact ⟨j, pj, hj, Pc.not_done_of_holds hpj, holder_never_blocked MAX CLEAR s h j pj hj hpj⟩
  | false =>
    obtain ⟨i, pc, hi, hpc⟩ := hun
    refine ⟨i, pc, hi, hpc, ?_⟩
    have hnh : pc.holds = false := by
      cases hx : pc.holds with
      | false => rfl
      | true =>
        have := h.held.mpr ⟨i, pc, hi, hx⟩
        rw [hh] at this; cases this
    have := lstep_isSome_of_free MAX CLEAR hnh hh
    unfold lsysStep lsysStepG
    simp only [hi]
    unfold lstep at this
    cases hl : lstepG true MAX CLEAR s.sh pc with
    | none => rw [hl] at this; cases this
    | some q => rfl

/-- C15c (no deadlock, unconditionally): after every schedule from an initial configuration. -/
theorem no_deadlock_every_run (MAX CLEAR : Nat) (hb : CLEAR < MAX) (s : LSys K V) (hfree : s.sh.held = false)
    (hi : Inv MAX s.sh.cache) (hout : ∀ pc ∈ s.pcs, pc.holds = false) (sched : List Nat)
    (hun : ∃ (i : Nat) (pc : Pc K V), (lsysRun MAX CLEAR s sched).pcs[i]? = some pc ∧ pc.isDone = false) :
    ∃ (i : Nat) (pc : Pc K V), (lsysRun MAX CLEAR s sched).pcs[i]? = some pc ∧ pc.isDone = false ∧
      (lsysStep MAX CLEAR (lsysRun MAX CLEAR s sched) i).isSome = true :=
  no_deadlock MAX CLEAR _ (lock_inv_every_run MAX CLEAR hb s hfree hi hout sched) hun

/-- C15c (all exits release): from *any* program point inside a critical section and *any* state of the
    shared data, the thread's own next statements (never blocked while the lock is held) reach the return
    of the method with the lock released — through the loops, both return paths of `getCachedExpression`
    and the normal and the exception exit of `setCachedExpression`.  (The former machine needed two steps;
    here the number of statements depends on the data, so the statement is "finitely many".) -/
theorem releases_on_all_paths (MAX CLEAR : Nat) (sh : Shared K V) (hheld : sh.held = true) (pc : Pc K V)
    (hp : pc.holds = true) :
    ∃ n sh' r x, lsteps MAX CLEAR n sh pc = some (sh', .done r x) ∧ sh'.held = false := by
  obtain ⟨c', r, x, hruns⟩ := exits_of_holds MAX CLEAR sh.cache hp
  have hsh : sh = ⟨true, sh.cache⟩ := by cases sh; simp_all
  rw [← hsh] at hruns
  obtain ⟨n, hn⟩ := runs_iff_lsteps.mp hruns
  exact ⟨n, _, r, x, hn, rfl⟩

/-- C15c (the exception path): a store whose body raises releases the lock, re-raises and leaves the cache
    as it was. -/
theorem failing_store_releases (MAX CLEAR : Nat) (c : State K V) (k : K) (v : V) :
    lsteps MAX CLEAR 3 ⟨false, c⟩ (.setAcquire k v true) = some (⟨false, c⟩, .done none true) := by
  rfl

/-- C15c (atomicity, derived): one whole critical section of `getCachedExpression`, run statement by
    statement without interruption from any cache `c`, is exactly the model's `get` — and likewise `set`.
    With `lock_level_refines_quantum` below: *every* section of *every* interleaved run is uninterrupted
    in this sense, because nobody else can write in between. -/
theorem get_section_is_get (MAX CLEAR : Nat) (c : State K V) (k : K) :
    ∃ n, lsteps MAX CLEAR n ⟨false, c⟩ (.getAcquire k) = some (⟨false, (get c k).1⟩, .done (get c k).2 false) :=
  runs_iff_lsteps.mp (get_section_runs MAX CLEAR c k)

theorem set_section_is_set (MAX CLEAR : Nat) (c : State K V) (k : K) (v : V) :
    ∃ n, lsteps MAX CLEAR n ⟨false, c⟩ (.setAcquire k v false) = some (⟨false, set MAX CLEAR c k v⟩, .done none false) :=
  runs_iff_lsteps.mp (set_section_runs MAX CLEAR c k v)

end Lock

/-! #### C15c, lock level — whole threads: the lock-level machine refines the quantum machine -/

section LockThreads
variable {E K V T R : Type} [DecidableEq K]
variable (compile : E → Option V) (key : E → K) (eval : V → T → R)

/-- C15c (refinement): for every number of threads, every event list per thread and every lock-level
    schedule (one *statement* per pick; picks of blocked threads are wasted), the configuration reached is
    the configuration the quantum machine reaches under the schedule projected at the release points
    (`ltProject`: the picks that were a `release` or a thread-local evaluation), seen through `Sim`:
    the threads are the quantum machine's threads, the cache is the quantum machine's cache whenever the
    lock is free, and the thread inside a section is, by its own remaining statements, about to turn the
    shared cache into exactly `tstep` of the cache as it was when it acquired — each completed critical
    section = exactly `get` / `set` on the state at its `acquire`, because nobody else can write in
    between (`LockBits.other_outside` is where mutual exclusion enters the proof). -/
theorem lock_level_refines_quantum (MAX CLEAR : Nat) (evss : List (List (Event E T))) (sched : List Nat) :
    Sim compile key eval MAX CLEAR
      (ltRun compile key eval MAX CLEAR (LTSys.init evss) sched)
      (sysRun compile key eval MAX CLEAR (Sys.init evss)
        (ltProject compile key eval MAX CLEAR (LTSys.init evss : LTSys E K V T R) sched)) :=
  (sim_run compile key eval MAX CLEAR sched _ _ (bits_init evss) (sim_init compile key eval MAX CLEAR evss)).2

/-- The refinement, spelled out for the two things one observes: the threads and the cache. -/
theorem lock_level_threads_and_cache (MAX CLEAR : Nat) (evss : List (List (Event E T))) (sched : List Nat) :
    let s := ltRun compile key eval MAX CLEAR (LTSys.init evss : LTSys E K V T R) sched
    let q := sysRun compile key eval MAX CLEAR (Sys.init evss)
      (ltProject compile key eval MAX CLEAR (LTSys.init evss : LTSys E K V T R) sched)
    q.threads = s.threads.map (LThread.abs compile eval) ∧ (s.sh.held = false → s.sh.cache = q.cache) :=
  let h := lock_level_refines_quantum compile key eval MAX CLEAR evss sched
  ⟨h.threads, h.free⟩

/-- C15c (lock): mutual exclusion and the meaning of the lock bit in every reachable configuration of
    whole threads. -/
theorem mutual_exclusion_reachable (MAX CLEAR : Nat) (evss : List (List (Event E T))) (sched : List Nat) :
    let s := ltRun compile key eval MAX CLEAR (LTSys.init evss : LTSys E K V T R) sched
    LockBits s.sh.held s.pcs :=
  (sim_run compile key eval MAX CLEAR sched _ _ (bits_init evss) (sim_init compile key eval MAX CLEAR evss)).1

/-- C15c (lock): `LockInv` holds initially and in every reachable configuration — mutual exclusion, the
    lock bit, the cache invariant at every release point, and the thread inside restores it. -/
theorem lock_inv_reachable (MAX CLEAR : Nat) (hb : CLEAR < MAX) (evss : List (List (Event E T))) (sched : List Nat) :
    LockInv MAX CLEAR (ltRun compile key eval MAX CLEAR (LTSys.init evss : LTSys E K V T R) sched).toLSys := by
  have hbits := mutual_exclusion_reachable compile key eval MAX CLEAR evss sched
  have hsim := lock_level_refines_quantum compile key eval MAX CLEAR evss sched
  have hinv := sysRun_inv compile key eval MAX CLEAR hb
    (ltProject compile key eval MAX CLEAR (LTSys.init evss : LTSys E K V T R) sched) (Sys.init evss) (Inv.empty MAX)
  generalize ltRun compile key eval MAX CLEAR (LTSys.init evss : LTSys E K V T R) sched = s at *
  generalize sysRun compile key eval MAX CLEAR (Sys.init evss) _ = q at *
  refine ⟨hbits.excl, hbits.held, ?_, ?_⟩
  · intro hfree
    show Inv MAX s.sh.cache
    rw [hsim.free hfree]; exact hinv
  · intro i pc hpc hh
    have hpc' : s.pcs[i]? = some pc := hpc
    simp only [LTSys.pcs, List.getElem?_map] at hpc'
    cases hlt : s.threads[i]? with
    | none => simp [hlt] at hpc'
    | some lt =>
      simp only [hlt, Option.map_some, Option.some.injEq] at hpc'
      cases hp : lt.pc with
      | none => rw [hp] at hpc'; simp only [Option.getD_none] at hpc'; rw [← hpc'] at hh; cases hh
      | some p =>
        rw [hp] at hpc'; simp only [Option.getD_some] at hpc'; subst hpc'
        obtain ⟨r, x, hruns, _⟩ := hsim.mid i lt p hlt hp hh
        exact ⟨_, r, x, tstep_inv hb lt.th hinv, hruns⟩

/-- C15a at the lock level: the cache bound (and the whole invariant) holds at every release point of
    every run — i.e. whenever the lock is free. -/
theorem bound_at_release_points (MAX CLEAR : Nat) (hb : CLEAR < MAX) (evss : List (List (Event E T))) (sched : List Nat) :
    let s := ltRun compile key eval MAX CLEAR (LTSys.init evss : LTSys E K V T R) sched
    s.sh.held = false →
      Inv MAX s.sh.cache ∧ (dictKeys s.sh.cache.map).length ≤ MAX ∧ s.sh.cache.recent.length ≤ MAX := by
  intro s hfree
  have h := (lock_inv_reachable compile key eval MAX CLEAR hb evss sched).free hfree
  exact ⟨h, h.keys_length ▸ h.bound, h.bound⟩

/-- C15c (results at the lock level): under every statement-level schedule, at every point, what a thread
    has observed so far is a prefix of its solo results (`ThreadOK` of its quantum-level view); -/
theorem lock_level_every_point (hinj : Function.Injective key) (MAX CLEAR : Nat) (hb : CLEAR < MAX)
    (evss : List (List (Event E T))) (sched : List Nat) (i : Nat) (lt : LThread E K V T R)
    (hlt : (ltRun compile key eval MAX CLEAR (LTSys.init evss) sched).threads[i]? = some lt) :
    ThreadOK compile eval (lt.abs compile eval) (specRun compile eval [] (evss.getD i [])) := by
  have hsim := lock_level_refines_quantum compile key eval MAX CLEAR evss sched
  have hok := every_schedule compile key eval hinj MAX CLEAR hb evss
    (ltProject compile key eval MAX CLEAR (LTSys.init evss : LTSys E K V T R) sched)
  apply hok.thr i
  rw [hsim.threads]
  simp [List.getElem?_map, hlt]

/-- C15c (results at the lock level): a lock-level thread that has finished under any statement-level
    schedule has observed exactly its solo results.  Composes `lock_level_refines_quantum` with
    `finished_thread_solo_results`. -/
theorem lock_level_solo_results (hinj : Function.Injective key) (MAX CLEAR : Nat) (hb : CLEAR < MAX)
    (evss : List (List (Event E T))) (sched : List Nat) (i : Nat) (lt : LThread E K V T R)
    (hlt : (ltRun compile key eval MAX CLEAR (LTSys.init evss) sched).threads[i]? = some lt)
    (hpc : lt.pc = none) (hdone : lt.th.todo = []) :
    lt.th.obs = specRun compile eval [] (evss.getD i []) := by
  have hsim := lock_level_refines_quantum compile key eval MAX CLEAR evss sched
  have habs : lt.abs compile eval = lt.th := by unfold LThread.abs; rw [hpc]
  apply finished_thread_solo_results compile key eval hinj MAX CLEAR hb evss
    (ltProject compile key eval MAX CLEAR (LTSys.init evss : LTSys E K V T R) sched) i lt.th _ hdone
  rw [hsim.threads]
  simp [List.getElem?_map, hlt, habs]

/-- C15c (no deadlock, unconditionally, whole threads): in every reachable configuration in which some
    thread is not finished, some unfinished thread can take its next statement. -/
theorem no_deadlock_reachable (MAX CLEAR : Nat) (evss : List (List (Event E T))) (sched : List Nat)
    (hun : ∃ (i : Nat) (lt : LThread E K V T R),
      (ltRun compile key eval MAX CLEAR (LTSys.init evss) sched).threads[i]? = some lt ∧ lt.finished = false) :
    ∃ (i : Nat) (lt : LThread E K V T R),
      (ltRun compile key eval MAX CLEAR (LTSys.init evss) sched).threads[i]? = some lt ∧ lt.finished = false ∧
      (ltStep compile key eval MAX CLEAR (ltRun compile key eval MAX CLEAR (LTSys.init evss) sched) i).isSome = true := by
  have hbits := mutual_exclusion_reachable compile key eval MAX CLEAR evss sched
  generalize ltRun compile key eval MAX CLEAR (LTSys.init evss : LTSys E K V T R) sched = s at *
  simp only at hbits
  cases hh : s.sh.held with
  | true =>
    obtain ⟨j, pj, hj, hpj⟩ := hbits.held.mp hh
    simp only [LTSys.pcs, List.getElem?_map] at hj
    cases hlt : s.threads[j]? with
    | none => simp [hlt] at hj
    | some lt =>
      simp only [hlt, Option.map_some, Option.some.injEq] at hj
      obtain ⟨th, pc⟩ := lt
      cases pc with
      | none => simp only [Option.getD_none] at hj; rw [← hj] at hpj; cases hpj
      | some p =>
        simp only [Option.getD_some] at hj; subst hj
        exact ⟨j, _, hlt, rfl, ltStep_isSome_sect compile key eval MAX CLEAR hlt (lstep_isSome_of_holds MAX CLEAR hpj hh)⟩
  | false =>
    obtain ⟨i, lt, hlt, hfin⟩ := hun
    refine ⟨i, lt, hlt, hfin, ?_⟩
    obtain ⟨th, pc⟩ := lt
    cases pc with
    | none => exact ltStep_isSome_between compile key eval MAX CLEAR hlt
    | some p =>
      have hnh : p.holds = false := by
        cases hx : p.holds with
        | false => rfl
        | true =>
          have := hbits.held.mpr ⟨i, p, by simp [LTSys.pcs, List.getElem?_map, hlt], hx⟩
          rw [hh] at this; cases this
      exact ltStep_isSome_sect compile key eval MAX CLEAR hlt (lstep_isSome_of_free MAX CLEAR hnh hh)

end LockThreads

/-! #### The lock has content in the model -/

/-- Inside a section the cache invariant is broken: after the `remove` of a hit and before the `append`,
    the map holds a key the recency list does not.  Nobody else may look — that is what the lock is for. -/
theorem mid_section_breaks_inv :
    let s0 : LSys Nat Nat := ⟨⟨false, ⟨[(7, 1)], [7]⟩⟩, [.getAcquire 7]⟩
    let s := lsysRun 3 1 s0 [0, 0, 0]
    s.pcs = [.getRemove 7 1] ∧ s.sh.held = true ∧ s.sh.cache.recent = [] ∧ dictKeys s.sh.cache.map = [7] := by
  decide

/-- Counter-model: the *same* machine without the tests of `held` (`lstepG false`: `acquire` never blocks).
    Two threads store the same expression; interleaved so that both finish their remove loop before either
    appends, they leave the key twice in the recency list — the invariant is broken at a point where both
    have returned and the "lock" is free.  With the lock (`lsysRun`), the same picks give `[7]`. -/
theorem without_lock_invariant_breaks :
    let s0 : LSys Nat Nat := ⟨⟨false, State.empty⟩, [.setAcquire 7 1 false, .setAcquire 7 1 false]⟩
    let sched := [0, 0, 0, 1, 1, 1, 0, 1, 0, 1, 0, 1, 1, 1, 1, 1, 1, 1]
    let bad := lsysRunG false 3 1 s0 sched
    let good := lsysRun 3 1 s0 sched
    (bad.pcs = [.done none false, .done none false] ∧ bad.sh.held = false ∧ bad.sh.cache.recent = [7, 7]
      ∧ ¬ bad.sh.cache.recent.Nodup) ∧
    (good.pcs = [.done none false, .done none false] ∧ good.sh.held = false ∧ good.sh.cache.recent = [7]) := by
  decide

/-! #### The former lock-level statements, about the one-step machine `lstepA` (kept, superseded)

  These are the theorems this file stated before the critical sections were split into statements.  In
  `lstepA` a whole `get`/`set` is one step taken whatever `held` is, so they say nothing about what the
  lock protects (review B, H4); they are kept unchanged (only the names of the machine's types carry an
  `A`) and are superseded by the section above. -/

namespace Atomic
section Lock
variable {K V : Type} [DecidableEq K]

/-- A lock-level configuration: the shared cell and one program point per thread. -/
structure LSysA (K V : Type) where
  sh : Shared K V
  pcs : List (PcA K V)

/-- Thread `i` moves; `none` = it is blocked on `acquire` (or does not exist). -/
def lsysStepA (MAX CLEAR : Nat) (s : LSysA K V) (i : Nat) : Option (LSysA K V) :=
  match s.pcs[i]? with
  | none => none
  | some pc =>
    match lstepA MAX CLEAR s.sh pc with
    | none => none
    | some (sh', pc') => some ⟨sh', s.pcs.set i pc'⟩

/-- Mutual exclusion + the lock bit says whether somebody is inside + the data invariant. -/
structure LockInvA (MAX : Nat) (s : LSysA K V) : Prop where
  excl : ∀ (i j : Nat) (pi pj : PcA K V), s.pcs[i]? = some pi → s.pcs[j]? = some pj → pi.holds = true → pj.holds = true → i = j
  held : s.sh.held = true ↔ ∃ (i : Nat) (pc : PcA K V), s.pcs[i]? = some pc ∧ pc.holds = true
  inv : Inv MAX s.sh.cache

/-- Facts about one lock-level step of one thread. -/
theorem lstep_facts (MAX CLEAR : Nat) (hb : CLEAR < MAX) (sh sh' : Shared K V) (pc pc' : PcA K V)
    (hinv : Inv MAX sh.cache) (hheld : pc.holds = true → sh.held = true)
    (hl : lstepA MAX CLEAR sh pc = some (sh', pc')) :
    (pc'.holds = true → (pc.holds = true ∨ sh.held = false)) ∧
    ((pc.holds = true ∨ pc'.holds = true) → sh'.held = pc'.holds) ∧
    (pc.holds = false → pc'.holds = false → sh'.held = sh.held) ∧
    Inv MAX sh'.cache := by
  cases pc with
  | getAcquire k =>
    simp only [lstepA] at hl
    split at hl
    · cases hl
    · rename_i hh
      simp only [Option.some.injEq, Prod.mk.injEq] at hl
      obtain ⟨rfl, rfl⟩ := hl
      simp only [Bool.not_eq_true] at hh
      simp [PcA.holds, hinv, hh]
  | getBody k =>
    simp only [lstepA, Option.some.injEq, Prod.mk.injEq] at hl
    obtain ⟨rfl, rfl⟩ := hl
    have hh : sh.held = true := hheld rfl
    simp [PcA.holds, get_inv hinv, hh]
  | getRelease r =>
    simp only [lstepA, Option.some.injEq, Prod.mk.injEq] at hl
    obtain ⟨rfl, rfl⟩ := hl
    simp [PcA.holds, hinv]
  | setAcquire k v f =>
    simp only [lstepA] at hl
    split at hl
    · cases hl
    · rename_i hh
      simp only [Option.some.injEq, Prod.mk.injEq] at hl
      obtain ⟨rfl, rfl⟩ := hl
      simp only [Bool.not_eq_true] at hh
      simp [PcA.holds, hinv, hh]
  | setBody k v f =>
    have hh : sh.held = true := hheld rfl
    simp only [lstepA] at hl
    split at hl
    · simp only [Option.some.injEq, Prod.mk.injEq] at hl
      obtain ⟨rfl, rfl⟩ := hl
      simp [PcA.holds, hinv, hh]
    · simp only [Option.some.injEq, Prod.mk.injEq] at hl
      obtain ⟨rfl, rfl⟩ := hl
      simp [PcA.holds, set_inv hb hinv, hh]
  | setRelease =>
    simp only [lstepA, Option.some.injEq, Prod.mk.injEq] at hl
    obtain ⟨rfl, rfl⟩ := hl
    simp [PcA.holds, hinv]
  | setFail =>
    simp only [lstepA, Option.some.injEq, Prod.mk.injEq] at hl
    obtain ⟨rfl, rfl⟩ := hl
    simp [PcA.holds, hinv]
  | done r x =>
    simp only [lstepA, Option.some.injEq, Prod.mk.injEq] at hl
    obtain ⟨rfl, rfl⟩ := hl
    simp [PcA.holds, hinv]

/-- C15c (lock): every step of every thread keeps mutual exclusion, the meaning of the lock bit, and
    the cache invariant — the data is only ever touched by the unique lock holder, one whole
    `get`/`set` at a time. -/
theorem lock_inv_step (MAX CLEAR : Nat) (hb : CLEAR < MAX) (s s' : LSysA K V) (i : Nat)
    (h : LockInvA MAX s) (hs : lsysStepA MAX CLEAR s i = some s') : LockInvA MAX s' := by
  unfold lsysStepA at hs
  cases hpc : s.pcs[i]? with
  | none => simp [hpc] at hs
  | some pc =>
    simp only [hpc] at hs
    cases hl : lstepA MAX CLEAR s.sh pc with
    | none => simp [hl] at hs
    | some q =>
      obtain ⟨sh', pc'⟩ := q
      simp only [hl, Option.some.injEq] at hs
      subst hs
      have hilt : i < s.pcs.length := by
        rcases Nat.lt_or_ge i s.pcs.length with h1 | h1
        · exact h1
        · rw [List.getElem?_eq_none_iff.mpr h1] at hpc; cases hpc
      obtain ⟨k1, k2, k3, k4⟩ := lstep_facts MAX CLEAR hb s.sh sh' pc pc' h.inv
        (fun hx => h.held.mpr ⟨i, pc, hpc, hx⟩) hl
      -- the other threads are unchanged
      have hother : ∀ j pj, j ≠ i → ((s.pcs.set i pc')[j]? = some pj ↔ s.pcs[j]? = some pj) := by
        intro j pj hji
        rw [List.getElem?_set]
        have : ¬ i = j := fun e => hji e.symm
        simp [this]
      have hself : (s.pcs.set i pc')[i]? = some pc' := by
        rw [List.getElem?_set]; simp [hilt]
      refine ⟨?_, ?_, k4⟩
      · -- mutual exclusion
        intro a b pa pb ha hb' hpa hpb
        by_cases hai : a = i
        · by_cases hbi : b = i
          · rw [hai, hbi]
          · subst hai
            rw [hself] at ha; injection ha with ha; subst ha
            have hb2 := (hother b pb hbi).mp hb'
            rcases k1 hpa with hold | hfree
            · exact h.excl _ _ _ _ hpc hb2 hold hpb
            · have : s.sh.held = true := h.held.mpr ⟨b, pb, hb2, hpb⟩
              rw [this] at hfree; cases hfree
        · by_cases hbi : b = i
          · subst hbi
            rw [hself] at hb'; injection hb' with hb'; subst hb'
            have ha2 := (hother a pa hai).mp ha
            rcases k1 hpb with hold | hfree
            · exact h.excl _ _ _ _ ha2 hpc hpa hold
            · have : s.sh.held = true := h.held.mpr ⟨a, pa, ha2, hpa⟩
              rw [this] at hfree; cases hfree
          · exact h.excl _ _ _ _ ((hother a pa hai).mp ha) ((hother b pb hbi).mp hb') hpa hpb
      · -- the lock bit
        show sh'.held = true ↔ _
        constructor
        · intro hh
          cases hx : pc'.holds with
          | true => exact ⟨i, pc', hself, hx⟩
          | false =>
            cases hy : pc.holds with
            | true => rw [k2 (Or.inl hy), hx] at hh; cases hh
            | false =>
              rw [k3 hy hx] at hh
              obtain ⟨j, pj, hj, hpj⟩ := h.held.mp hh
              have hji : j ≠ i := by
                intro e; subst e
                rw [hpc] at hj; injection hj with hj; subst hj
                rw [hy] at hpj; cases hpj
              exact ⟨j, pj, (hother j pj hji).mpr hj, hpj⟩
        · rintro ⟨j, pj, hj, hpj⟩
          by_cases hji : j = i
          · subst hji
            rw [hself] at hj; injection hj with hj; subst hj
            rw [k2 (Or.inr hpj)]; exact hpj
          · have hj2 := (hother j pj hji).mp hj
            have hheld : s.sh.held = true := h.held.mpr ⟨j, pj, hj2, hpj⟩
            have hpcf : pc.holds = false := by
              cases hx : pc.holds with
              | false => rfl
              | true => exact absurd (h.excl _ _ _ _ hpc hj2 hx hpj).symm hji
            have hpcf' : pc'.holds = false := by
              cases hx : pc'.holds with
              | false => rfl
              | true =>
                rcases k1 hx with a | a
                · rw [hpcf] at a; cases a
                · rw [hheld] at a; cases a
            rw [k3 hpcf hpcf']; exact hheld

/-- C15c (no deadlock): in every configuration satisfying the lock invariant in which some thread is
    not finished, some unfinished thread can move. -/
theorem no_deadlock (MAX CLEAR : Nat) (s : LSysA K V) (h : LockInvA MAX s)
    (hun : ∃ (i : Nat) (pc : PcA K V), s.pcs[i]? = some pc ∧ pc.isDone = false) :
    ∃ (i : Nat) (pc : PcA K V), s.pcs[i]? = some pc ∧ pc.isDone = false ∧ (lsysStepA MAX CLEAR s i).isSome = true := by
  cases hh : s.sh.held with
  | true =>
    obtain ⟨j, pj, hj, hpj⟩ := h.held.mp hh
    refine ⟨j, pj, hj, ?_, ?_⟩
    · cases pj <;> simp [PcA.holds, PcA.isDone] at hpj ⊢
    · unfold lsysStepA
      simp only [hj]
      cases pj with
      | setBody k v f => cases f <;> simp [lstepA]
      | getBody k => simp [lstepA]
      | getRelease r => simp [lstepA]
      | setRelease => simp [lstepA]
      | setFail => simp [lstepA]
      | getAcquire k => simp [PcA.holds] at hpj
      | setAcquire k v f => simp [PcA.holds] at hpj
      | done r x => simp [PcA.holds] at hpj
  | false =>
    obtain ⟨i, pc, hi, hpc⟩ := hun
    refine ⟨i, pc, hi, hpc, ?_⟩
    unfold lsysStepA
    simp only [hi]
    have hnh : pc.holds = false := by
      cases hx : pc.holds with
      | false => rfl
      | true =>
        have := h.held.mpr ⟨i, pc, hi, hx⟩
        rw [hh] at this; cases this
    cases pc <;> simp [PcA.holds, PcA.isDone] at hnh hpc <;> simp [lstepA, hh]

/-- C15c (all exits release): from any program point inside a critical section, the thread's own next
    steps (never blocked) reach `done` with the lock released within two steps — including the
    exception path of `setCachedExpression` and both return paths of `getCachedExpression`. -/
theorem releases_on_all_paths (MAX CLEAR : Nat) (sh : Shared K V) (pc : PcA K V) (hp : pc.holds = true) :
    ∃ sh1 pc1, lstepA MAX CLEAR sh pc = some (sh1, pc1) ∧
      ((pc1.isDone = true ∧ sh1.held = false) ∨
       ∃ sh2 pc2, lstepA MAX CLEAR sh1 pc1 = some (sh2, pc2) ∧ pc2.isDone = true ∧ sh2.held = false) := by
  cases pc <;> simp [PcA.holds] at hp
  · exact ⟨_, _, rfl, Or.inr ⟨_, _, rfl, rfl, rfl⟩⟩
  · exact ⟨_, _, rfl, Or.inl ⟨rfl, rfl⟩⟩
  · rename_i k v f
    cases f
    · exact ⟨_, _, rfl, Or.inr ⟨_, _, rfl, rfl, rfl⟩⟩
    · exact ⟨_, _, rfl, Or.inr ⟨_, _, rfl, rfl, rfl⟩⟩
  · exact ⟨_, _, rfl, Or.inl ⟨rfl, rfl⟩⟩
  · exact ⟨_, _, rfl, Or.inl ⟨rfl, rfl⟩⟩

/-- C15c (atomicity): one whole critical section of `getCachedExpression`, run without interruption,
    is exactly the model's `get` — and likewise `set`; so "each cache operation is one atomic step"
    is what the lock-level programs implement. -/
theorem get_section_is_get (MAX CLEAR : Nat) (c : State K V) (k : K) :
    ∃ sh1 pc1 sh2 pc2 sh3,
      lstepA MAX CLEAR ⟨false, c⟩ (.getAcquire k) = some (sh1, pc1) ∧
      lstepA MAX CLEAR sh1 pc1 = some (sh2, pc2) ∧
      lstepA MAX CLEAR sh2 pc2 = some (sh3, .done (get c k).2 false) ∧
      sh3.cache = (get c k).1 ∧ sh3.held = false :=
  ⟨_, _, _, _, _, rfl, rfl, rfl, rfl, rfl⟩

theorem set_section_is_set (MAX CLEAR : Nat) (c : State K V) (k : K) (v : V) :
    ∃ sh1 pc1 sh2 pc2 sh3,
      lstepA MAX CLEAR ⟨false, c⟩ (.setAcquire k v false) = some (sh1, pc1) ∧
      lstepA MAX CLEAR sh1 pc1 = some (sh2, pc2) ∧
      lstepA MAX CLEAR sh2 pc2 = some (sh3, .done none false) ∧
      sh3.cache = set MAX CLEAR c k v ∧ sh3.held = false :=
  ⟨_, _, _, _, _, rfl, rfl, rfl, rfl, rfl⟩

end Lock
end Atomic

/-! #### Why the obligation is strict: `CLEAR = MAX` breaks bound and key agreement -/

/-- With `CLEAR = MAX` (here 2/2) `recent[-0:]` is the whole list: three stores leave a recency
    list of length 3 over an empty map — `Inv` fails on both counts.  (Reproduced on the real cache
    with the constants patched; this is why `shipped_bound_ok` demands `CLEAR < MAX`.) -/
theorem clear_eq_max_breaks :
    let s : State Nat Nat := set 2 2 (set 2 2 (set 2 2 State.empty 0 0) 1 1) 2 2
    s.recent = [0, 1, 2] ∧ s.map = [] := by decide

/-! #### Non-vacuity -/

/-- A history with hits, a compile error, an eviction and a re-entry under the bound 3/1:
    the final cache state and all observations, computed by the model. -/
example :
    let compile : Nat → Option Nat := fun e => if e = 9 then none else some e
    let evs : List (Event Nat Nat) := [.query 0 0, .query 1 0, .query 0 0, .query 9 0, .query 2 0, .query 3 0, .query 0 0]
    (run compile id (fun v t => v * 10 + t) 3 1 World.empty evs).map (fun p => (p.1, p.2.recent))
      = [(.result 0, [0]), (.result 10, [0, 1]), (.result 0, [1, 0]), (.compileError, [1, 0]),
         (.result 20, [1, 0, 2]), (.result 30, [2, 3]), (.result 0, [2, 3, 0])] := by decide

example : Function.Injective (id : Nat → Nat) := fun _ _ h => h

/-! Lock level: a concrete two-thread schedule, statement by statement, run to completion. -/

/-- Thread 0: `q e0 t0; q e1 t0`; thread 1: `q e0 t1; q e9 t0` (`e9` does not compile); bound 3/1. -/
def exCompile : Nat → Option Nat := fun e => if e = 9 then none else some e
def exEval : Nat → Nat → Nat := fun v t => v * 10 + t
def exThreads : List (List (Event Nat Nat)) := [[.query 0 0, .query 1 0], [.query 0 1, .query 9 0]]
/-- One statement per pick; the 5th and the 11th–12th pick find their thread blocked on `acquire`. -/
def exSched : List Nat :=
  [0,0,1,0,1,0,0,0,1,1,0,0,1,1,1,1,1,0,1,1,1,1,1,1,1,1,1,1,0,0,0,0,0,0,0,0,0,0,0,0,0,0,0,0,0,0,0,0,0]

/-- The run completes: both threads finished with their solo results, lock free, cache in order; and the
    schedule of the quantum machine it projects to (`lock_level_refines_quantum`). -/
example :
    let s := ltRun exCompile id exEval 3 1 (LTSys.init exThreads : LTSys Nat Nat Nat Nat Nat) exSched
    s.threads.map (fun lt => (lt.pc, lt.th.todo.length, lt.th.obs)) =
      [(none, 0, [.result 0, .result 10]), (none, 0, [.result 1, .compileError])] ∧
    s.sh.held = false ∧ s.sh.cache.recent = [0, 1] ∧ dictKeys s.sh.cache.map = [0, 1] ∧
    ltProject exCompile id exEval 3 1 (LTSys.init exThreads : LTSys Nat Nat Nat Nat Nat) exSched = [0, 1, 1, 1, 0, 0, 0] := by
  decide +kernel

/-- The same results from the specification, as `lock_level_solo_results` says. -/
example : exThreads.map (specRun exCompile exEval []) = [[.result 0, .result 10], [.result 1, .compileError]] := by
  decide

/-- In the middle of that run (after 12 picks): thread 1 is inside `getCachedExpression` about to release,
    thread 0 — having missed and compiled — is blocked on the `acquire` of its store. -/
example :
    let s := ltRun exCompile id exEval 3 1 (LTSys.init exThreads : LTSys Nat Nat Nat Nat Nat) (exSched.take 12)
    s.threads.map (fun lt => lt.pc) = [some (.setAcquire 0 0 false), some (.getRelease none)] ∧ s.sh.held = true ∧
    (ltStep exCompile id exEval 3 1 s 0).isNone = true ∧ (ltStep exCompile id exEval 3 1 s 1).isSome = true := by
  decide +kernel

/-- … and `LockInv` holds there (an instance with somebody inside), as in every reachable configuration. -/
example : LockInv 3 1
    (ltRun exCompile id exEval 3 1 (LTSys.init exThreads : LTSys Nat Nat Nat Nat Nat) (exSched.take 12)).toLSys :=
  lock_inv_reachable exCompile id exEval 3 1 (by decide) exThreads (exSched.take 12)

/-- A `LockInv` instance of cache operations: a lookup, a store and a failing store about to start. -/
example : LockInv 3 1 (⟨⟨false, State.empty⟩, [.getAcquire 0, .setAcquire 1 1 false, .setAcquire 2 2 true]⟩ : LSys Nat Nat) :=
  lock_inv_initial 3 1 _ rfl (Inv.empty 3) (by decide)

/-- The eviction path statement by statement: a store into a full cache (3/1) takes 10 steps and is `set`;
    after 4 of them the shared recency list is longer than `MAX` (the bound is broken inside the section). -/
example :
    let c : State Nat Nat := ⟨[(0, 0), (1, 1), (2, 2)], [0, 1, 2]⟩
    (lsteps 3 1 10 ⟨false, c⟩ (.setAcquire 3 3 false)).map (fun p => (p.1.held, p.1.cache.map, p.1.cache.recent, p.2))
      = some (false, (set 3 1 c 3 3).map, (set 3 1 c 3 3).recent, .done none false) ∧
    (set 3 1 c 3 3).recent = [2, 3] ∧ (set 3 1 c 3 3).map = [(2, 2), (3, 3)] ∧
    (lsteps 3 1 9 ⟨false, c⟩ (.setAcquire 3 3 false)).map (fun p => (p.1.held, p.2)) = some (true, .setRelease) ∧
    (lsteps 3 1 4 ⟨false, c⟩ (.setAcquire 3 3 false)).map (fun p => (p.1.cache.recent, p.2)) = some ([0, 1, 2, 3], .setCheck) := by
  decide +kernel

end AHP.C15
