/-
  C14 — XPath evaluation selects exactly the elements the expression denotes.

  Property theorems only.  Model: AHP/Model/XPath.lean (flat body elements, `pass`, `reduce`, `resolve`,
  the constant folder `optimize`, axes, `filterByBody`, the step driver `evaluate`).  Specification:
  AHP/Model/XPathSpec.lean (syntax trees `P` with three precedence levels, the recursive evaluator
  `evalP`, `specAxis`, `specEval`).  Lemmas: AHP/Lemmas/XPath*.lean.

  Text level: AHP/Model/XPathParse.lean (the regex tokenizers of `parsing.py` / `_body.py`: `parseExpr`),
  AHP/Model/XPathRender.lean (surface syntax `S`, `SurfStep`, canonical text `renderExpr`).  Lemmas:
  AHP/Lemmas/XPathParse*.lean.

  Numbers are an arbitrary `Num N` throughout (the driver instantiates `Float`).
  `Option` = "raises"; error classes are not distinguished.
-/
import AHP.Lemmas.XPathSteps
import AHP.Lemmas.XPathOpt
import AHP.Lemmas.XPathDoc
import AHP.Lemmas.XPathPipeline
import AHP.Lemmas.XPathParseSteps
import AHP.Lemmas.XPathParseFuel
import AHP.Gen.Tables
namespace AHP.C14
open AHP AHP.XPath

section
variable {N : Type} (nm : Num N)

/-! #### C14a — flat pass evaluation = precedence-respecting evaluation -/

/-- C14a: for every predicate syntax tree of the three-level grammar (any size, any nesting of groups
    and function arguments) and every tag, evaluating the *flat* body-element list by the passes of
    `evaluateLevelForTags` (sub-levels and generators, then arithmetic/concat, then comparisons, then
    and/or, each left to right) gives what the recursive evaluator gives: operands first, then the
    operator.  Includes failure: one raises iff the other does. -/
theorem flat_eval_eq_tree_eval (c : Ctx) (p : P N) (hw : P.wf 3 p = true) :
    evalLevel nm c (flatten p) = evalP nm c p :=
  (flatOK nm c p 3 hw).evalLevel

/-- C14a at value level: the three passes over the in-order list of a value tree compute its value. -/
theorem passes_compute_tree_value (t : VT N) (hw : VT.wf 3 t = true) : reduce nm t.flat = t.eval nm :=
  reduce_flat nm t hw

/-- C14a for the filter: `filterTagsByBody` keeps exactly the elements whose predicate value is true or,
    for a number `n`, that are the `n`-th among their same-named siblings (`keepTag`). -/
theorem filter_eq_spec (d : Doc) (p : P N) (hw : P.wf 3 p = true) (cur : List Nat) (hn : cur.Nodup) :
    filterByBody nm d (flatten p) cur = specFilter nm d p cur :=
  filterByBody_eq_spec nm d p hw cur hn

/-! #### C14b — constant folding is sound -/

/-- C14b: the (repaired) compile-time folder does not change what a level evaluates to, for any tag:
    if `_optimizeStaticValueCalculations` returns `l'` for the flat form of a well-formed predicate whose
    leaves may be static values or anything dynamic, then `l'` and the original evaluate alike; if the
    pre-calculation raises, the original raises for every tag. -/
theorem folding_sound (c : Ctx) (t : MT N) (hw : MT.wf 3 t = true) :
    match optimize nm t.flat with
    | some l' => evalLevel nm c l' = evalLevel nm c t.flat
    | none => evalLevel nm c t.flat = none :=
  optimize_sound nm c t hw

/-- C14b, the whole compile step: `parseBodyStringIntoBodyElements` on the flat form of a well-formed
    predicate (number and string literals) — groups and function arguments optimised inside-out, an
    all-static `concat(…)` replaced by its value, then the folder — yields a level that evaluates, for
    every tag, to what the syntax tree denotes; and when the compile step raises, the predicate has no
    value on any tag. -/
theorem compile_sound (p : P N) (hw : P.wf 3 p = true) (hn : P.noNull p = true) :
    match compileLevel nm (flatten p) with
    | some l' => ∀ c, evalLevel nm c l' = evalP nm c p
    | none => ∀ c, evalP nm c p = none := by
  have h := levelOK_of_each nm p (eachOK nm p 3 hw hn)
  unfold LevelOK at h
  cases hc : compileLevel nm (flatten p) with
  | none => rw [hc] at h; exact h
  | some l' =>
    rw [hc] at h
    obtain ⟨t', rfl, w', _, ev'⟩ := h
    intro c
    rw [MT.evalLevel_flat nm c t' w', ev']

/-- C14b on the pinned defects: `[@n + 1 = 3]`, `[@n - 1 - 1 = 0]` and `[2 = 1 + @n]` are left alone;
    `["a" || "b" = "ab"]` folds to `true`. -/
example (one two three zero : N) (hp : nm.parse ['a', 'b'] = none) :
    optimize nm [.attr ['n'], .op (.arith .add), .val (.num one), .op (.cmp .eq), .val (.num three)]
      = some [.attr ['n'], .op (.arith .add), .val (.num one), .op (.cmp .eq), .val (.num three)] ∧
    optimize nm [.attr ['n'], .op (.arith .sub), .val (.num one), .op (.arith .sub), .val (.num one), .op (.cmp .eq), .val (.num zero)]
      = some [.attr ['n'], .op (.arith .sub), .val (.num one), .op (.arith .sub), .val (.num one), .op (.cmp .eq), .val (.num zero)] ∧
    optimize nm [.val (.num two), .op (.cmp .eq), .val (.num one), .op (.arith .add), .attr ['n']]
      = some [.val (.num two), .op (.cmp .eq), .val (.num one), .op (.arith .add), .attr ['n']] ∧
    optimize nm [.val (.str ['a']), .op (.arith .concat), .val (.str ['b']), .op (.cmp .eq), .val (.str ['a', 'b'])]
      = some [.val (.bool true)] := by
  refine ⟨rfl, rfl, rfl, ?_⟩
  simp [optimize, optPass, foldAt, leftOk, rightOk, applyOp, applyArith, applyCmp, toFloat, rawEq, Op.cls, hp]

/-! #### C14c — axes -/

/-- C14c: in a document table listed in pre-order, the recursive descendant walk of the code
    (`getAllChildNodes` / `_subset`) yields exactly the elements that have the start element among their
    ancestors, in document order. -/
theorem descendants_eq_spec (d : Doc) (hp : PreOrder d) (i : Nat) : d.desc i = specDesc d i :=
  desc_eq_specDesc d hp i

/-- C14c: `PreOrder` is what the driver checks on every document of the correspondence run. -/
theorem preorder_check_sound (d : Doc) (h : d.isPreOrder = true) : PreOrder d := preOrder_of_check d h

/-- C14c: every find-function the parser can pick (lead-in `/` or `//`, first step or not, each of the six
    axes) is the specification's axis-and-name-test. -/
theorem find_function_eq_axis (d : Doc) (hp : PreOrder d) (first : Bool) (s : SStep N) (i : Nat) :
    stepFn d first { dbl := s.dbl, axis := s.axis, name := s.name, preds := s.preds.map flatten } i
      = specAxis d first s i :=
  stepFn_eq_spec d (desc_eq_specDesc d hp) first s i

/-- C14c: one step keeps first occurrences in order (`TagCollection` construction). -/
theorem step_dedup (l : List Nat) : (dedup l).Nodup ∧ ∀ x, x ∈ dedup l ↔ x ∈ l :=
  ⟨nodup_dedup l, fun _ => mem_dedup⟩

/-! #### C14d — the driver and the entry points -/

/-- C14d: for every expression whose predicates are well-formed syntax trees, on every pre-order document
    and every start collection, the step driver of `XPathExpression.evaluate` over the flat, uncompiled
    body-element lists selects exactly what the expression denotes (`specEval`): steps left to right,
    each mapping every current element through axis and name test keeping first occurrences, each
    predicate filtering by truth or position. -/
theorem evaluate_eq_denotation (d : Doc) (hp : PreOrder d) (ss : List (SStep N))
    (hw : ∀ s ∈ ss, ∀ p ∈ s.preds, P.wf 3 p = true) (start : List Nat) :
    evaluate nm d (flattenSteps ss) start = specEval nm d ss start :=
  runSteps_eq_spec nm d (desc_eq_specDesc d hp) ss hw true (dedup start)

/-- C14d, the whole pipeline: compile (`XPathExpression.__init__`: tokenised form → constant folding) and
    evaluate.  If the expression compiles, evaluation on every pre-order document from every start
    collection is the denotation; if compiling raises, some predicate of the expression has no value on
    any tag (e.g. `"a" + 1`) — the only situation in which the library rejects an expression whose
    denotation on a particular document may still be defined (because no element reaches that predicate). -/
theorem compile_evaluate_eq_denotation (d : Doc) (hp : PreOrder d) (ss : List (SStep N))
    (hw : ∀ s ∈ ss, ∀ p ∈ s.preds, P.wf 3 p = true ∧ P.noNull p = true) :
    match compileSteps nm (flattenSteps ss) with
    | some cs => ∀ start, evaluate nm d cs start = specEval nm d ss start
    | none => ∃ s ∈ ss, ∃ p ∈ s.preds, ∀ c, evalP nm c p = none := by
  have h := compileSteps_for nm ss hw
  cases hc : compileSteps nm (flattenSteps ss) with
  | none => rw [hc] at h; exact h
  | some cs =>
    rw [hc] at h
    intro start
    exact runSteps_for nm d (desc_eq_specDesc d hp) cs ss h true (dedup start)

/-- C14d (entry points): parser → its root nodes, element → itself, collection → its members;
    every entry point is `evaluate` on that start collection, so they agree by construction. The
    start collection is de-duplicated first. -/
theorem entry_points_agree (d : Doc) (steps : List (Step N)) (i : Nat) :
    evaluate nm d steps [i] = evaluate nm d steps [i, i] := by
  simp [evaluate, dedup]

/-! #### C14f — from the TEXT of an expression -/

/-- C14f, one predicate: the body tokenizer (`parseBodyStringIntoBodyElements` before its constant folding: the
    element kinds in the order of `ALL_BODY_ELEMENT_RES`, groups, function calls with comma-separated arguments,
    white space handling) reads the text of every writable predicate — any size, any nesting of groups and
    function arguments, any operator tree, in every layout (`Style`: any `[ \t]*` at every site where the regular
    expressions allow it, every letter-case spelling of the function and operator words, either quote) — as
    its in-order flat list. -/
theorem parse_render_body (st : Style) (π : List Nat) (p : S N) (hw : S.wf nm p) :
    parseBody nm (renderS st π p) = some (flatten p.toP) :=
  parseBody_render nm st π p hw

/-- C14f, the bracket scan: `BRACKETED_SUBSET_RE` cuts the text of a writable predicate (with the white space
    around it) out of its `[…]` exactly — whatever brackets and quotes its string literals contain — and hands
    back what follows. -/
theorem bracket_render (st : Style) (π : List Nat) (p : S N) (hw : S.wf nm p) (w1 w2 rest : Str)
    (h1 : w1.all isSpTab = true) (h2 : w2.all isSpTab = true) :
    bracket ('[' :: ((w1 ++ (renderS st π p ++ w2)) ++ ']' :: rest)) = some (w1 ++ (renderS st π p ++ w2), skipSp rest) :=
  bracket_safe ((ws_bsafe h1).append ((render_bsafe nm st π p hw).append (ws_bsafe h2))) rest

/-- C14f **parse_render**: for every writable expression — any number of steps, lead-in `/` or `//`, optional
    axis, tag name or `*` in any letter case, any number of predicates of any size — and every layout of it
    (white space before / after lead-ins, brackets, parentheses, commas and operators, between a function name
    and its parenthesis, around the whole expression; any letter case of function names, word operators and axes;
    either quote), tokenizing the text (`parseXPathStrIntoOperations` without the constant folding) yields exactly
    the flat form of its syntax: the steps with lower-cased names and one in-order body-element list per
    predicate. -/
theorem parse_render (st : Style) (ss : List (SurfStep N)) (hw : ∀ s ∈ ss, s.wf nm) :
    parseExpr nm (renderExpr st ss) = some ((flattenSteps (ss.map SurfStep.toSStep)).map PStep.ofStep) :=
  parseExpr_render nm st ss hw

/-- C14f: hence `XPathExpression(text)` (tokenize, then fold constants) on the text, in any layout, is the
    compile step of C14b/d on the flat form of the syntax. -/
theorem compile_text_eq_compile_syntax (st : Style) (ss : List (SurfStep N)) (hw : ∀ s ∈ ss, s.wf nm) :
    compileText nm (renderExpr st ss) = compileSteps nm (flattenSteps (ss.map SurfStep.toSStep)) :=
  compileText_render nm st ss hw

/-- C14f + C14d, **from text to denotation**: take any writable expression whose predicates respect the three
    precedence levels, write it down in any layout, give the TEXT to the engine (tokenize → fold constants →
    evaluate).  On every pre-order document and from every start collection the result is what the expression
    denotes (`specEval` of its abstract syntax); and when the constructor raises, some predicate of the expression
    has no value on any tag. -/
theorem text_evaluate_eq_denotation (st : Style) (d : Doc) (hp : PreOrder d) (ss : List (SurfStep N))
    (hs : ∀ s ∈ ss, s.wf nm) (hw : ∀ s ∈ ss, ∀ p ∈ s.preds, P.wf 3 p.toP = true) :
    match compileText nm (renderExpr st ss) with
    | some cs => ∀ start, evaluate nm d cs start = specEval nm d (ss.map SurfStep.toSStep) start
    | none => ∃ s ∈ ss, ∃ p ∈ s.preds, ∀ c, evalP nm c p.toP = none := by
  rw [compileText_render nm st ss hs]
  have hw' : ∀ s ∈ ss.map SurfStep.toSStep, ∀ p ∈ s.preds, P.wf 3 p = true ∧ P.noNull p = true := by
    intro s' hs' p' hp'
    obtain ⟨s, hsm, rfl⟩ := List.mem_map.1 hs'
    simp only [SurfStep.toSStep, toPs_eq_map] at hp'
    obtain ⟨p, hpm, rfl⟩ := List.mem_map.1 hp'
    exact ⟨hw s hsm p hpm, toP_noNull p⟩
  have h := compile_evaluate_eq_denotation nm d hp (ss.map SurfStep.toSStep) hw'
  cases hc : compileSteps nm (flattenSteps (ss.map SurfStep.toSStep)) with
  | some cs => rw [hc] at h; exact h
  | none =>
    rw [hc] at h
    obtain ⟨s', hs', p', hp', hev⟩ := h
    obtain ⟨s, hsm, rfl⟩ := List.mem_map.1 hs'
    simp only [SurfStep.toSStep, toPs_eq_map] at hp'
    obtain ⟨p, hpm, rfl⟩ := List.mem_map.1 hp'
    exact ⟨s, hsm, p, hpm, hev⟩

/-- C14f, the fuel of the tokenizer model is never used up: for EVERY text (well-formed or not), the three loops
    give the same answer with any amount of extra fuel as with the fuel their callers (`parseBody`, `parseSteps`,
    `parseExpr`) start them with — every tokenizer hands back a strictly shorter text.  So `parseExpr s = none` never
    means "out of fuel": it is the model's "the library raises". -/
theorem tokenizer_fuel_suffices (s : Str) (k : Nat) :
    loop nm (2 * s.length + 2 + k) .top (strip s) [] [] = loop nm (2 * s.length + 2) .top (strip s) [] [] ∧
    parsePreds nm (s.length + 1 + k) (strip s) = parsePreds nm (s.length + 1) (strip s) ∧
    parseSteps nm (s.length + 1 + k) (strip s) = parseSteps nm (s.length + 1) (strip s) := by
  have hs := strip_length_le s
  exact ⟨loop_fuel nm (strip s) _ (by omega) .top [] [] k, parsePreds_fuel_add nm _ (strip s) (by omega) k,
    parseSteps_fuel_add nm _ (strip s) (by omega) k⟩

/-- a layout that is nothing like the canonical one: tabs and spaces everywhere, upper-case words, single quotes
    (the `x` in its white space is not used) -/
def noisyStyle : Style where
  ws := fun k π => if k = .opL then ['\t', 'x'] else if (π.length % 2 = 0) then [' ', '\t'] else [' ']
  word := fun _ w => w.map (fun c => if c = 'a' then 'A' else if c = 'n' then 'N' else if c = 'd' then 'D' else
    if c = 't' then 'T' else if c = 'c' then 'C' else if c = 'o' then 'O' else if c = 's' then 'S' else c)
  single := fun _ => true

/-- Non-vacuity of C14f: `//Div[@n + 2 = -.5 and contains(concat("a]b", text()), 'x"')][last()]/ancestor-or-self::*`
    is writable whenever `float("2")` and `float("-.5")` are defined; its canonical text is what one expects, and
    so is its text in another layout. -/
example (two mhalf : N) (h2 : nm.parse ['2'] = some two) (h5 : nm.parse ['-', '.', '5'] = some mhalf) :
    let e : List (SurfStep N) := [
      { dbl := true, axis := none, name := ['D', 'i', 'v'],
        preds := [.bin (.bool .and)
                    (.bin (.cmp .eq) (.bin (.arith .add) (.attr ['n']) (.num ⟨false, [2], none⟩ two)) (.num ⟨true, [], some [5]⟩ mhalf))
                    (.contains (.concat [.str ['a', ']', 'b'], .text]) (.str ['x', '"'])),
                  .last] },
      { dbl := false, axis := some .ancestorOrSelf, name := ['*'], preds := [] }]
    (∀ s ∈ e, s.wf nm) ∧
    renderExpr Style.canon e = "//Div[@n + 2 = -.5 and contains(concat(\"a]b\", text()), 'x\"')][last()]/ancestor-or-self::*".toList ∧
    renderExpr noisyStyle e =
      " \t// Div \t[ \t@n\t+ \t2\t= -.5\tAND \tCONTAiNS ( CONCAT \t( \t'a]b' , TexT ( ) \t) \t, \t'x\"' ) \t] \t[ \tlAST \t( \t) \t] / ANCeSTOr-Or-Self::* \t".toList := by
  have d2 : digitChar 2 = '2' := by decide
  have d5 : digitChar 5 = '5' := by decide
  refine ⟨?_, ?_, ?_⟩
  · intro s hs
    simp only [List.mem_cons, List.not_mem_nil, or_false] at hs
    rcases hs with rfl | rfl
    · simp [SurfStep.wf, tagNameOk, isNameStart, isNameChar, isAlpha, isDigit, S.wfs, S.wf, NumLit.wf, NumLit.text, d2, d5, h2, h5,
        attrNameOk, strOk]
    · simp [SurfStep.wf, tagNameOk, S.wfs]
  · simp [renderExpr, renderSteps, renderStep, renderPreds, renderS, renderArgs, axisPrefix, axisWord, opText, NumLit.text, quoteWith,
      d2, d5, Style.canon, Style.sp, Style.spell, Style.spellOp, isWordOp, sepOf, needL, needR, isSpTab, wText, wLast, wConcat, wContains]
  · simp [renderExpr, renderSteps, renderStep, renderPreds, renderS, renderArgs, axisPrefix, axisWord, opText, NumLit.text, quoteWith,
      d2, d5, noisyStyle, Style.sp, Style.spell, Style.spellOp, isWordOp, sepOf, needL, needR, isSpTab, wText, wLast, wConcat, wContains,
      lowerChar]

end

/-! #### C14e — table obligations over the tables regenerated from `_body.py` on every run -/

def idxOfStr (x : String) : List String → Nat
  | [] => 0
  | y :: ys => if y = x then 0 else idxOfStr x ys + 1

/-- C14e: the body tokenizer tries `<=` / `>=` before `<` / `>`, and static values (so that `-.5` can be a
    literal) and comparisons before the arithmetic operators. -/
theorem operator_order_ok :
    idxOfStr "<=" Gen.xpathComparisonOrder < idxOfStr "<" Gen.xpathComparisonOrder ∧
    idxOfStr ">=" Gen.xpathComparisonOrder < idxOfStr ">" Gen.xpathComparisonOrder ∧
    idxOfStr "!=" Gen.xpathComparisonOrder < Gen.xpathComparisonOrder.length ∧
    idxOfStr "=" Gen.xpathComparisonOrder < Gen.xpathComparisonOrder.length ∧
    Gen.xpathBodyElementOrder =
      ["VALUE_GENERATOR_RES", "STATIC_VALUES_RES", "COMPARISON_RES", "OPERATION_RES", "BOOLEAN_OPS_RES"] := by
  decide

/-- C14e: each comparison / arithmetic / boolean class applies its own relation. -/
theorem operator_relations_ok :
    (∀ p ∈ [("=", "Eq"), ("!=", "NotEq"), ("<", "Lt"), ("<=", "LtE"), (">", "Gt"), (">=", "GtE")],
        p ∈ Gen.xpathComparisonRelation) ∧ Gen.xpathComparisonRelation.length = 6 ∧
    Gen.xpathOperationRelation =
      [("||", "Add"), ("+", "Add"), ("-", "Sub"), ("*", "Mult"), ("div", "Div"), ("mod", "Mod")] ∧
    Gen.xpathBooleanRelation = [("and", "And"), ("or", "Or")] := by
  decide

/-- C14e: the passes run in the order the model numbers the operator classes (0, 1, 2). -/
theorem pass_order_ok :
    Gen.xpathPassOrder = ["BodyElementOperation", "BodyElementComparison", "BodyElementBooleanOps"] := by
  decide

/-! #### Non-vacuity -/

/-- `[@n + 1 * 2 = 6 and @k != "x"]`-shaped tree: well-formed, and the flat evaluation is defined. -/
example : P.wf 3 (P.bin (.bool .and)
      (P.bin (.cmp .eq) (P.bin (.arith .mul) (P.bin (.arith .add) (P.attr ['n']) (P.lit (.num (1 : Nat)))) (P.lit (.num 2))) (P.lit (.num 6)))
      (P.bin (.cmp .ne) (P.attr ['k']) (P.lit (.str ['x'])))) = true := by decide

end AHP.C14
