/- C14 — property theorems (stub: the property is not claimed yet). -/
namespace AHP.C14
end AHP.C14
