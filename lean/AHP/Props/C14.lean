/-
  C14 — XPath evaluation selects exactly the elements the expression denotes.

  Property theorems only.  Model: AHP/Model/XPath.lean (flat body elements, `pass`, `reduce`, `resolve`,
  the constant folder `optimize`, axes, `filterByBody`, the step driver `evaluate`).  Specification:
  AHP/Model/XPathSpec.lean (syntax trees `P` with three precedence levels, the recursive evaluator
  `evalP`, `specAxis`, `specEval`).  Lemmas: AHP/Lemmas/XPath*.lean.

  Text level: AHP/Model/XPathParse.lean (the regex tokenizers of `parsing.py` / `_body.py`: `parseExpr`),
  AHP/Model/XPathRender.lean (surface syntax `S`, `SurfStep`, canonical text `renderExpr`).  Lemmas:
  AHP/Lemmas/XPathParse*.lean.

  Numbers are an arbitrary `Num N` throughout (the driver instantiates `Float`).
  `Option` = "raises"; error classes are not distinguished.
-/
import AHP.Lemmas.XPathSteps
import AHP.Lemmas.XPathOpt
import AHP.Lemmas.XPathDoc
import AHP.Lemmas.XPathPipeline
import AHP.Lemmas.XPathParseSteps
import AHP.Lemmas.XPathParseFuel
import AHP.Lemmas.XPathEntry
import AHP.Lemmas.XPathValues
import AHP.Gen.Tables
namespace AHP.C14
open AHP AHP.XPath

section
variable {N : Type} (nm : Num N)

/-! #### C14a — flat pass evaluation = precedence-respecting evaluation -/

/-- C14a: for every predicate syntax tree of the three-level grammar (any size, any nesting of groups
    and function arguments) and every tag, evaluating the *flat* body-element list by the passes of
    `evaluateLevelForTags` (sub-levels and generators, then arithmetic/concat, then comparisons, then
    and/or, each left to right) gives what the recursive evaluator gives: operands first, then the
    operator.  Includes failure: one raises iff the other does. -/
theorem flat_eval_eq_tree_eval (c : Ctx) (p : P N) (hw : P.wf 3 p = true) :
    evalLevel nm c (flatten p) = evalP nm c p :=
  (flatOK nm c p 3 hw).evalLevel

/-- C14a at value level: the three passes over the in-order list of a value tree compute its value. -/
theorem passes_compute_tree_value (t : VT N) (hw : VT.wf 3 t = true) : reduce nm t.flat = t.eval nm :=
  reduce_flat nm t hw

/-- C14a for the filter: `filterTagsByBody` keeps exactly the elements whose predicate value is true or,
    for a number `n`, that are the `n`-th among their same-named siblings (`keepTag`). -/
theorem filter_eq_spec (d : Doc) (p : P N) (hw : P.wf 3 p = true) (cur : List Nat) (hn : cur.Nodup) :
    filterByBody nm d (flatten p) cur = specFilter nm d p cur :=
  filterByBody_eq_spec nm d p hw cur hn

/-! #### C14b — constant folding is sound -/

/-- C14b: the (repaired) compile-time folder does not change what a level evaluates to, for any tag:
    if `_optimizeStaticValueCalculations` returns `l'` for the flat form of a well-formed predicate whose
    leaves may be static values or anything dynamic, then `l'` and the original evaluate alike; if the
    pre-calculation raises, the original raises for every tag. -/
theorem folding_sound (c : Ctx) (t : MT N) (hw : MT.wf 3 t = true) :
    match optimize nm t.flat with
    | some l' => evalLevel nm c l' = evalLevel nm c t.flat
    | none => evalLevel nm c t.flat = none :=
  optimize_sound nm c t hw

/-- C14b, the whole compile step: `parseBodyStringIntoBodyElements` on the flat form of a well-formed
    predicate (number and string literals) — groups and function arguments optimised inside-out, an
    all-static `concat(…)` replaced by its value, then the folder — yields a level that evaluates, for
    every tag, to what the syntax tree denotes; and when the compile step raises, the predicate has no
    value on any tag. -/
theorem compile_sound (p : P N) (hw : P.wf 3 p = true) (hn : P.noNull p = true) :
    match compileLevel nm (flatten p) with
    | some l' => ∀ c, evalLevel nm c l' = evalP nm c p
    | none => ∀ c, evalP nm c p = none := by
  have h := levelOK_of_each nm p (eachOK nm p 3 hw hn)
  unfold LevelOK at h
  cases hc : compileLevel nm (flatten p) with
  | none => rw [hc] at h; exact h
  | some l' =>
    rw [hc] at h
    obtain ⟨t', rfl, w', _, ev'⟩ := h
    intro c
    rw [MT.evalLevel_flat nm c t' w', ev']

/-- C14b on the pinned defects: `[@n + 1 = 3]`, `[@n - 1 - 1 = 0]` and `[2 = 1 + @n]` are left alone;
    `["a" || "b" = "ab"]` folds to `true`. -/
example (one two three zero : N) (hp : nm.parse ['a', 'b'] = none) :
    optimize nm [.attr ['n'], .op (.arith .add), .val (.num one), .op (.cmp .eq), .val (.num three)]
      = some [.attr ['n'], .op (.arith .add), .val (.num one), .op (.cmp .eq), .val (.num three)] ∧
    optimize nm [.attr ['n'], .op (.arith .sub), .val (.num one), .op (.arith .sub), .val (.num one), .op (.cmp .eq), .val (.num zero)]
      = some [.attr ['n'], .op (.arith .sub), .val (.num one), .op (.arith .sub), .val (.num one), .op (.cmp .eq), .val (.num zero)] ∧
    optimize nm [.val (.num two), .op (.cmp .eq), .val (.num one), .op (.arith .add), .attr ['n']]
      = some [.val (.num two), .op (.cmp .eq), .val (.num one), .op (.arith .add), .attr ['n']] ∧
    optimize nm [.val (.str ['a']), .op (.arith .concat), .val (.str ['b']), .op (.cmp .eq), .val (.str ['a', 'b'])]
      = some [.val (.bool true)] := by
  refine ⟨rfl, rfl, rfl, ?_⟩
  simp [optimize, optPass, foldAt, leftOk, rightOk, applyOp, applyArith, applyCmp, toFloat, rawEq, Op.cls, hp]

/-! #### C14c — axes -/

/-- C14c: in a document table listed in pre-order, the recursive descendant walk of the code
    (`getAllChildNodes` / `_subset`) yields exactly the elements that have the start element among their
    ancestors, in document order. -/
theorem descendants_eq_spec (d : Doc) (hp : PreOrder d) (i : Nat) : d.desc i = specDesc d i :=
  desc_eq_specDesc d hp i

/-- C14c: `PreOrder` is what the driver checks on every document of the correspondence run. -/
theorem preorder_check_sound (d : Doc) (h : d.isPreOrder = true) : PreOrder d := preOrder_of_check d h

/-- C14c: every find-function the parser can pick (lead-in `/` or `//`, first step or not, each of the six
    axes) is the specification's axis-and-name-test. -/
theorem find_function_eq_axis (d : Doc) (hp : PreOrder d) (first : Bool) (s : SStep N) (i : Nat) :
    stepFn d first { dbl := s.dbl, axis := s.axis, name := s.name, preds := s.preds.map flatten } i
      = specAxis d first s i :=
  stepFn_eq_spec d (desc_eq_specDesc d hp) first s i

/-- C14c: one step keeps first occurrences in order (`TagCollection` construction). -/
theorem step_dedup (l : List Nat) : (dedup l).Nodup ∧ ∀ x, x ∈ dedup l ↔ x ∈ l :=
  ⟨nodup_dedup l, fun _ => mem_dedup⟩

/-! #### C14d — the driver and the entry points -/

/-- C14d: for every expression whose predicates are well-formed syntax trees, on every pre-order document
    and every start collection, the step driver of `XPathExpression.evaluate` over the flat, uncompiled
    body-element lists selects exactly what the expression denotes (`specEval`): steps left to right,
    each mapping every current element through axis and name test keeping first occurrences, each
    predicate filtering by truth or position. -/
theorem evaluate_eq_denotation (d : Doc) (hp : PreOrder d) (ss : List (SStep N))
    (hw : ∀ s ∈ ss, ∀ p ∈ s.preds, P.wf 3 p = true) (start : List Nat) :
    evaluate nm d (flattenSteps ss) start = specEval nm d ss start :=
  runSteps_eq_spec nm d (desc_eq_specDesc d hp) ss hw true (dedup start)

/-- C14d, the whole pipeline: compile (`XPathExpression.__init__`: tokenised form → constant folding) and
    evaluate.  If the expression compiles, evaluation on every pre-order document from every start
    collection is the denotation; if compiling raises, some predicate of the expression has no value on
    any tag (e.g. `"a" + 1`) — the only situation in which the library rejects an expression whose
    denotation on a particular document may still be defined (because no element reaches that predicate). -/
theorem compile_evaluate_eq_denotation (d : Doc) (hp : PreOrder d) (ss : List (SStep N))
    (hw : ∀ s ∈ ss, ∀ p ∈ s.preds, P.wf 3 p = true ∧ P.noNull p = true) :
    match compileSteps nm (flattenSteps ss) with
    | some cs => ∀ start, evaluate nm d cs start = specEval nm d ss start
    | none => ∃ s ∈ ss, ∃ p ∈ s.preds, ∀ c, evalP nm c p = none := by
  have h := compileSteps_for nm ss hw
  cases hc : compileSteps nm (flattenSteps ss) with
  | none => rw [hc] at h; exact h
  | some cs =>
    rw [hc] at h
    intro start
    exact runSteps_for nm d (desc_eq_specDesc d hp) cs ss h true (dedup start)

/-- C14d (start collection): `XPathExpression.evaluate` builds `TagCollection(curResults)` first, so only the first
    occurrences of the start elements matter — a repeated start element is the same as one.  (Until review B this
    instance carried the name `entry_points_agree`; it is a fact about de-duplication, not about entry points.) -/
theorem start_collection_deduplicated (d : Doc) (steps : List (Step N)) (i : Nat) :
    evaluate nm d steps [i] = evaluate nm d steps [i, i] := by
  simp [evaluate, dedup]

/-- … for every start collection: evaluating from `start` is evaluating from its first occurrences in order. -/
theorem start_collection_first_occurrences (d : Doc) (steps : List (Step N)) (start : List Nat) :
    evaluate nm d steps (dedup start) = evaluate nm d steps start :=
  evaluate_dedup_start nm d steps start

/-- C14d **entry points**.  The public functions that evaluate an expression text are modelled one by one as the code
    has them (AHP/Model/XPath.lean, "Entry points": what each does with its receiver before it reaches the step driver;
    `compile` = the constructor `XPathExpression(text)`, any function).  Then, for every document, text and constructor:

    * **parser** — `getElementsByXPathExpression`, `getElementsByXPath`, `evaluate(text)`, `evaluate(text, self)`,
      `XPathExpression(text).evaluate(parser)` and `XPathExpression(text).evaluate(parser.getRootNodes())` (list or
      tuple) are one function of (text, document): compile, then `evaluate` from `Doc.rootNodes` — the root, or the
      children of the invisible wrapper (`evalParser`); `evaluate(text, otherDoc)` raises;
    * **element** — `getElementsByXPathExpression`, `getElementsByXPath`, `XPathExpression(text).evaluate(tag)` (and
      on `[tag]` / `(tag,)`) are compile, then `evaluate` from the element itself (`evalElement`);
    * **collection / list / tuple** — the two methods and `XPathExpression(text).evaluate` on the collection, on
      `list(collection)` and on `tuple(collection)` are compile, then `evaluate` from the members in order
      (`evalColl`) — except that the two *methods* answer an empty collection with an empty collection before the
      constructor runs, so on an empty collection with a text that does not compile they return `[]` where the
      constructor raises (`entry_points_differ_only_on_empty_invalid`);
    * a parser is the collection of its root nodes and an element the collection of itself. -/
theorem entry_points_agree (compile : Str → Option (List (Step N))) (d : Doc) (text : Str) :
    (∀ (w : Bool) (e : ParserEntry), e ≠ .evaluate .other →
        e.run compile nm d w text = evalParser compile nm d w text) ∧
    (∀ w : Bool, (ParserEntry.evaluate .other).run compile nm d w text = none) ∧
    (∀ (i : Nat) (e : TagEntry), e.run compile nm d i text = evalElement compile nm d i text) ∧
    (∀ (ms : List Nat) (e : CollEntry), (ms ≠ [] ∨ (compile text).isSome = true ∨ e.isMethod = false) →
        e.run compile nm d ms text = evalColl compile nm d ms text) ∧
    (∀ w : Bool, evalParser compile nm d w text = (compile text).bind (fun cs => evaluate nm d cs (d.rootNodes w))) ∧
    (∀ i : Nat, evalElement compile nm d i text = (compile text).bind (fun cs => evaluate nm d cs [i])) ∧
    (∀ ms : List Nat, evalColl compile nm d ms text = (compile text).bind (fun cs => evaluate nm d cs ms)) ∧
    (∀ w : Bool, evalParser compile nm d w text = evalColl compile nm d (d.rootNodes w) text) ∧
    (∀ i : Nat, evalElement compile nm d i text = evalColl compile nm d [i] text) :=
  ⟨fun w e he => parserEntry_run compile nm d w text e he, fun w => parserEntry_other compile nm d w text,
   fun i e => tagEntry_run compile nm d i text e, fun ms e h => collEntry_run compile nm d ms text e h,
   fun _ => rfl, fun _ => rfl, fun _ => rfl, fun _ => rfl, fun _ => rfl⟩

/-- C14d: the one disagreement between entry points — an empty collection and a text the constructor rejects. -/
theorem entry_points_differ_only_on_empty_invalid (compile : Str → Option (List (Step N))) (d : Doc) (text : Str)
    (hc : compile text = none) (e : CollEntry) :
    e.run compile nm d [] text = if e.isMethod then some [] else none :=
  collEntry_empty_invalid compile nm d text hc e

/-! #### C14f — from the TEXT of an expression -/

/-- C14f, one predicate: the body tokenizer (`parseBodyStringIntoBodyElements` before its constant folding: the
    element kinds in the order of `ALL_BODY_ELEMENT_RES`, groups, function calls with comma-separated arguments,
    white space handling) reads the text of every writable predicate — any size, any nesting of groups and
    function arguments, any operator tree, in every layout (`Style`: any `[ \t]*` at every site where the regular
    expressions allow it, every letter-case spelling of the function and operator words, either quote) — as
    its in-order flat list. -/
theorem parse_render_body (st : Style) (π : List Nat) (p : S N) (hw : S.wf nm p) :
    parseBody nm (renderS st π p) = some (flatten p.toP) :=
  parseBody_render nm st π p hw

/-- C14f, the bracket scan: `BRACKETED_SUBSET_RE` cuts the text of a writable predicate (with the white space
    around it) out of its `[…]` exactly — whatever brackets and quotes its string literals contain — and hands
    back what follows. -/
theorem bracket_render (st : Style) (π : List Nat) (p : S N) (hw : S.wf nm p) (w1 w2 rest : Str)
    (h1 : w1.all isSpTab = true) (h2 : w2.all isSpTab = true) :
    bracket ('[' :: ((w1 ++ (renderS st π p ++ w2)) ++ ']' :: rest)) = some (w1 ++ (renderS st π p ++ w2), skipSp rest) :=
  bracket_safe ((ws_bsafe h1).append ((render_bsafe nm st π p hw).append (ws_bsafe h2))) rest

/-- C14f **parse_render**: for every writable expression — any number of steps, lead-in `/` or `//`, optional
    axis, tag name or `*` in any letter case, any number of predicates of any size — and every layout of it
    (white space before / after lead-ins, brackets, parentheses, commas and operators, between a function name
    and its parenthesis, around the whole expression; any letter case of function names, word operators and axes;
    either quote), tokenizing the text (`parseXPathStrIntoOperations` without the constant folding) yields exactly
    the flat form of its syntax: the steps with lower-cased names and one in-order body-element list per
    predicate. -/
theorem parse_render (st : Style) (ss : List (SurfStep N)) (hw : ∀ s ∈ ss, s.wf nm) :
    parseExpr nm (renderExpr st ss) = some ((flattenSteps (ss.map SurfStep.toSStep)).map PStep.ofStep) :=
  parseExpr_render nm st ss hw

/-- C14f: hence `XPathExpression(text)` (tokenize, then fold constants) on the text, in any layout, is the
    compile step of C14b/d on the flat form of the syntax. -/
theorem compile_text_eq_compile_syntax (st : Style) (ss : List (SurfStep N)) (hw : ∀ s ∈ ss, s.wf nm) :
    compileText nm (renderExpr st ss) = compileSteps nm (flattenSteps (ss.map SurfStep.toSStep)) :=
  compileText_render nm st ss hw

/-- C14f + C14d, **from text to denotation**: take any writable expression whose predicates respect the three
    precedence levels, write it down in any layout, give the TEXT to the engine (tokenize → fold constants →
    evaluate).  On every pre-order document and from every start collection the result is what the expression
    denotes (`specEval` of its abstract syntax); and when the constructor raises, some predicate of the expression
    has no value on any tag. -/
theorem text_evaluate_eq_denotation (st : Style) (d : Doc) (hp : PreOrder d) (ss : List (SurfStep N))
    (hs : ∀ s ∈ ss, s.wf nm) (hw : ∀ s ∈ ss, ∀ p ∈ s.preds, P.wf 3 p.toP = true) :
    match compileText nm (renderExpr st ss) with
    | some cs => ∀ start, evaluate nm d cs start = specEval nm d (ss.map SurfStep.toSStep) start
    | none => ∃ s ∈ ss, ∃ p ∈ s.preds, ∀ c, evalP nm c p.toP = none := by
  rw [compileText_render nm st ss hs]
  have hw' : ∀ s ∈ ss.map SurfStep.toSStep, ∀ p ∈ s.preds, P.wf 3 p = true ∧ P.noNull p = true := by
    intro s' hs' p' hp'
    obtain ⟨s, hsm, rfl⟩ := List.mem_map.1 hs'
    simp only [SurfStep.toSStep, toPs_eq_map] at hp'
    obtain ⟨p, hpm, rfl⟩ := List.mem_map.1 hp'
    exact ⟨hw s hsm p hpm, toP_noNull p⟩
  have h := compile_evaluate_eq_denotation nm d hp (ss.map SurfStep.toSStep) hw'
  cases hc : compileSteps nm (flattenSteps (ss.map SurfStep.toSStep)) with
  | some cs => rw [hc] at h; exact h
  | none =>
    rw [hc] at h
    obtain ⟨s', hs', p', hp', hev⟩ := h
    obtain ⟨s, hsm, rfl⟩ := List.mem_map.1 hs'
    simp only [SurfStep.toSStep, toPs_eq_map] at hp'
    obtain ⟨p, hpm, rfl⟩ := List.mem_map.1 hp'
    exact ⟨s, hsm, p, hpm, hev⟩

/-- C14f, the fuel of the tokenizer model is never used up: for EVERY text (well-formed or not), the three loops
    give the same answer with any amount of extra fuel as with the fuel their callers (`parseBody`, `parseSteps`,
    `parseExpr`) start them with — every tokenizer hands back a strictly shorter text.  So `parseExpr s = none` never
    means "out of fuel": it is the model's "the library raises". -/
theorem tokenizer_fuel_suffices (s : Str) (k : Nat) :
    loop nm (2 * s.length + 2 + k) .top (strip s) [] [] = loop nm (2 * s.length + 2) .top (strip s) [] [] ∧
    parsePreds nm (s.length + 1 + k) (strip s) = parsePreds nm (s.length + 1) (strip s) ∧
    parseSteps nm (s.length + 1 + k) (strip s) = parseSteps nm (s.length + 1) (strip s) := by
  have hs := strip_length_le s
  exact ⟨loop_fuel nm (strip s) _ (by omega) .top [] [] k, parsePreds_fuel_add nm _ (strip s) (by omega) k,
    parseSteps_fuel_add nm _ (strip s) (by omega) k⟩

/-- a layout that is nothing like the canonical one: tabs and spaces everywhere, upper-case words, single quotes
    (the `x` in its white space is not used) -/
def noisyStyle : Style where
  ws := fun k π => if k = .opL then ['\t', 'x'] else if (π.length % 2 = 0) then [' ', '\t'] else [' ']
  word := fun _ w => w.map (fun c => if c = 'a' then 'A' else if c = 'n' then 'N' else if c = 'd' then 'D' else
    if c = 't' then 'T' else if c = 'c' then 'C' else if c = 'o' then 'O' else if c = 's' then 'S' else c)
  single := fun _ => true

/-- Non-vacuity of C14f: `//Div[@n + 2 = -.5 and contains(concat("a]b", text()), 'x"')][last()]/ancestor-or-self::*`
    is writable whenever `float("2")` and `float("-.5")` are defined; its canonical text is what one expects, and
    so is its text in another layout. -/
example (two mhalf : N) (h2 : nm.parse ['2'] = some two) (h5 : nm.parse ['-', '.', '5'] = some mhalf) :
    let e : List (SurfStep N) := [
      { dbl := true, axis := none, name := ['D', 'i', 'v'],
        preds := [.bin (.bool .and)
                    (.bin (.cmp .eq) (.bin (.arith .add) (.attr ['n']) (.num ⟨false, [2], none⟩ two)) (.num ⟨true, [], some [5]⟩ mhalf))
                    (.contains (.concat [.str ['a', ']', 'b'], .text]) (.str ['x', '"'])),
                  .last] },
      { dbl := false, axis := some .ancestorOrSelf, name := ['*'], preds := [] }]
    (∀ s ∈ e, s.wf nm) ∧
    renderExpr Style.canon e = "//Div[@n + 2 = -.5 and contains(concat(\"a]b\", text()), 'x\"')][last()]/ancestor-or-self::*".toList ∧
    renderExpr noisyStyle e =
      " \t// Div \t[ \t@n\t+ \t2\t= -.5\tAND \tCONTAiNS ( CONCAT \t( \t'a]b' , TexT ( ) \t) \t, \t'x\"' ) \t] \t[ \tlAST \t( \t) \t] / ANCeSTOr-Or-Self::* \t".toList := by
  have d2 : digitChar 2 = '2' := by decide
  have d5 : digitChar 5 = '5' := by decide
  refine ⟨?_, ?_, ?_⟩
  · intro s hs
    simp only [List.mem_cons, List.not_mem_nil, or_false] at hs
    rcases hs with rfl | rfl
    · simp [SurfStep.wf, tagNameOk, isNameStart, isNameChar, isAlpha, isDigit, S.wfs, S.wf, NumLit.wf, NumLit.text, d2, d5, h2, h5,
        attrNameOk, strOk]
    · simp [SurfStep.wf, tagNameOk, S.wfs]
  · simp [renderExpr, renderSteps, renderStep, renderPreds, renderS, renderArgs, axisPrefix, axisWord, opText, NumLit.text, quoteWith,
      d2, d5, Style.canon, Style.sp, Style.spell, Style.spellOp, isWordOp, sepOf, needL, needR, isSpTab, wText, wLast, wConcat, wContains]
  · simp [renderExpr, renderSteps, renderStep, renderPreds, renderS, renderArgs, axisPrefix, axisWord, opText, NumLit.text, quoteWith,
      d2, d5, noisyStyle, Style.sp, Style.spell, Style.spellOp, isWordOp, sepOf, needL, needR, isSpTab, wText, wLast, wConcat, wContains,
      lowerChar]

/-! #### C14d/f — every entry point, from the TEXT, is the denotation from its receiver's start collection -/

/-- C14d + C14f: `text_evaluate_eq_denotation` applied to each entry point.  For the text (any layout) of a writable,
    precedence-respecting expression that the constructor accepts, on every pre-order document: every parser entry
    point returns the denotation from the document's root nodes, every element entry point the denotation from the
    element, every collection / list / tuple entry point the denotation from the members; when the constructor
    raises, some predicate of the expression has no value on any tag. -/
theorem entry_points_denote (st : Style) (d : Doc) (hp : PreOrder d) (ss : List (SurfStep N))
    (hs : ∀ s ∈ ss, s.wf nm) (hw : ∀ s ∈ ss, ∀ p ∈ s.preds, P.wf 3 p.toP = true) :
    match compileText nm (renderExpr st ss) with
    | some _ =>
      (∀ (w : Bool) (e : ParserEntry), e ≠ .evaluate .other →
        e.run (compileText nm) nm d w (renderExpr st ss) = specEval nm d (ss.map SurfStep.toSStep) (d.rootNodes w)) ∧
      (∀ (i : Nat) (e : TagEntry),
        e.run (compileText nm) nm d i (renderExpr st ss) = specEval nm d (ss.map SurfStep.toSStep) [i]) ∧
      (∀ (ms : List Nat) (e : CollEntry),
        e.run (compileText nm) nm d ms (renderExpr st ss) = specEval nm d (ss.map SurfStep.toSStep) ms)
    | none => ∃ s ∈ ss, ∃ p ∈ s.preds, ∀ c, evalP nm c p.toP = none := by
  have ht := text_evaluate_eq_denotation nm st d hp ss hs hw
  cases hc : compileText nm (renderExpr st ss) with
  | none => rw [hc] at ht; exact ht
  | some cs =>
    rw [hc] at ht
    refine ⟨?_, ?_, ?_⟩
    · intro w e he
      rw [parserEntry_run (compileText nm) nm d w _ e he]
      simp [evalParser, hc, ht]
    · intro i e
      rw [tagEntry_run (compileText nm) nm d i _ e]
      simp [evalElement, hc, ht]
    · intro ms e
      rw [collEntry_run (compileText nm) nm d ms _ e (Or.inr (Or.inl (by simp [hc])))]
      simp [evalColl, hc, ht]

/-! #### C14g — the value-level clauses of the property, against independent definitions

  `Ctx.lacks`, `IsNumeric`, `numRel`, `natRel`, `specPos`/`specNth`, `specLast` (AHP/Model/XPathSpec.lean, last section) are
  written from the property text and use none of the model's leaf functions (`applyCmp`, `rawEq`, `toFloat`, `keepTag`,
  `isNth`, `Doc.ctx`, `nameOk`).  Numbers: where a clause speaks about particular numbers (`[2]`, `"10" > "9"`) the
  number structure must treat decimal literals as Python does — `LawfulNum nm` (AHP/Lemmas/XPathNum.lean). -/

/-- C14g **"string comparison with an absent attribute is false for '=' and true for '!='"**: on an element that
    does not carry the attribute, `@name = q` is false and `@name != q` is true (either way round), whatever `q`
    evaluates to — a string, a number, a truth value — as long as it is not itself an absent attribute. -/
theorem absent_attribute_comparison (c : Ctx) (name : Str) (q : P N) (v : Val N)
    (hs : name.contains '*' = false) (habs : c.lacks name) (hq : evalP nm c q = some v) (hv : v.isNull = false) :
    evalP nm c (.bin (.cmp .eq) (.attr name) q) = some (.bool false) ∧
    evalP nm c (.bin (.cmp .ne) (.attr name) q) = some (.bool true) ∧
    evalP nm c (.bin (.cmp .eq) q (.attr name)) = some (.bool false) ∧
    evalP nm c (.bin (.cmp .ne) q (.attr name)) = some (.bool true) := by
  have ha := evalP_absent_attr nm c name hs habs
  have hl := applyCmp_null_left nm v hv
  have hr := applyCmp_null_right nm v hv
  have hb : ∀ (o : Op) (l r : P N) (x y : Val N), evalP nm c l = some x → evalP nm c r = some y →
      evalP nm c (.bin o l r) = applyOp nm o x y := fun o l r x y h1 h2 => by simp [evalP, h1, h2]
  refine ⟨?_, ?_, ?_, ?_⟩
  · rw [hb _ _ _ _ _ ha hq]; exact hl.1
  · rw [hb _ _ _ _ _ ha hq]; exact hl.2
  · rw [hb _ _ _ _ _ hq ha]; exact hr.1
  · rw [hb _ _ _ _ _ hq ha]; exact hr.2

/-- … at the filter: for `[@name = "s"]` / `[@name != "s"]` the ENGINE (flat pass evaluation of the tokenized
    predicate, then the keep/drop decision) drops, resp. keeps, every element without the attribute. -/
theorem absent_attribute_filter (d : Doc) (i : Nat) (name s : Str) (hs : name.contains '*' = false)
    (habs : d.lacksAttr i name) :
    (evalLevel nm (d.ctx i) (flatten (P.bin (.cmp .eq) (.attr name) (.lit (.str s))))).bind (keepTag nm d i) = some false ∧
    (evalLevel nm (d.ctx i) (flatten (P.bin (.cmp .ne) (.attr name) (.lit (.str s))))).bind (keepTag nm d i) = some true := by
  have h := absent_attribute_comparison nm (d.ctx i) name (.lit (.str s)) (.str s) hs (ctx_lacks_of_doc habs) rfl rfl
  rw [flat_eval_eq_tree_eval nm _ _ (by simp [P.wf, Op.cls]), flat_eval_eq_tree_eval nm _ _ (by simp [P.wf, Op.cls]),
    h.1, h.2.1]
  exact ⟨rfl, rfl⟩

/-- C14g **"numeric comparison is numeric whenever both sides are numeric"**: when both operands are numeric — numbers,
    or strings that read as numbers, such as attribute values — every comparison operator answers with its relation on
    the two NUMBERS (never with the order of the strings). -/
theorem numeric_comparison_is_numeric (o : CmpOp) (a b : Val N) (x y : N)
    (ha : IsNumeric nm a x) (hb : IsNumeric nm b y) :
    applyOp nm (.cmp o) a b = some (.bool (numRel nm o x y)) :=
  applyCmp_numeric nm o ha hb

/-- … for a comparison node of a predicate -/
theorem numeric_comparison_pred (c : Ctx) (o : CmpOp) (l r : P N) (a b : Val N) (x y : N)
    (hl : evalP nm c l = some a) (hr : evalP nm c r = some b) (ha : IsNumeric nm a x) (hb : IsNumeric nm b y) :
    evalP nm c (.bin (.cmp o) l r) = some (.bool (numRel nm o x y)) := by
  have hb' : evalP nm c (.bin (.cmp o) l r) = applyOp nm (.cmp o) a b := by simp [evalP, hl, hr]
  rw [hb']
  exact numeric_comparison_is_numeric nm o a b x y ha hb

/-- … and for decimal literals, in whatever form they arrive (number or string), the relation is the order of the
    natural numbers: `"10" > "9"`, although `"10" < "9"` as strings. -/
theorem decimal_strings_compare_as_numbers (hl : LawfulNum nm) (o : CmpOp) (ds1 ds2 : List (Fin 10))
    (h1 : ds1 ≠ []) (h2 : ds2 ≠ []) :
    applyOp nm (.cmp o) (.str (natLit ds1)) (.str (natLit ds2)) = some (.bool (natRel o (digitsVal ds1) (digitsVal ds2))) ∧
    applyOp nm (.cmp o) (.str (natLit ds1)) (.num (nm.ofNat (digitsVal ds2))) = some (.bool (natRel o (digitsVal ds1) (digitsVal ds2))) ∧
    applyOp nm (.cmp o) (.num (nm.ofNat (digitsVal ds1))) (.str (natLit ds2)) = some (.bool (natRel o (digitsVal ds1) (digitsVal ds2))) := by
  have n1 := natLit_numeric nm hl ds1 h1
  have n2 := natLit_numeric nm hl ds2 h2
  refine ⟨?_, ?_, ?_⟩
  · rw [numeric_comparison_is_numeric nm o _ _ _ _ n1 n2, numRel_ofNat nm hl]
  · rw [numeric_comparison_is_numeric nm o _ _ _ _ n1 (.num _), numRel_ofNat nm hl]
  · rw [numeric_comparison_is_numeric nm o _ _ _ _ (.num _) n2, numRel_ofNat nm hl]

/-- the instance of the property text: `"10" > "9"` as numbers, the opposite as strings -/
example : applyOp ratNum (.cmp .gt) (.str (natLit [1, 0])) (.str (natLit [9])) = some (.bool true) ∧
    natLit [1, 0] = "10".toList ∧ natLit [9] = "9".toList ∧ strLt "10".toList "9".toList = true := by
  refine ⟨?_, by decide, by decide, by decide⟩
  rw [(decimal_strings_compare_as_numbers ratNum ratNum_lawful .gt [1, 0] [9] (by simp) (by simp)).1]
  have : natRel .gt (digitsVal [1, 0]) (digitsVal [9]) = true := by decide
  rw [this]

/-- C14g **"when it is a number n, the elements that are the n-th among their same-named siblings"**: the engine's
    keep / drop decision for a predicate whose value is the number `n` is `specNth` — one more than the number of
    earlier rows of the table with the same parent and the same tag name equals `n`. -/
theorem numeric_value_keeps_nth (hl : LawfulNum nm) (d : Doc) (i n : Nat) :
    keepTag nm d i (.num (nm.ofNat n)) = some (decide (specNth d i n)) :=
  keepTag_ofNat nm hl d i n

/-- … for the whole filter step, on the tokenized predicate: `[n]` keeps exactly the current elements that are the
    `n`-th among their same-named siblings, in order. -/
theorem numeric_predicate_keeps_nth (hl : LawfulNum nm) (d : Doc) (n : Nat) (cur : List Nat) (hn : cur.Nodup) :
    filterByBody nm d (flatten (P.lit (.num (nm.ofNat n)))) cur = some (cur.filter (fun i => decide (specNth d i n))) := by
  rw [filter_eq_spec nm d _ (by simp [P.wf]) cur hn]
  exact specFilter_nth nm hl d (fun _ => n) _ (fun _ => rfl) cur

/-- … and for any well-formed predicate whose value on element `i` is the number `f i` (`[last()]`, `[1 + 1]`, …). -/
theorem number_valued_predicate_keeps_nth (hl : LawfulNum nm) (d : Doc) (f : Nat → Nat) (p : P N)
    (hw : P.wf 3 p = true) (hp : ∀ i, evalP nm (d.ctx i) p = some (.num (nm.ofNat (f i))))
    (cur : List Nat) (hn : cur.Nodup) :
    filterByBody nm d (flatten p) cur = some (cur.filter (fun i => decide (specNth d i (f i)))) := by
  rw [filter_eq_spec nm d _ hw cur hn]
  exact specFilter_nth nm hl d f p hp cur

/-- `position()` and `last()` are `specPos` and `specLast`; hence `[last()]` keeps the last among the same-named
    siblings. -/
theorem position_last_spec (d : Doc) (i : Nat) :
    evalP nm (d.ctx i) .position = some (.num (nm.ofNat (specPos d i))) ∧
    evalP nm (d.ctx i) .last = some (.num (nm.ofNat (specLast d i))) := by
  simp [evalP, ctx_pos, ctx_last]

theorem last_predicate_keeps_last (hl : LawfulNum nm) (d : Doc) (cur : List Nat) (hn : cur.Nodup) :
    filterByBody nm d (flatten (P.last : P N)) cur = some (cur.filter (fun i => decide (specPos d i = specLast d i))) :=
  number_valued_predicate_keeps_nth nm hl d (specLast d) .last (by simp [P.wf]) (fun i => (position_last_spec nm d i).2) cur hn

/-- C14g **"function and axis names and tag names are case-insensitive"**, at the text level.  Two written expressions
    that differ only in the letter case of their tag names … -/
def SameUpToCase (a b : SurfStep N) : Prop :=
  a.dbl = b.dbl ∧ a.axis = b.axis ∧ lower a.name = lower b.name ∧ a.preds = b.preds

inductive SameExprUpToCase : List (SurfStep N) → List (SurfStep N) → Prop
  | nil : SameExprUpToCase [] []
  | cons {a b : SurfStep N} {l1 l2 : List (SurfStep N)} :
      SameUpToCase a b → SameExprUpToCase l1 l2 → SameExprUpToCase (a :: l1) (b :: l2)

/-- … written down in two layouts that differ in anything a layout can differ in — in particular in the letter case
    of every function name, axis name and word operator (`Style.word`) — are tokenized, and compiled, to the same
    thing: `parseExpr` on the text with upper-case names = `parseExpr` on the lower-case text. -/
theorem names_case_insensitive (st1 st2 : Style) (ss1 ss2 : List (SurfStep N))
    (h1 : ∀ s ∈ ss1, s.wf nm) (h2 : ∀ s ∈ ss2, s.wf nm) (h : SameExprUpToCase ss1 ss2) :
    parseExpr nm (renderExpr st1 ss1) = parseExpr nm (renderExpr st2 ss2) ∧
    compileText nm (renderExpr st1 ss1) = compileText nm (renderExpr st2 ss2) := by
  have hm : ss1.map SurfStep.toSStep = ss2.map SurfStep.toSStep := by
    induction h with
    | nil => rfl
    | cons hab _ ih =>
      obtain ⟨e1, e2, e3, e4⟩ := hab
      simp only [List.map_cons]
      rw [ih (fun s hs => h1 s (by simp [hs])) (fun s hs => h2 s (by simp [hs]))]
      simp [SurfStep.toSStep, e1, e2, e3, e4]
  constructor
  · rw [parse_render nm st1 ss1 h1, parse_render nm st2 ss2 h2, hm]
  · rw [compile_text_eq_compile_syntax nm st1 ss1 h1, compile_text_eq_compile_syntax nm st2 ss2 h2, hm]

end

/-! #### C14e — table obligations over the tables regenerated from `_body.py` on every run -/

def idxOfStr (x : String) : List String → Nat
  | [] => 0
  | y :: ys => if y = x then 0 else idxOfStr x ys + 1

/-- C14e: the body tokenizer tries `<=` / `>=` before `<` / `>`, and static values (so that `-.5` can be a
    literal) and comparisons before the arithmetic operators. -/
theorem operator_order_ok :
    idxOfStr "<=" Gen.xpathComparisonOrder < idxOfStr "<" Gen.xpathComparisonOrder ∧
    idxOfStr ">=" Gen.xpathComparisonOrder < idxOfStr ">" Gen.xpathComparisonOrder ∧
    idxOfStr "!=" Gen.xpathComparisonOrder < Gen.xpathComparisonOrder.length ∧
    idxOfStr "=" Gen.xpathComparisonOrder < Gen.xpathComparisonOrder.length ∧
    Gen.xpathBodyElementOrder =
      ["VALUE_GENERATOR_RES", "STATIC_VALUES_RES", "COMPARISON_RES", "OPERATION_RES", "BOOLEAN_OPS_RES"] := by
  decide

/-- C14e: each comparison / arithmetic / boolean class applies its own relation. -/
theorem operator_relations_ok :
    (∀ p ∈ [("=", "Eq"), ("!=", "NotEq"), ("<", "Lt"), ("<=", "LtE"), (">", "Gt"), (">=", "GtE")],
        p ∈ Gen.xpathComparisonRelation) ∧ Gen.xpathComparisonRelation.length = 6 ∧
    Gen.xpathOperationRelation =
      [("||", "Add"), ("+", "Add"), ("-", "Sub"), ("*", "Mult"), ("div", "Div"), ("mod", "Mod")] ∧
    Gen.xpathBooleanRelation = [("and", "And"), ("or", "Or")] := by
  decide

/-- C14e: the passes run in the order the model numbers the operator classes (0, 1, 2). -/
theorem pass_order_ok :
    Gen.xpathPassOrder = ["BodyElementOperation", "BodyElementComparison", "BodyElementBooleanOps"] := by
  decide

/-! #### Non-vacuity -/

/-- `[@n + 1 * 2 = 6 and @k != "x"]`-shaped tree: well-formed, and the flat evaluation is defined. -/
example : P.wf 3 (P.bin (.bool .and)
      (P.bin (.cmp .eq) (P.bin (.arith .mul) (P.bin (.arith .add) (P.attr ['n']) (P.lit (.num (1 : Nat)))) (P.lit (.num 2))) (P.lit (.num 6)))
      (P.bin (.cmp .ne) (P.attr ['k']) (P.lit (.str ['x'])))) = true := by decide

/-! #### Evaluated instances (the exact number structure `ratNum`, AHP/Lemmas/XPathNum.lean) -/

/-- `<div><p n="9">a</p><p n="10">b</p><span><p n="7" k="x"></p></span></div>` -/
def exDoc : Doc := [
  ⟨"div".toList, none, [], []⟩,
  ⟨"p".toList, some 0, [("n".toList, "9".toList)], "a".toList⟩,
  ⟨"p".toList, some 0, [("n".toList, "10".toList)], "b".toList⟩,
  ⟨"span".toList, some 0, [], []⟩,
  ⟨"p".toList, some 3, [("n".toList, "7".toList), ("k".toList, "x".toList)], []⟩]

/-- `//p[@n > 9]` -/
def exGt : List (SurfStep Q) :=
  [{ dbl := true, axis := none, name := "p".toList,
     preds := [.bin (.cmp .gt) (.attr "n".toList) (.num ⟨false, [9], none⟩ (Q.ofNat 9))] }]

/-- `/div/p[2]` and `//p[@k != "x"]` -/
def exNth : List (SurfStep Q) :=
  [{ dbl := false, axis := none, name := "div".toList, preds := [] },
   { dbl := false, axis := none, name := "p".toList, preds := [.num ⟨false, [2], none⟩ (Q.ofNat 2)] }]
def exNe : List (SurfStep Q) :=
  [{ dbl := true, axis := none, name := "p".toList, preds := [.bin (.cmp .ne) (.attr "k".toList) (.str "x".toList)] }]

/-- **An evaluated query, numeric comparison.**  `//p[@n > 9]` on `exDoc` from the parser: the hypotheses of
    `text_evaluate_eq_denotation` / `entry_points_denote` hold, and the text — through the tokenizer, the constant
    folder and the step driver (`compileText`, `evaluate`), through the specification (`specEval`), and through the
    entry points — selects the one `<p>` whose `n` is 10: a non-empty result; compared as strings, `"10" > "9"` would
    be false and nothing would be selected.  From the `<span>` nothing is selected (its `<p>` has `n="7"`). -/
example :
    renderExpr Style.canon exGt = "//p[@n > 9]".toList ∧
    (∀ s ∈ exGt, s.wf ratNum) ∧ (∀ s ∈ exGt, ∀ p ∈ s.preds, P.wf 3 p.toP = true) ∧ PreOrder exDoc ∧
    exDoc.rootNodes false = [0] ∧
    (compileText ratNum "//p[@n > 9]".toList).bind (fun cs => evaluate ratNum exDoc cs [0]) = some [2] ∧
    specEval ratNum exDoc (exGt.map SurfStep.toSStep) [0] = some [2] ∧
    ParserEntry.getElementsByXPathExpression.run (compileText ratNum) ratNum exDoc false "//p[@n > 9]".toList = some [2] ∧
    (ParserEntry.evaluate .default).run (compileText ratNum) ratNum exDoc false "//p[@n > 9]".toList = some [2] ∧
    TagEntry.getElementsByXPath.run (compileText ratNum) ratNum exDoc 3 "//p[@n > 9]".toList = some [] := by
  refine ⟨by decide +kernel, ?_, ?_, preorder_check_sound exDoc (by decide +kernel), by decide +kernel, by decide +kernel,
    by decide +kernel, by decide +kernel, by decide +kernel, by decide +kernel⟩
  · intro s hs
    simp only [exGt, List.mem_cons, List.not_mem_nil, or_false] at hs
    subst hs
    simp [SurfStep.wf, tagNameOk, isNameStart, isAlpha, S.wfs, S.wf, NumLit.wf, NumLit.text, attrNameOk, ratNum]
    decide +kernel
  · intro s hs p hp
    simp only [exGt, List.mem_cons, List.not_mem_nil, or_false] at hs
    subst hs
    simp only [List.mem_cons, List.not_mem_nil, or_false] at hp
    subst hp
    simp [S.toP, P.wf, Op.cls]

/-- **Evaluated queries, position and absent attribute.**  `/div/p[2]` selects the second `<p>` among the children of
    `<div>` (row 2; the `<p>` inside `<span>` is the first of *its* parent); `//p[@k != "x"]` selects the two `<p>` that
    have no `k` at all (true for `!=`) and not the one whose `k` is `x`; `//p[@k = "x"]` selects only that one.  Engine on
    the text and specification on the syntax agree, with non-empty results; `specPos` reads the same positions off
    the table. -/
example :
    renderExpr Style.canon exNth = "/div/p[2]".toList ∧ renderExpr Style.canon exNe = "//p[@k != \"x\"]".toList ∧
    (compileText ratNum "/div/p[2]".toList).bind (fun cs => evaluate ratNum exDoc cs (exDoc.rootNodes false)) = some [2] ∧
    specEval ratNum exDoc (exNth.map SurfStep.toSStep) (exDoc.rootNodes false) = some [2] ∧
    [1, 2, 4].map (specPos exDoc) = [1, 2, 1] ∧
    (compileText ratNum "//p[@k != \"x\"]".toList).bind (fun cs => evaluate ratNum exDoc cs (exDoc.rootNodes false)) = some [1, 2] ∧
    specEval ratNum exDoc (exNe.map SurfStep.toSStep) (exDoc.rootNodes false) = some [1, 2] ∧
    (compileText ratNum "//p[@k = \"x\"]".toList).bind (fun cs => evaluate ratNum exDoc cs (exDoc.rootNodes false)) = some [4] ∧
    CollEntry.getElementsByXPathExpression.run (compileText ratNum) ratNum exDoc [3, 0, 3] "/p[last()]".toList = some [4, 2] := by
  refine ⟨by decide +kernel, by decide +kernel, by decide +kernel, by decide +kernel, by decide +kernel, by decide +kernel,
    by decide +kernel, by decide +kernel, by decide +kernel⟩

/-- ASCII upper case -/
def upperAscii (c : Char) : Char := if 'a' ≤ c ∧ c ≤ 'z' then Char.ofNat (c.toNat - 32) else c

/-- the canonical layout with every word (function names, axes, word operators) in upper case -/
def shout : Style := { Style.canon with word := fun _ w => w.map upperAscii }

def exUp : List (SurfStep Q) :=
  [{ dbl := true, axis := none, name := "DIV".toList, preds := [.contains (.attr "k".toList) (.str "x".toList)] },
   { dbl := false, axis := some .ancestor, name := "P".toList,
     preds := [.bin (.bool .or) .last (.bin (.arith .mod) .position .last)] }]
def exLo : List (SurfStep Q) :=
  [{ dbl := true, axis := none, name := "div".toList, preds := [.contains (.attr "k".toList) (.str "x".toList)] },
   { dbl := false, axis := some .ancestor, name := "p".toList,
     preds := [.bin (.bool .or) .last (.bin (.arith .mod) .position .last)] }]

/-- Non-vacuity of `names_case_insensitive`: the upper-case text and the lower-case text are tokenized alike. -/
example :
    renderExpr shout exUp = "//DIV[CONTAINS(@k, \"x\")]/ANCESTOR::P[LAST() OR POSITION() MOD LAST()]".toList ∧
    renderExpr Style.canon exLo = "//div[contains(@k, \"x\")]/ancestor::p[last() or position() mod last()]".toList ∧
    parseExpr ratNum "//DIV[CONTAINS(@k, \"x\")]/ANCESTOR::P[LAST() OR POSITION() MOD LAST()]".toList =
      parseExpr ratNum "//div[contains(@k, \"x\")]/ancestor::p[last() or position() mod last()]".toList := by
  have h1 : renderExpr shout exUp =
      "//DIV[CONTAINS(@k, \"x\")]/ANCESTOR::P[LAST() OR POSITION() MOD LAST()]".toList := by decide +kernel
  have h2 : renderExpr Style.canon exLo =
      "//div[contains(@k, \"x\")]/ancestor::p[last() or position() mod last()]".toList := by decide +kernel
  refine ⟨h1, h2, ?_⟩
  rw [← h1, ← h2]
  refine (names_case_insensitive ratNum shout Style.canon exUp exLo ?_ ?_ ?_).1
  · intro s hs
    simp only [exUp, List.mem_cons, List.not_mem_nil, or_false] at hs
    rcases hs with rfl | rfl <;>
      simp [SurfStep.wf, tagNameOk, isNameStart, isNameChar, isAlpha, S.wfs, S.wf, attrNameOk, strOk]
  · intro s hs
    simp only [exLo, List.mem_cons, List.not_mem_nil, or_false] at hs
    rcases hs with rfl | rfl <;>
      simp [SurfStep.wf, tagNameOk, isNameStart, isNameChar, isAlpha, S.wfs, S.wf, attrNameOk, strOk]
  · exact .cons ⟨rfl, rfl, by decide, rfl⟩ (.cons ⟨rfl, rfl, by decide, rfl⟩ .nil)

/-- the entry points differ only here: an empty collection and a text the constructor rejects -/
example :
    CollEntry.getElementsByXPath.run (compileText ratNum) ratNum exDoc [] "//p[".toList = some [] ∧
    CollEntry.exprEvaluate.run (compileText ratNum) ratNum exDoc [] "//p[".toList = none := by
  refine ⟨by decide +kernel, by decide +kernel⟩

end AHP.C14
