/-
  C14 + C15, composed — from the expression TEXT, through any history of the compiled-expression cache, to the denotation.

  C15's theorems are parametric in `compile`, `key`, `eval` ("what `eval ∘ compile` is, is C14"); C14's text-level theorem
  says what the engine computes from a text on a fresh compile.  Here the parameters are instantiated with the C14 model:
  expressions are texts (`Str`), the compiler is `compileText` (tokenize → fold constants), a tree is a pre-order document
  with a start collection, evaluation is the step driver `evaluate`.  The cache key is the text itself (the library hashes
  it with sha1; injectivity of the key is C15's stated assumption).

  Result: whatever was compiled, evaluated, evicted, re-entered or failed before — for every cache bound — a query with the
  text of a writable expression shows exactly the elements the expression denotes.
-/
import AHP.Props.C14
import AHP.Props.C15
import AHP.Props.TreeModels
import AHP.Lemmas.TreeModelsNth
namespace AHP.XPathEndToEnd
open AHP AHP.XPath AHP.Cache

section
variable {N : Type} (nm : Num N)

/-- the engine as C15 sees it: texts, compiled step lists, (document, start collection) pairs, results -/
abbrev Tree := XPath.Doc × List Nat

def compileE (nm : Num N) : Str → Option (List (Step N)) := compileText nm
def evalE (nm : Num N) (cs : List (Step N)) (t : Tree) : Option (List Nat) := evaluate nm t.1 cs t.2

/-- **Text, any cache history, denotation.**  Let `h` be any history of cache events over arbitrary texts (valid,
    invalid, failing at run time) on arbitrary trees, with any bound `MAX`/`CLEAR`.  A query with the text of a writable
    expression (any layout `st`) whose predicates respect the three precedence levels, on a pre-order document `d` from any
    start collection, then shows: the elements the expression denotes (`specEval`) when the text compiles — and a compile
    error only if some predicate of the expression has no value on any tag. -/
theorem query_text_after_any_history (MAX CLEAR : Nat) (h : List (Cache.Event Str Tree))
    (st : Style) (d : XPath.Doc) (hp : PreOrder d) (ss : List (SurfStep N))
    (hs : ∀ s ∈ ss, s.wf nm) (hw : ∀ s ∈ ss, ∀ p ∈ s.preds, P.wf 3 p.toP = true) (start : List Nat) :
    let obs := (Cache.step (compileE nm) id (evalE nm) MAX CLEAR
                  (Cache.exec (compileE nm) id (evalE nm) MAX CLEAR Cache.World.empty h) (.query (renderExpr st ss) (d, start))).2
    obs = .result (specEval nm d (ss.map SurfStep.toSStep) start) ∨
    (obs = .compileError ∧ ∃ s ∈ ss, ∃ p ∈ s.preds, ∀ c, evalP nm c p.toP = none) := by
  intro obs
  have hq := C15.query_after_any_history (compileE nm) id (evalE nm) (fun _ _ e => e) MAX CLEAR h
    (renderExpr st ss) (d, start)
  have ht := C14.text_evaluate_eq_denotation nm st d hp ss hs hw
  have hobs : obs = (Cache.step (compileE nm) id (evalE nm) MAX CLEAR Cache.World.empty
      (.query (renderExpr st ss) (d, start))).2 := hq
  rw [hobs]
  cases hc : compileText nm (renderExpr st ss) with
  | some cs =>
    rw [hc] at ht
    left
    simp [Cache.step, Cache.newExpr, Cache.State.empty, Cache.World.empty, Cache.get, Cache.dictGet, compileE, hc, evalE, ht start]
  | none =>
    rw [hc] at ht
    right
    refine ⟨?_, ht⟩
    simp [Cache.step, Cache.newExpr, Cache.State.empty, Cache.World.empty, Cache.get, Cache.dictGet, compileE, hc]

/-- **… on the document of ANY tree.**  The `PreOrder` hypothesis above is not an assumption about documents: the table
    the XPath model reads is built from the tree (`TM.HN.toDoc`: one row per element in document order, `parent` = the row
    of the parent), and `TreeModels.toDoc_isPreOrder` proves it for every tree — any size, depth, shape.  So for every
    tree `t`, every cache history, every layout of a writable three-level expression and every start collection, the
    query shows the denotation on `t.toDoc`. -/
theorem query_text_on_any_tree (MAX CLEAR : Nat) (h : List (Cache.Event Str Tree))
    (st : Style) (t : TM.HN) (ss : List (SurfStep N))
    (hs : ∀ s ∈ ss, s.wf nm) (hw : ∀ s ∈ ss, ∀ p ∈ s.preds, P.wf 3 p.toP = true) (start : List Nat) :
    let obs := (Cache.step (compileE nm) id (evalE nm) MAX CLEAR
                  (Cache.exec (compileE nm) id (evalE nm) MAX CLEAR Cache.World.empty h) (.query (renderExpr st ss) (t.toDoc, start))).2
    obs = .result (specEval nm t.toDoc (ss.map SurfStep.toSStep) start) ∨
    (obs = .compileError ∧ ∃ s ∈ ss, ∃ p ∈ s.preds, ∀ c, evalP nm c p.toP = none) :=
  query_text_after_any_history nm MAX CLEAR h st t.toDoc (TreeModels.toDoc_isPreOrder t).2 ss hs hw start

/-- the same for a forest (the top-level elements of a multi-root document, or several detached trees) -/
theorem query_text_on_any_forest (MAX CLEAR : Nat) (h : List (Cache.Event Str Tree))
    (st : Style) (ks : List TM.HN) (ss : List (SurfStep N))
    (hs : ∀ s ∈ ss, s.wf nm) (hw : ∀ s ∈ ss, ∀ p ∈ s.preds, P.wf 3 p.toP = true) (start : List Nat) :
    let obs := (Cache.step (compileE nm) id (evalE nm) MAX CLEAR
                  (Cache.exec (compileE nm) id (evalE nm) MAX CLEAR Cache.World.empty h) (.query (renderExpr st ss) (TM.docOfL ks, start))).2
    obs = .result (specEval nm (TM.docOfL ks) (ss.map SurfStep.toSStep) start) ∨
    (obs = .compileError ∧ ∃ s ∈ ss, ∃ p ∈ s.preds, ∀ c, evalP nm c p.toP = none) :=
  query_text_after_any_history nm MAX CLEAR h st (TM.docOfL ks) (TreeModels.docOfL_isPreOrder ks).2 ss hs hw start

/-- … and every entry point (parser, element, collection / list / tuple; AHP/Model/XPath.lean "Entry points") on the
    document of any tree returns the denotation from its receiver's start collection (`C14.entry_points_denote` without
    the `PreOrder` hypothesis). -/
theorem entry_points_on_any_tree (st : Style) (t : TM.HN) (ss : List (SurfStep N))
    (hs : ∀ s ∈ ss, s.wf nm) (hw : ∀ s ∈ ss, ∀ p ∈ s.preds, P.wf 3 p.toP = true) :
    match compileText nm (renderExpr st ss) with
    | some _ =>
      (∀ (w : Bool) (e : ParserEntry), e ≠ .evaluate .other →
        e.run (compileText nm) nm t.toDoc w (renderExpr st ss) = specEval nm t.toDoc (ss.map SurfStep.toSStep) (t.toDoc.rootNodes w)) ∧
      (∀ (i : Nat) (e : TagEntry),
        e.run (compileText nm) nm t.toDoc i (renderExpr st ss) = specEval nm t.toDoc (ss.map SurfStep.toSStep) [i]) ∧
      (∀ (ms : List Nat) (e : CollEntry),
        e.run (compileText nm) nm t.toDoc ms (renderExpr st ss) = specEval nm t.toDoc (ss.map SurfStep.toSStep) ms)
    | none => ∃ s ∈ ss, ∃ p ∈ s.preds, ∀ c, evalP nm c p.toP = none :=
  C14.entry_points_denote nm st t.toDoc (TreeModels.toDoc_isPreOrder t).2 ss hs hw

/-- **"the n-th among their same-named siblings", read off the TREE.**  For every tree `t`, every element of it (an entry
    `e` of the document-order walk) and every way of writing its blocks as `pre ++ x :: post` with `x` an element: `x` sits
    in row `e.pos + 1 + sizeL pre` of `t.toDoc`, and a predicate whose value is the number `n` keeps `x` exactly when `n` is
    one more than the number of element blocks in `pre` that carry `x`'s tag name (`TM.namedBefore`) — no table, no
    `Doc.ctx`, no `isNth`: the parent's blocks and their tag names only.  (`LawfulNum`: AHP/Lemmas/XPathNum.lean.) -/
theorem nth_on_any_tree (hl : LawfulNum nm) (t : TM.HN) {e : TM.Ent} (he : e ∈ t.walk [] 0)
    (pre : List TM.HN) (x : TM.HN) (post : List TM.HN) (hk : e.node.kids = pre ++ x :: post) (hx : x.isEl = true) (n : Nat) :
    keepTag nm t.toDoc (e.pos + 1 + TM.sizeL pre) (.num (nm.ofNat n)) = some (decide (TM.namedBefore x.name pre + 1 = n)) ∧
    specPos t.toDoc (e.pos + 1 + TM.sizeL pre) = TM.namedBefore x.name pre + 1 := by
  have h := (TM.toDoc_specPos t he pre x post hk hx).2.2
  refine ⟨?_, h⟩
  rw [C14.numeric_value_keeps_nth nm hl, ← h]
  rfl

/-- `<ul><li/>x<b/><li/></ul>`: the second `<li>` (row 3) is the 2nd among its same-named siblings — from the blocks
    (one `<li>` among the three blocks before it) and from the table -/
def listTree : TM.HN :=
  .el 0 "ul".toList AttrState.empty false
    [.el 1 "li".toList AttrState.empty false [], .text "x".toList, .el 2 "b".toList AttrState.empty false [],
     .el 3 "li".toList AttrState.empty false []]

example :
    TM.namedBefore "li".toList [.el 1 "li".toList AttrState.empty false [], .text "x".toList,
      .el 2 "b".toList AttrState.empty false []] + 1 = 2 ∧
    specPos listTree.toDoc 3 = 2 ∧ (listTree.toDoc).map (fun r => (r.name, r.parent)) =
      [("ul".toList, none), ("li".toList, some 0), ("b".toList, some 0), ("li".toList, some 0)] := by
  refine ⟨by decide, by decide +kernel, by decide +kernel⟩

/-- Non-vacuity of the tree versions: the table of `TreeModels.sampleHub` (`<div><p/><br/></div>`-shaped) -/
example : (TreeModels.sampleHub.toDoc).map (fun r => (r.name, r.parent)) =
    [("div".toList, none), ("p".toList, some 0), ("br".toList, some 0)] := by decide

/-- Non-vacuity: `//div[@k = "x" or @n = "y"]/*` meets the hypotheses on the expression (writable, three-level grammar);
    pre-order documents exist for every tree (`TreeModels.toDoc_isPreOrder`). -/
example :
    let e : List (SurfStep N) := [
      { dbl := true, axis := none, name := ['d', 'i', 'v'],
        preds := [.bin (.bool .or) (.bin (.cmp .eq) (.attr ['k']) (.str ['x'])) (.bin (.cmp .eq) (.attr ['n']) (.str ['y']))] },
      { dbl := false, axis := none, name := ['*'], preds := [] }]
    (∀ s ∈ e, s.wf nm) ∧ (∀ s ∈ e, ∀ p ∈ s.preds, P.wf 3 p.toP = true) := by
  refine ⟨?_, ?_⟩
  · intro s hs
    simp only [List.mem_cons, List.not_mem_nil, or_false] at hs
    rcases hs with rfl | rfl
    · simp [SurfStep.wf, tagNameOk, isNameStart, isNameChar, XPath.isAlpha, XPath.isDigit, S.wfs, S.wf, attrNameOk, strOk]
    · simp [SurfStep.wf, tagNameOk, S.wfs]
  · intro s hs p hp
    simp only [List.mem_cons, List.not_mem_nil, or_false] at hs
    rcases hs with rfl | rfl
    · simp only [List.mem_cons, List.not_mem_nil, or_false] at hp
      subst hp
      simp [S.toP, P.wf, Op.cls]
    · simp at hp

end
end AHP.XPathEndToEnd
