/-
  C14 + C15, composed — from the expression TEXT, through any history of the compiled-expression cache, to the denotation.

  C15's theorems are parametric in `compile`, `key`, `eval` ("what `eval ∘ compile` is, is C14"); C14's text-level theorem
  says what the engine computes from a text on a fresh compile.  Here the parameters are instantiated with the C14 model:
  expressions are texts (`Str`), the compiler is `compileText` (tokenize → fold constants), a tree is a pre-order document
  with a start collection, evaluation is the step driver `evaluate`.  The cache key is the text itself (the library hashes
  it with sha1; injectivity of the key is C15's stated assumption).

  Result: whatever was compiled, evaluated, evicted, re-entered or failed before — for every cache bound — a query with the
  text of a writable expression shows exactly the elements the expression denotes.
-/
import AHP.Props.C14
import AHP.Props.C15
namespace AHP.XPathEndToEnd
open AHP AHP.XPath AHP.Cache

section
variable {N : Type} (nm : Num N)

/-- the engine as C15 sees it: texts, compiled step lists, (document, start collection) pairs, results -/
abbrev Tree := Doc × List Nat

def compileE (nm : Num N) : Str → Option (List (Step N)) := compileText nm
def evalE (nm : Num N) (cs : List (Step N)) (t : Tree) : Option (List Nat) := evaluate nm t.1 cs t.2

/-- **Text, any cache history, denotation.**  Let `h` be any history of cache events over arbitrary texts (valid,
    invalid, failing at run time) on arbitrary trees, with any bound `MAX`/`CLEAR`.  A query with the text of a writable
    expression (any layout `st`) whose predicates respect the three precedence levels, on a pre-order document `d` from any
    start collection, then shows: the elements the expression denotes (`specEval`) when the text compiles — and a compile
    error only if some predicate of the expression has no value on any tag. -/
theorem query_text_after_any_history (MAX CLEAR : Nat) (h : List (Event Str Tree))
    (st : Style) (d : Doc) (hp : PreOrder d) (ss : List (SurfStep N))
    (hs : ∀ s ∈ ss, s.wf nm) (hw : ∀ s ∈ ss, ∀ p ∈ s.preds, P.wf 3 p.toP = true) (start : List Nat) :
    let obs := (step (compileE nm) id (evalE nm) MAX CLEAR
                  (exec (compileE nm) id (evalE nm) MAX CLEAR World.empty h) (.query (renderExpr st ss) (d, start))).2
    obs = .result (specEval nm d (ss.map SurfStep.toSStep) start) ∨
    (obs = .compileError ∧ ∃ s ∈ ss, ∃ p ∈ s.preds, ∀ c, evalP nm c p.toP = none) := by
  intro obs
  have hq := C15.query_after_any_history (compileE nm) id (evalE nm) (fun _ _ e => e) MAX CLEAR h
    (renderExpr st ss) (d, start)
  have ht := C14.text_evaluate_eq_denotation nm st d hp ss hs hw
  have hobs : obs = (step (compileE nm) id (evalE nm) MAX CLEAR World.empty
      (.query (renderExpr st ss) (d, start))).2 := hq
  rw [hobs]
  cases hc : compileText nm (renderExpr st ss) with
  | some cs =>
    rw [hc] at ht
    left
    simp [step, newExpr, State.empty, World.empty, Cache.get, dictGet, compileE, hc, evalE, ht start]
  | none =>
    rw [hc] at ht
    right
    refine ⟨?_, ht⟩
    simp [step, newExpr, State.empty, World.empty, Cache.get, dictGet, compileE, hc]

/-- Non-vacuity: `//div[@k = "x" or @n = "y"]/*` meets the hypotheses on the expression (writable, three-level grammar);
    pre-order documents exist for every tree (`TreeModels.toDoc_isPreOrder`). -/
example :
    let e : List (SurfStep N) := [
      { dbl := true, axis := none, name := ['d', 'i', 'v'],
        preds := [.bin (.bool .or) (.bin (.cmp .eq) (.attr ['k']) (.str ['x'])) (.bin (.cmp .eq) (.attr ['n']) (.str ['y']))] },
      { dbl := false, axis := none, name := ['*'], preds := [] }]
    (∀ s ∈ e, s.wf nm) ∧ (∀ s ∈ e, ∀ p ∈ s.preds, P.wf 3 p.toP = true) := by
  refine ⟨?_, ?_⟩
  · intro s hs
    simp only [List.mem_cons, List.not_mem_nil, or_false] at hs
    rcases hs with rfl | rfl
    · simp [SurfStep.wf, tagNameOk, isNameStart, isNameChar, isAlpha, isDigit, S.wfs, S.wf, attrNameOk, strOk]
    · simp [SurfStep.wf, tagNameOk, S.wfs]
  · intro s hs p hp
    simp only [List.mem_cons, List.not_mem_nil, or_false] at hs
    rcases hs with rfl | rfl
    · simp only [List.mem_cons, List.not_mem_nil, or_false] at hp
      subst hp
      simp [S.toP, P.wf, Op.cls]
    · simp at hp

end
end AHP.XPathEndToEnd
