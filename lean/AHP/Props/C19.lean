/- C19 — property theorems (stub: the property is not claimed yet). -/
namespace AHP.C19
end AHP.C19
