/-
  C19 — typed DOM properties are total functions of the stored attribute text.

  Model: AHP/Model/Conv.lean (conversions.py, the special-value rules, the get/set dispatch of Tags.py, the attribute
  store), tables AHP/Gen/Tables.lean (regenerated from the source on every run), documented rules AHP/Model/ConvSpec.lean.
  `parseInt` (Python's `int()` on text) is a parameter: the theorems hold for every `parseInt` that fails with
  `ValueError` only.

    C19a  totality                 reading any name of any element never raises, whatever the attributes hold
    C19b  meaning                  reading a linked property gives what its documented rule gives, for every text;
                                   the clamping / default boundaries are symbolic (∀ n, n < lo → …)
    C19c  table obligations        the tables regenerated from the source give, for every (element type, dot name)
                                   pair, the dispatch the documented rule demands; the name tables are the documented ones
    C19d  assignment               the attribute is stored under its HTML name so that reading back follows the same
                                   rule; the only raising assignment is an out-of-range maxLength
-/
import AHP.Lemmas.Conv
import AHP.Props.C19T0
import AHP.Props.C19T1
import AHP.Props.C19T2
import AHP.Props.C19T3
import AHP.Props.C19T4
import AHP.Props.C19T5
import AHP.Props.C19T6
import AHP.Props.C19T7
namespace AHP.C19
open AHP AHP.Gen AHP.Conv AHP.Conv.Spec
set_option maxRecDepth 100000

/-- (element type, dot name) is a pair of the documented table: a common name on any element type, or a per-type name. -/
def InTable (tag prop : String) : Prop :=
  prop ∈ Spec.commonProps ∨ ∃ ps, (tag, ps) ∈ Spec.tagProps ∧ prop ∈ ps

/-! ## C19c — table obligations -/

/-- The per-type name table regenerated from the source is the documented one. -/
theorem C19c_tagProps : Gen.tagProps = Spec.tagProps := by decide +kernel

/-- The common names regenerated from the source are the documented ones. -/
theorem C19c_commonProps : Gen.propLinks = Spec.commonProps := by decide +kernel

/-- Every per-type pair: dispatch computed from the generated tables = the documented rule's (all eight parts). -/
theorem C19c_cells : (Spec.tagProps.all fun p => p.2.all (cellOK genTables p.1)) = true := by
  simp only [Spec.tagProps, List.all_append, C19c_cells_part0, C19c_cells_part1, C19c_cells_part2, C19c_cells_part3,
    C19c_cells_part4, C19c_cells_part5, C19c_cells_part6, C19c_cells_part7, Bool.and_self]

/-- Every common name, checked once for all element types (`commonOK`: the name is linked for every type and nothing
in its rule depends on the element type). -/
theorem C19c_common : Spec.commonProps.all (commonOK genTables) = true := by decide +kernel

/-- No special-value rule of the generated table can raise when read. -/
theorem C19c_rulesTotal : genTables.specials.all (fun p => ruleTotal genTables p.2) = true := by decide +kernel

/-- The table obligation, for every pair of the documented table and every element type. -/
theorem C19c_table (tag prop : String) (h : InTable tag prop) : cellOK genTables tag prop = true := by
  rcases h with h | ⟨ps, hm, hp⟩
  · exact cellOK_common genTables prop (List.all_eq_true.mp C19c_common prop h) tag
  · have := List.all_eq_true.mp C19c_cells (tag, ps) hm
    exact List.all_eq_true.mp this prop hp

/-- In particular the HTML name under which the code stores a property is the documented one
(className → class, colSpan → colspan, httpEquiv → http-equiv, …), up to the store's lower-casing. -/
theorem C19c_htmlName (tag prop : String) (h : InTable tag prop) :
    ∃ d, dispatch genTables tag prop = some d ∧ normSet d.set = (Spec.disp (htmlName prop) (srule tag prop)).set := by
  obtain ⟨d, f⟩ := cellOK_facts (C19c_table tag prop h)
  exact ⟨d, f.disp, by have := congrArg Disp.set f.norm; simpa only [Spec.norm] using this⟩

/-! ## C19a — totality -/

/-- Reading any name of any element never raises: every element type, every dot name (linked or not), every attribute
state (absent, value-less, any text), any other attributes, for every `parseInt` that fails with `ValueError` only. -/
theorem C19a_total (parseInt : Str → Except PyErr Int) (hpi : ValueErrorOnly parseInt) (e : Elem) (prop : String) :
    ∃ v, getProp genTables parseInt e prop = .ok v :=
  getProp_total genTables C19c_rulesTotal parseInt hpi e prop

/-- The same for any tables all of whose special-value rules are total (`ruleTotal` is decidable). -/
theorem C19a_total_tables (T : Tables) (hT : T.specials.all (fun p => ruleTotal T p.2) = true)
    (parseInt : Str → Except PyErr Int) (hpi : ValueErrorOnly parseInt) (e : Elem) (prop : String) :
    ∃ v, getProp T parseInt e prop = .ok v :=
  getProp_total T hT parseInt hpi e prop

/-- The executable `int()` the driver runs fails with `ValueError` only (the hypothesis is satisfiable). -/
theorem C19a_pyIntOfStr_valueErrorOnly : ValueErrorOnly pyIntOfStr := by
  intro s err h
  unfold pyIntOfStr at h
  simp only at h
  split at h
  · cases h; rfl
  · split at h
    · cases h
    · cases h; rfl

/-! ## C19b — meaning -/

/-- Reading a linked property gives what the documented rule gives: for every pair of the documented table, every
element of that type (any other attributes, any ancestors), the attribute absent or holding any text. -/
theorem C19b_meaning (parseInt : Str → Except PyErr Int) (hpi : ValueErrorOnly parseInt) (e : Elem) (prop : String)
    (h : InTable e.tag prop) (hpy : e.pyattrs.lookup prop = none)
    (hst : srule e.tag prop = .className ∨ e.entry (htmlName prop) ≠ some none) :
    getProp genTables parseInt e prop
      = .ok (expected parseInt (srule e.tag prop) (stOf (e.entry (htmlName prop))) e.ancestors e.classNames) :=
  getProp_of_cellOK genTables parseInt hpi e prop (C19c_table e.tag prop h) hpy hst

/-- "Set via HTML": for the element the parser builds for `<tag attr="text">` (attr the documented HTML name), reading
the property gives the documented rule on that text.  (className and spellcheck store a converted form of the text;
for them the stream compares the constructed element.) -/
theorem C19b_constructed (parseInt : Str → Except PyErr Int) (hpi : ValueErrorOnly parseInt) (tag prop : String)
    (h : InTable tag prop) (anc : List String) (s : Str)
    (h1 : srule tag prop ≠ .className) (h2 : srule tag prop ≠ .boolString) :
    getProp genTables parseInt (constructed genTables tag (htmlName prop) anc s) prop
      = .ok (expected parseInt (srule tag prop) (.text s) anc []) :=
  getProp_constructed genTables parseInt hpi tag prop (C19c_table tag prop h) anc s h1 h2

/-- Boundaries of a clamped property (span, colSpan 1..1000; rowSpan 0..65534), symbolically. -/
theorem C19b_clamp_below (lo hi n : Int) (h : lo ≤ hi) (hn : n < lo) : Spec.clamp lo hi n = lo := by
  unfold Spec.clamp; omega
theorem C19b_clamp_within (lo hi n : Int) (h1 : lo ≤ n) (h2 : n ≤ hi) : Spec.clamp lo hi n = n := by
  unfold Spec.clamp; omega
theorem C19b_clamp_above (lo hi n : Int) (h : lo ≤ hi) (hn : hi < n) : Spec.clamp lo hi n = hi := by
  unfold Spec.clamp; omega

/-- convertToIntRangeCapped on a non-empty text, for all bounds. -/
theorem C19b_intCapped (parseInt : Str → Except PyErr Int) (hpi : ValueErrorOnly parseInt) (s : Str) (h : s ≠ [])
    (lo hi : Int) (hlh : lo ≤ hi) (inv : Inv) (emp : Emp) :
    convertToIntRangeCapped parseInt (.str s) (some lo) (some hi) inv emp
      = (match parseInt s with | .ok n => .ok (.int (Spec.clamp lo hi n)) | .error _ => handleInvalid inv) :=
  intCapped_text parseInt hpi s h lo hi hlh inv emp

/-- convertToIntRange with a lower bound on a non-empty text: `n < lo` is invalid, `n ≥ lo` is returned. -/
theorem C19b_intRange (parseInt : Str → Except PyErr Int) (hpi : ValueErrorOnly parseInt) (s : Str) (h : s ≠ [])
    (lo : Int) (inv : Inv) (emp : Emp) :
    convertToIntRange parseInt (.str s) (some lo) none inv emp
      = (match parseInt s with | .ok n => if n < lo then handleInvalid inv else .ok (.int n) | .error _ => handleInvalid inv) :=
  intRange_text parseInt hpi s h lo inv emp

/-- convertToPositiveInt: negatives and unparsable text give the default, `n ≥ 0` is returned. -/
theorem C19b_positiveInt (parseInt : Str → Except PyErr Int) (s : Str) (d : Lit) :
    convertToPositiveInt parseInt (.str s) d
      = (match parseInt s with | .ok n => if n < 0 then d.toPy else .int n | .error _ => d.toPy) :=
  positiveInt_text parseInt s d

/-- convertToIntOrNegativeOneIfUnset: unset/empty −1, a number itself, anything else 0. -/
theorem C19b_intOrMinusOne (parseInt : Str → Except PyErr Int) (s : Str) (h : s ≠ []) :
    convertToIntOrNegativeOneIfUnset parseInt (.str s) = (match parseInt s with | .ok n => .int n | .error _ => .int 0) :=
  intOrMinusOne_text parseInt s h

/-- convertPossibleValues: the lower-cased member, the invalid default for a non-member, the empty default for ''. -/
theorem C19b_possible (s : Str) (ms : List String) (inv : Inv) (emp : Emp) :
    convertPossibleValues (.str s) ms inv emp
      = if s = [] then handleEmpty inv emp
        else if ms.contains (String.ofList (lower s)) then .ok (.str (lower s)) else handleInvalid inv :=
  possible_text s ms inv emp

/-- spellcheck: whatever is stored reads back as a boolean through its true/false string. -/
theorem C19b_boolString (v : Str) :
    convertBooleanStringToBoolean (.str (convertToBooleanString (.str v))) = !(lower v = str "false" || lower v = str "0") :=
  boolStr_roundtrip v

/-! ## C19d — assignment -/

/-- Assigning a linked property (text, number, boolean or None): the only raising assignment is an out-of-range
maxLength (`IndexSizeError`); every other assignment stores / removes the attribute under the HTML name. -/
theorem C19d_assign (parseInt : Str → Except PyErr Int) (hpi : ValueErrorOnly parseInt) (e : Elem) (prop : String) (v : PyV)
    (h : InTable e.tag prop) (hv : plain v = true) :
    setProp genTables parseInt e prop v
      = if srule e.tag prop = .maxLength ∧ outOfRange parseInt v = true then .error .indexSizeError
        else .ok (setResult e v (Spec.disp (htmlName prop) (srule e.tag prop)).set) :=
  setProp_of_cellOK genTables parseInt hpi e prop v (C19c_table e.tag prop h) hv

/-- An assignment raises if and only if it is an out-of-range maxLength. -/
theorem C19d_only_raise (parseInt : Str → Except PyErr Int) (hpi : ValueErrorOnly parseInt) (e : Elem) (prop : String) (v : PyV)
    (h : InTable e.tag prop) (hv : plain v = true) :
    (∃ err, setProp genTables parseInt e prop v = .error err) ↔ (srule e.tag prop = .maxLength ∧ outOfRange parseInt v = true) := by
  rw [C19d_assign parseInt hpi e prop v h hv]
  constructor
  · rintro ⟨err, he⟩
    split at he
    · assumption
    · cases he
  · intro hc
    exact ⟨_, if_pos hc⟩

/-- Reading back after an accepted assignment follows the same rule, applied to the stored text. -/
theorem C19d_roundtrip (parseInt : Str → Except PyErr Int) (hpi : ValueErrorOnly parseInt) (e : Elem) (prop : String) (v : PyV)
    (h : InTable e.tag prop) (hv : plain v = true) (hpy : e.pyattrs.lookup prop = none)
    (hacc : ¬ (srule e.tag prop = .maxLength ∧ outOfRange parseInt v = true)) :
    ∃ e', setProp genTables parseInt e prop v = .ok e' ∧ e'.tag = e.tag ∧ e'.ancestors = e.ancestors ∧
      getProp genTables parseInt e' prop
        = .ok (expected parseInt (srule e.tag prop) (stAfter parseInt (srule e.tag prop) v) e.ancestors e'.classNames) :=
  roundtrip_of_cellOK genTables parseInt hpi e prop v (C19c_table e.tag prop h) hv hpy hacc

/-! ## non-vacuity -/

example : InTable "a" "href" := .inr ⟨["href", "target"], by decide, by decide⟩
example : InTable "anything" "tabIndex" := .inl (by decide)

/-- `<td colspan="1001">`.colSpan = 1000, `<td colspan="-3">`.colSpan = 1, with the executable `int()`. -/
example : (getProp genTables pyIntOfStr (Elem.ofAttrList genTables "td" [] [("colspan", some (str "1001"))] (Elem.new "td")) "colSpan").toOption
    = some (.int 1000) := by decide +kernel
example : (getProp genTables pyIntOfStr (Elem.ofAttrList genTables "td" [] [("colspan", some (str "-3"))] (Elem.new "td")) "colSpan").toOption
    = some (.int 1) := by decide +kernel
/-- `input.maxLength = -4` raises, `input.maxLength = 5` stores maxlength="5". -/
example : (match setProp genTables pyIntOfStr (Elem.new "input") "maxLength" (.int (-4)) with
    | .error .indexSizeError => true | _ => false) = true := by decide +kernel
example : (setProp genTables pyIntOfStr (Elem.new "input") "maxLength" (.int 5)).toOption.map (·.attrs)
    = some [("maxlength", some (str "5"))] := by decide +kernel

end AHP.C19
