/-
  AHP.Spec.Build — the specification of tree construction (C02): recursive descent over the token
  sequence, **no open-element stack**.

  * `items open toks` parses the content of the element whose ancestors-or-self are `open`: a start tag
    opens a child whose content is parsed recursively (void / self-closed: a leaf); an end tag whose name
    is in `open` stops the parse *without being consumed* (the element's own end tag is consumed by its
    parent's continuation `afterContent`, an ancestor's is left for the ancestor — the implicit close);
    an end tag whose name is not open is skipped; end of input closes everything.
  * text, references and comments verbatim, in order; declarations and processing instructions make no node.
  * the specification's own void list (from the property text), tied to the source by a table obligation.
-/
import AHP.Model.Tree
namespace AHP.Spec
open AHP

/-- the property's void elements -/
def voidTags : List Str := ["br", "img", "input", "hr", "meta", "link"].map String.toList
def isVoid (n : Str) : Bool := voidTags.contains n

/-- the block a text-like token contributes -/
def textOf : Token → Option Str
  | .data d => if d.isEmpty then none else some d
  | .entity e => some ('&' :: e ++ [';'])
  | .charref c => some ('&' :: '#' :: c ++ [';'])
  | .comment c => some ("<!--".toList ++ c ++ "-->".toList)
  | _ => none

/-- what follows an element's content: its own end tag is consumed, an ancestor's is left in place -/
def afterContent (n : Str) (c2 : List Token) : List Token :=
  match c2 with
  | .end_ m :: r2 => if m = n then r2 else c2
  | r => r

/-- blocks of the element whose ancestors-or-self are `open_` (fuel `k` > length of the input). -/
def items : Nat → List Str → List Token → List Node × List Token
  | 0, _, ts => ([], ts)
  | _ + 1, _, [] => ([], [])
  | k + 1, open_, .end_ n :: ts =>
      if open_.contains n then ([], .end_ n :: ts) else items k open_ ts
  | k + 1, open_, .start n a :: ts =>
      let n := lower n
      if isVoid n then
        let r := items k open_ ts
        (.elem n (intake a AttrState.empty) true [] :: r.1, r.2)
      else
        let c := items k (n :: open_) ts               -- content of the new element
        let s := items k open_ (afterContent n c.2)    -- following siblings
        (.elem n (intake a AttrState.empty) false c.1 :: s.1, s.2)
  | k + 1, open_, .startend n a :: ts =>
      let r := items k open_ ts
      (.elem (lower n) (intake a AttrState.empty) true [] :: r.1, r.2)
  | k + 1, open_, t :: ts =>
      let r := items k open_ ts
      match textOf t with
      | some s => (.text s :: r.1, r.2)
      | none => r

/-- the doctype reported: every declaration replaces it; an unknown declaration only fills a gap -/
def doctypeStep (dt : Option Str) : Token → Option Str
  | .decl d => some d
  | .unknownDecl d =>
    match dt with
    | some d0 => if d0.isEmpty then some d else dt
    | none => some d
  | _ => dt

def doctypeOf (toks : List Token) : Option Str := toks.foldl doctypeStep none

def isBlankTok : Token → Bool
  | .data d => d.isEmpty || isBlank d
  | _ => false

/-- tokens that may surround the single root of a one-root document: blank text, declarations,
    processing instructions and (stray) end tags -/
def isOuter : Token → Bool
  | .data d => d.isEmpty || isBlank d
  | .decl _ => true
  | .unknownDecl _ => true
  | .pi _ => true
  | .end_ _ => true
  | _ => false

/-- after the root: only outer tokens -/
def epilogOk (ts : List Token) : Bool := ts.all isOuter

/-- A single-root document: outer tokens, one element (parsed by `items`), outer tokens.
    `some none` = nothing but outer tokens; `none` = not a single-root document. -/
def single : Nat → List Token → Option (Option Node)
  | 0, _ => none
  | _ + 1, [] => some none
  | k + 1, .start n a :: ts =>
      let n := lower n
      if isVoid n then
        if epilogOk ts then some (some (.elem n (intake a AttrState.empty) true [])) else none
      else
        let c := items k [n] ts
        if epilogOk (afterContent n c.2) then some (some (.elem n (intake a AttrState.empty) false c.1)) else none
  | _ + 1, .startend n a :: ts =>
      if epilogOk ts then some (some (.elem (lower n) (intake a AttrState.empty) true [])) else none
  | k + 1, t :: ts => if isOuter t then single k ts else none

/-- top-level content of a multi-root document: a leading doctype declaration, and newlines/blanks in
    front of it, are not content -/
def topTokens (toks : List Token) : List Token :=
  match leadDoctype toks with
  | some (_, r) => r
  | none => toks

/-- The document the specification assigns to a token sequence: a single root when the input is a
    single-root document, otherwise all top-level blocks (text between the top-level elements kept)
    inside the invisible wrapper. -/
def build (toks : List Token) : Doc × Bool :=
  match single (toks.length + 1) toks with
  | some r => (⟨doctypeOf toks, r⟩, false)
  | none =>
    (⟨doctypeOf toks,
      some (.elem wrapperName AttrState.empty false (items (toks.length + 1) [] (topTokens toks)).1)⟩, true)

/-- the input mentions the reserved wrapper name (outside the property's domain) -/
def mentionsWrapper : Token → Bool
  | .start n _ => lower n = wrapperName
  | .startend n _ => lower n = wrapperName
  | .end_ n => n = wrapperName
  | _ => false

end AHP.Spec
