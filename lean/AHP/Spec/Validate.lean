/-
  AHP.Spec.Validate — specification side of C13.

  * `classify`: an independent scan over *names only* (no tree, no attributes beyond their names' legality)
    that reports the first error of a token sequence: stray close, skipped close, bad attribute name — or
    the "several top-level nodes" condition that makes the parser retry inside the wrapper.
  * `Bal`: the grammar of balanced documents (every end tag matches the innermost open element, every
    non-void element is closed, attribute names legal).
-/
import AHP.Spec.Build
namespace AHP.Spec
open AHP

def legalAttrs (a : List Attr) : Bool := a.all (fun p => validAttrName p.1)

/-- first error of `ts`, given the names of the open elements (innermost first) and whether the root
    element exists already; `none` = accepted.

    What this reading is made of: a stack of NAMES (`List Str`) and one `Bool` — no tree, no attribute values, no
    frames.  What it SHARES with the model (`vStepT`, Model/Builder.lean), exactly: the leaf predicates
    `validAttrName` (through `legalAttrs`: the transliteration of `Tags.isValidAttributeName`, ASCII letters only —
    DESIGN §7), `lower`, `isBlank`; the void list is the specification's own (`Spec.isVoid`, tied to the generated
    table by `isVoid_eq`).  The order of the tests in each branch is the order of the property text ("attribute
    name … whichever comes first": the attribute check precedes everything in a start tag).  Because a scan with the
    same branch structure as the handler is only a projection of it, the DECLARATIVE reading below (`errAt`,
    `openAfter`, `FirstError`) states the same thing without any interleaving: a context fold that knows nothing
    about errors, a local error predicate that knows nothing about the rest of the input, and "the first position
    where the predicate fires" — `classify_some_iff` (Lemmas/ValidateDoc.lean) proves the two readings equal. -/
def classify : List Str → Bool → List Token → Option Exc
  | _, _, [] => none
  | open_, root, .start n a :: ts =>
    if !legalAttrs a then some .invalidAttr
    else if root && open_.isEmpty then some .multipleRoot
    else if isVoid (lower n) then classify open_ true ts
    else classify (lower n :: open_) true ts
  | open_, root, .startend _ a :: ts =>
    if !legalAttrs a then some .invalidAttr
    else if root && open_.isEmpty then some .multipleRoot
    else classify open_ true ts
  | open_, root, .end_ n :: ts =>
    match open_ with
    | [] => some .invalidClose
    | m :: rest =>
      if !open_.contains n then some .invalidClose
      else if m ≠ n then some .missedClose
      else classify rest root ts
  | open_, root, .data d :: ts =>
    if d.isEmpty || !open_.isEmpty || isBlank d then classify open_ root ts else some .multipleRoot
  | open_, root, .entity _ :: ts => if open_.isEmpty then some .multipleRoot else classify open_ root ts
  | open_, root, .charref _ :: ts => if open_.isEmpty then some .multipleRoot else classify open_ root ts
  | open_, root, .comment _ :: ts => if open_.isEmpty then some .multipleRoot else classify open_ root ts
  | open_, root, _ :: ts => classify open_ root ts

/-! ### the declarative reading of `classify`: context fold + local error predicate + "first" -/

/-- names of the open elements after an ERROR-FREE prefix (innermost first): a start tag of a non-void element
    pushes its name, an end tag pops one name (error-free: it is the innermost).  Names only; knows nothing
    about errors. -/
def openAfter : List Str → List Token → List Str
  | o, [] => o
  | o, .start n _ :: ts => if isVoid (lower n) then openAfter o ts else openAfter (lower n :: o) ts
  | o, .end_ _ :: ts => openAfter o.tail ts
  | o, _ :: ts => openAfter o ts

/-- has a root element been seen after the prefix -/
def rootAfter : Bool → List Token → Bool
  | r, [] => r
  | _, .start _ _ :: ts => rootAfter true ts
  | _, .startend _ _ :: ts => rootAfter true ts
  | r, _ :: ts => rootAfter r ts

/-- is THIS token in error, given the open names and whether a root exists — the property's clauses one by one:
    a start tag carrying an illegal attribute name; an end tag that matches no open element; an end tag whose
    matching element is not the innermost; and the several-top-level-nodes condition (a second root element, or
    text / reference / comment outside every element) that makes the parser retry inside the wrapper. -/
def errAt (o : List Str) (r : Bool) : Token → Option Exc
  | .start _ a => if !legalAttrs a then some .invalidAttr else if r && o.isEmpty then some .multipleRoot else none
  | .startend _ a => if !legalAttrs a then some .invalidAttr else if r && o.isEmpty then some .multipleRoot else none
  | .end_ n =>
    match o with
    | [] => some .invalidClose
    | m :: _ => if !o.contains n then some .invalidClose else if m ≠ n then some .missedClose else none
  | .data d => if d.isEmpty || !o.isEmpty || isBlank d then none else some .multipleRoot
  | .entity _ => if o.isEmpty then some .multipleRoot else none
  | .charref _ => if o.isEmpty then some .multipleRoot else none
  | .comment _ => if o.isEmpty then some .multipleRoot else none
  | _ => none

/-- no token of `ts` is in error in its context -/
def Clean (o : List Str) (r : Bool) (ts : List Token) : Prop :=
  ∀ p x q, ts = p ++ x :: q → errAt (openAfter o p) (rootAfter r p) x = none

/-- `e` is the error of the FIRST token of `ts` that is in error -/
def FirstError (o : List Str) (r : Bool) (ts : List Token) (e : Exc) : Prop :=
  ∃ pre t post, ts = pre ++ t :: post ∧ Clean o r pre ∧ errAt (openAfter o pre) (rootAfter r pre) t = some e

/-- tokens that never open or close anything -/
def isInert : Token → Bool
  | .start _ _ => false
  | .startend _ _ => false
  | .end_ _ => false
  | _ => true

/-- balanced token sequences with legal attribute names -/
inductive Bal : List Token → Prop
  | nil : Bal []
  | inert (t : Token) (ts : List Token) : isInert t = true → Bal ts → Bal (t :: ts)
  | void (n : Str) (a : List Attr) (ts : List Token) :
      legalAttrs a = true → isVoid (lower n) = true → Bal ts → Bal (.start n a :: ts)
  | selfClosed (n : Str) (a : List Attr) (ts : List Token) :
      legalAttrs a = true → Bal ts → Bal (.startend n a :: ts)
  | elem (n : Str) (a : List Attr) (inner ts : List Token) :
      legalAttrs a = true → isVoid (lower n) = false → Bal inner → Bal ts →
      Bal (.start n a :: inner ++ .end_ (lower n) :: ts)

end AHP.Spec
