/-
  AHP.Spec.Validate — specification side of C13.

  * `classify`: an independent scan over *names only* (no tree, no attributes beyond their names' legality)
    that reports the first error of a token sequence: stray close, skipped close, bad attribute name — or
    the "several top-level nodes" condition that makes the parser retry inside the wrapper.
  * `Bal`: the grammar of balanced documents (every end tag matches the innermost open element, every
    non-void element is closed, attribute names legal).
-/
import AHP.Spec.Build
namespace AHP.Spec
open AHP

def legalAttrs (a : List Attr) : Bool := a.all (fun p => validAttrName p.1)

/-- first error of `ts`, given the names of the open elements (innermost first) and whether the root
    element exists already; `none` = accepted -/
def classify : List Str → Bool → List Token → Option Exc
  | _, _, [] => none
  | open_, root, .start n a :: ts =>
    if !legalAttrs a then some .invalidAttr
    else if root && open_.isEmpty then some .multipleRoot
    else if isVoid (lower n) then classify open_ true ts
    else classify (lower n :: open_) true ts
  | open_, root, .startend _ a :: ts =>
    if !legalAttrs a then some .invalidAttr
    else if root && open_.isEmpty then some .multipleRoot
    else classify open_ true ts
  | open_, root, .end_ n :: ts =>
    match open_ with
    | [] => some .invalidClose
    | m :: rest =>
      if !open_.contains n then some .invalidClose
      else if m ≠ n then some .missedClose
      else classify rest root ts
  | open_, root, .data d :: ts =>
    if d.isEmpty || !open_.isEmpty || isBlank d then classify open_ root ts else some .multipleRoot
  | open_, root, .entity _ :: ts => if open_.isEmpty then some .multipleRoot else classify open_ root ts
  | open_, root, .charref _ :: ts => if open_.isEmpty then some .multipleRoot else classify open_ root ts
  | open_, root, .comment _ :: ts => if open_.isEmpty then some .multipleRoot else classify open_ root ts
  | open_, root, _ :: ts => classify open_ root ts

/-- tokens that never open or close anything -/
def isInert : Token → Bool
  | .start _ _ => false
  | .startend _ _ => false
  | .end_ _ => false
  | _ => true

/-- balanced token sequences with legal attribute names -/
inductive Bal : List Token → Prop
  | nil : Bal []
  | inert (t : Token) (ts : List Token) : isInert t = true → Bal ts → Bal (t :: ts)
  | void (n : Str) (a : List Attr) (ts : List Token) :
      legalAttrs a = true → isVoid (lower n) = true → Bal ts → Bal (.start n a :: ts)
  | selfClosed (n : Str) (a : List Attr) (ts : List Token) :
      legalAttrs a = true → Bal ts → Bal (.startend n a :: ts)
  | elem (n : Str) (a : List Attr) (inner ts : List Token) :
      legalAttrs a = true → isVoid (lower n) = false → Bal inner → Bal ts →
      Bal (.start n a :: inner ++ .end_ (lower n) :: ts)

end AHP.Spec
