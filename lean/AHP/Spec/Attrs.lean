/-
  AHP.Spec.Attrs — the specification of the attribute clause and of the doctype clause of C02, written from the
  property text, WITHOUT `intake` / `AttrState.set` / `dictSet` / `stepD`.

  "attribute names are lower-cased with invalid names dropped and the last duplicate winning":

  * `named l`   — the pairs of `l` with their names lower-cased, the invalid names gone (`validName`: a letter or an
                  underscore first, then letters, digits, `-`, `_`);
  * `attrs l`   — the names of `named l` in the order of their FIRST occurrence, each with the value of its LAST
                  occurrence.

  The library then normalises three names (documented: `className` / `classList`, `style`, `spellcheck`):

  * `normalise` — `class`: the words of the value joined by single blanks, listed LAST, absent when there is no
                  word; `style`: parsed and re-rendered, absent when it has no declaration; `spellcheck`: the boolean
                  string of the value.
  * `liveStyle` — library behaviour outside the property text (`_ensureHtmlAttribute` deletes the `style` entry when
                  the style has no declaration): a `style` attribute without declaration removes every earlier `style`
                  attribute from the competition, so a later one is listed at ITS OWN position.

  "the doctype is reported separately": `doctypeRead` — the last doctype declaration if it is non-empty; otherwise
  the first non-empty unknown declaration behind it (behind the start of the input if there is no declaration).
-/
import AHP.Model.Tree
import AHP.Spec.Build
namespace AHP.Spec
open AHP

/-! ### attribute names -/

def nameStart (c : Char) : Bool := ('a' ≤ c && c ≤ 'z') || ('A' ≤ c && c ≤ 'Z') || c = '_'
def nameChar (c : Char) : Bool := nameStart c || ('0' ≤ c && c ≤ '9') || c = '-'

/-- a valid attribute name: a letter or underscore, then letters, digits, dashes, underscores -/
def validName : Str → Bool
  | [] => false
  | c :: cs => nameStart c && cs.all nameChar

/-- names lower-cased, invalid names dropped -/
def named (l : List Attr) : List Attr :=
  (l.map (fun p => (lower p.1, p.2))).filter (fun p => validName p.1)

/-- the distinct elements in the order of their first occurrence -/
def firstOcc (ks : List Str) : List Str :=
  ks.foldl (fun acc k => if acc.contains k then acc else acc ++ [k]) []

/-- the value of the last pair named `k` (`none` also when that value is missing) -/
def lastVal (ps : List Attr) (k : Str) : Option Str :=
  ps.foldl (fun cur p => if p.1 = k then p.2 else cur) none

/-- **the attribute clause**: lower-cased valid names in the order of their first occurrence, each with the value
    of its last occurrence -/
def attrs (l : List Attr) : List Attr :=
  (firstOcc ((named l).map (·.1))).map (fun k => (k, lastVal (named l) k))

/-! ### the documented normalisation of `class`, `style`, `spellcheck` -/

def kClass : Str := "class".toList
def kStyle : Str := "style".toList
def kSpell : Str := "spellcheck".toList

/-- one listed pair other than `class` -/
def normItem (p : Attr) : Option Attr :=
  if p.1 = kStyle then
    (if (styleToDict (p.2.getD [])).isEmpty then none
     else some (p.1, some (styleStr (styleToDict (p.2.getD [])))))
  else if p.1 = kSpell then some (p.1, some (boolString p.2))
  else some p

/-- the class names of a listed attribute set -/
def classWordsOf (as : List Attr) : List Str :=
  match as.find? (fun p => p.1 = kClass) with
  | some p => classNamesOf p.2
  | none => []

def normalise (as : List Attr) : List Attr :=
  let body := (as.filter (fun p => p.1 ≠ kClass)).filterMap normItem
  if (classWordsOf as).isEmpty then body else body ++ [(kClass, some (joinWith [' '] (classWordsOf as)))]

/-- a `style` attribute (any letter case) -/
def isStyleAttr (p : Attr) : Bool := lower p.1 = kStyle
/-- …whose text has no declaration -/
def deadStyle (p : Attr) : Bool := isStyleAttr p && (styleToDict (p.2.getD [])).isEmpty

/-- the attribute list without the `style` attributes up to and including the last one that has no declaration -/
def liveStyle (l : List Attr) : List Attr :=
  l.foldl (fun acc p => if deadStyle p then acc.filter (fun q => !isStyleAttr q) else acc ++ [p]) []

/-! ### the doctype clause -/

/-- the last doctype declaration -/
def lastDecl (ts : List Token) : Option Str :=
  ts.foldl (fun cur t => match t with | .decl d => some d | _ => cur) none

/-- the unknown declarations (`<![ … ]>`) behind the last doctype declaration, in order -/
def unknownsAfterLastDecl (ts : List Token) : List Str :=
  ts.foldl (fun acc t => match t with | .decl _ => [] | .unknownDecl u => acc ++ [u] | _ => acc) []

/-- the reading as a function of the last doctype declaration and the unknown declarations behind it: the
    declaration when it is non-empty; otherwise the first non-empty unknown declaration; otherwise the empty text if
    there was any unknown declaration, else the (empty or missing) declaration itself -/
def doctypeOfParts (base : Option Str) (us : List Str) : Option Str :=
  match base with
  | some (c :: d) => some (c :: d)
  | base =>
    match us.find? (fun u => !u.isEmpty) with
    | some u => some u
    | none => if us.isEmpty then base else some []

/-- **the doctype clause**: the last doctype declaration when it is non-empty; otherwise the first non-empty
    unknown declaration behind it (behind the start of the input when there is no declaration) -/
def doctypeRead (ts : List Token) : Option Str :=
  doctypeOfParts (lastDecl ts) (unknownsAfterLastDecl ts)

/-! ### the whole document, as the public API shows it, WITHOUT `intake` and `stepD`

  `Spec.build` (Spec/Build.lean) specifies the tree SHAPE independently (no open-element stack) but builds every
  element's store with the model's `intake`.  `buildO` is the same recursive descent producing what the API shows
  (`OTree`: names, listed attribute pairs, self-closing flags, blocks) with the attribute list of an element given
  by the attribute clause above and the doctype by `doctypeRead`. -/

/-- what the public API shows of a tree -/
inductive OTree where
  | text (s : Str)
  | elem (name : Str) (attrs : List Attr) (sc : Bool) (kids : List OTree)
  deriving Repr, Inhabited

/-- the attribute pairs an element made from the start tag's raw list shows -/
def elemAttrs (a : List Attr) : List Attr := normalise (attrs (liveStyle a))

def itemsO : Nat → List Str → List Token → List OTree × List Token
  | 0, _, ts => ([], ts)
  | _ + 1, _, [] => ([], [])
  | k + 1, open_, .end_ n :: ts =>
      if open_.contains n then ([], .end_ n :: ts) else itemsO k open_ ts
  | k + 1, open_, .start n a :: ts =>
      let n := lower n
      if isVoid n then
        let r := itemsO k open_ ts
        (.elem n (elemAttrs a) true [] :: r.1, r.2)
      else
        let c := itemsO k (n :: open_) ts
        let s := itemsO k open_ (afterContent n c.2)
        (.elem n (elemAttrs a) false c.1 :: s.1, s.2)
  | k + 1, open_, .startend n a :: ts =>
      let r := itemsO k open_ ts
      (.elem (lower n) (elemAttrs a) true [] :: r.1, r.2)
  | k + 1, open_, t :: ts =>
      let r := itemsO k open_ ts
      match textOf t with
      | some s => (.text s :: r.1, r.2)
      | none => r

def singleO : Nat → List Token → Option (Option OTree)
  | 0, _ => none
  | _ + 1, [] => some none
  | k + 1, .start n a :: ts =>
      let n := lower n
      if isVoid n then
        if epilogOk ts then some (some (.elem n (elemAttrs a) true [])) else none
      else
        let c := itemsO k [n] ts
        if epilogOk (afterContent n c.2) then some (some (.elem n (elemAttrs a) false c.1)) else none
  | _ + 1, .startend n a :: ts =>
      if epilogOk ts then some (some (.elem (lower n) (elemAttrs a) true [])) else none
  | k + 1, t :: ts => if isOuter t then singleO k ts else none

/-- the document the specification assigns to a token sequence, as the API shows it: doctype, root, and whether the
    invisible wrapper was needed -/
def buildO (toks : List Token) : (Option Str × Option OTree) × Bool :=
  match singleO (toks.length + 1) toks with
  | some r => ((doctypeRead toks, r), false)
  | none =>
    ((doctypeRead toks, some (.elem wrapperName [] false (itemsO (toks.length + 1) [] (topTokens toks)).1)), true)

end AHP.Spec
