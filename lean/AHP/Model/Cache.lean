/-
  AHP.Model.Cache — the compiled-expression cache of `xpath/_cache.py` and its use by
  `XPathExpression.__init__` / `evaluate` (`xpath/expression.py`), as the code has it.

  * `cachedCompiledExpressions` is a Python `dict` (insertion ordered association list here),
    `recentCachedExpressionStrs` a Python `list` of keys, cold side first.
  * `getCachedExpression`: lookup; on a hit, remove *every* occurrence of the key from the recency
    list (the `while True: try: remove … except ValueError: break` loop) and append it.
  * `setCachedExpression`: same remove-all-then-append, store, and when the recency list has become
    longer than `MAX` drop the oldest `len − (MAX − CLEAR)` keys from the map and keep
    `recent[-(MAX − CLEAR):]` — with Python's slice rules, so that `recent[-0:]` is the whole list.
  * The module constants are read at call time, so `MAX`/`CLEAR` are arguments.
  * The lock: `Pc`/`bodyStep`/`lstep` below render both methods as small-step programs over an explicit
    `held : Bool`, one step per statement the code performs between `acquire` and `release` (the
    critical sections are NOT atomic at that level); `LThread`/`ltStep` run whole threads on it.

  Keys are `sha1(expression text)` in the code; here a function `key : E → K` (the theorems ask for
  injectivity, i.e. sha1 is assumed collision-free on the expressions in play).
-/
namespace AHP.Cache

/-! ### Python list slices -/

/-- Python `l[:stop]` for any integer `stop`. -/
def sliceTo (l : List α) (stop : Int) : List α :=
  let n : Int := l.length
  let s : Int := if stop < 0 then stop + n else stop
  l.take s.toNat

/-- Python `l[start:]` for any integer `start` (so `l[-0:] = l[0:] = l`). -/
def sliceFrom (l : List α) (start : Int) : List α :=
  let n : Int := l.length
  let s : Int := if start < 0 then start + n else start
  l.drop s.toNat

/-! ### Python dict (insertion ordered) -/

section Dict
variable {K V : Type} [DecidableEq K]

def dictGet : List (K × V) → K → Option V
  | [], _ => none
  | (k', v) :: rest, k => if k' = k then some v else dictGet rest k

/-- `d[k] = v`: an existing key keeps its position. -/
def dictSet : List (K × V) → K → V → List (K × V)
  | [], k, v => [(k, v)]
  | (k', v') :: rest, k, v => if k' = k then (k, v) :: rest else (k', v') :: dictSet rest k v

/-- `try: del d[k] except: pass`. -/
def dictDel (d : List (K × V)) (k : K) : List (K × V) := d.filter (fun p => !decide (p.1 = k))

def dictKeys (d : List (K × V)) : List K := d.map (·.1)

end Dict

/-! ### The cache object -/

structure State (K V : Type) where
  map : List (K × V)      -- cachedCompiledExpressions
  recent : List K         -- recentCachedExpressionStrs (cold … hot)
  deriving Repr

def State.empty {K V : Type} : State K V := ⟨[], []⟩

section Cache
variable {K V : Type} [DecidableEq K]

/-- The loop `while True: try: l.remove(k) except ValueError: break`; `fuel` bounds the iterations
    (`l.length` suffices: every iteration removes one element). -/
def removeLoop : Nat → K → List K → List K
  | 0, _, l => l
  | fuel + 1, k, l => if k ∈ l then removeLoop fuel k (l.erase k) else l

def removeAll (k : K) (l : List K) : List K := removeLoop l.length k l

/-- `getCachedExpression` (between `acquire` and `release`). -/
def get (s : State K V) (k : K) : State K V × Option V :=
  match dictGet s.map k with
  | none => (s, none)
  | some v => ({ s with recent := removeAll k s.recent ++ [k] }, some v)

/-- `setCachedExpression` (between `acquire` and `release`). -/
def set (MAX CLEAR : Nat) (s : State K V) (k : K) (v : V) : State K V :=
  let recent1 := removeAll k s.recent ++ [k]
  let map1 := dictSet s.map k v
  if recent1.length > MAX then
    let remain : Int := (MAX : Int) - (CLEAR : Int)
    let keysToRemove := sliceTo recent1 ((recent1.length : Int) - remain)
    { map := keysToRemove.foldl dictDel map1, recent := sliceFrom recent1 (-1 * remain) }
  else
    { map := map1, recent := recent1 }

end Cache

/-! ### `XPathExpression.__init__` and the event histories of C15 -/

section Expr
variable {E K V T R : Type} [DecidableEq K]

/-- `XPathExpression(text)`: look the key up; on a miss compile (a compile error propagates and
    inserts nothing) and store.  Returns the new state and the operations the new object holds
    (`none` = the constructor raised). -/
def newExpr (compile : E → Option V) (key : E → K) (MAX CLEAR : Nat)
    (s : State K V) (e : E) : State K V × Option V :=
  match get s (key e) with
  | (s', some v) => (s', some v)
  | (s', none) =>
    match compile e with
    | none => (s', none)
    | some v => (set MAX CLEAR s' (key e) v, some v)

/-- The events of a history. -/
inductive Event (E T : Type) where
  | new (e : E)                 -- `obj = XPathExpression(text)`; kept in the next slot when it succeeds
  | evalSlot (slot : Nat) (t : T)  -- `slots[slot].evaluate(tree)`: a compiled object reused
  | query (e : E) (t : T)       -- `XPathExpression(text).evaluate(tree)` (what every entry point does)
  deriving Repr

/-- What an event shows. -/
inductive Obs (R : Type) where
  | compiled            -- constructor returned
  | compileError        -- constructor raised
  | result (r : R)      -- evaluation outcome (element list or run-time error — `R` holds both)
  | noSlot              -- harness-level: the slot does not exist
  deriving Repr, DecidableEq

structure World (K V : Type) where
  cache : State K V
  slots : List V          -- live expression objects, in creation order

def World.empty {K V : Type} : World K V := ⟨State.empty, []⟩

def step (compile : E → Option V) (key : E → K) (eval : V → T → R) (MAX CLEAR : Nat)
    (w : World K V) : Event E T → World K V × Obs R
  | .new e =>
    match newExpr compile key MAX CLEAR w.cache e with
    | (c, some v) => ({ cache := c, slots := w.slots ++ [v] }, .compiled)
    | (c, none) => ({ w with cache := c }, .compileError)
  | .evalSlot i t =>
    match w.slots[i]? with
    | some v => (w, .result (eval v t))
    | none => (w, .noSlot)
  | .query e t =>
    match newExpr compile key MAX CLEAR w.cache e with
    | (c, some v) => ({ w with cache := c }, .result (eval v t))
    | (c, none) => ({ w with cache := c }, .compileError)

/-- Run a history, collecting after every event the observation and the cache state. -/
def run (compile : E → Option V) (key : E → K) (eval : V → T → R) (MAX CLEAR : Nat) :
    World K V → List (Event E T) → List (Obs R × State K V)
  | _, [] => []
  | w, ev :: evs =>
    let (w', o) := step compile key eval MAX CLEAR w ev
    (o, w'.cache) :: run compile key eval MAX CLEAR w' evs

/-- The final world of a history. -/
def exec (compile : E → Option V) (key : E → K) (eval : V → T → R) (MAX CLEAR : Nat) :
    World K V → List (Event E T) → World K V
  | w, [] => w
  | w, ev :: evs => exec compile key eval MAX CLEAR (step compile key eval MAX CLEAR w ev).1 evs

end Expr

/-! ### Threads: each cache operation is one atomic step (the lock), everything else is thread-local

  A thread works through its own event list.  `XPathExpression(text)` is *two* critical sections with
  the compilation in between and outside the lock, so other threads may run between the lookup and
  the store: `pending = some v` is the program point "missed, compiled to `v`, store still to do". -/

section Threads
variable {E K V T R : Type} [DecidableEq K]

def Event.expr? : Event E T → Option E
  | .new e => some e
  | .query e _ => some e
  | .evalSlot .. => none

structure Thread (E V T R : Type) where
  todo : List (Event E T)
  pending : Option V
  slots : List V
  obs : List (Obs R)

def Thread.init (evs : List (Event E T)) : Thread E V T R := ⟨evs, none, [], []⟩

/-- The head event `ev` completes holding the operations `v`. -/
def Thread.finish (eval : V → T → R) (th : Thread E V T R) (ev : Event E T) (rest : List (Event E T)) (v : V) :
    Thread E V T R :=
  match ev with
  | .new _ => { todo := rest, pending := none, slots := th.slots ++ [v], obs := th.obs ++ [.compiled] }
  | .query _ t => { todo := rest, pending := none, slots := th.slots, obs := th.obs ++ [.result (eval v t)] }
  | .evalSlot .. => th

/-- One scheduling quantum of a thread: at most one cache operation. -/
def tstep (compile : E → Option V) (key : E → K) (eval : V → T → R) (MAX CLEAR : Nat)
    (c : State K V) (th : Thread E V T R) : State K V × Thread E V T R :=
  match th.todo with
  | [] => (c, th)
  | ev :: rest =>
    match ev.expr? with
    | none =>
      match ev with
      | .evalSlot i t =>
        (c, { th with todo := rest, obs := th.obs ++ [match th.slots[i]? with
                                                      | some v => .result (eval v t)
                                                      | none => .noSlot] })
      | _ => (c, th)
    | some e =>
      match th.pending with
      | some v => (set MAX CLEAR c (key e) v, th.finish eval ev rest v)
      | none =>
        match get c (key e) with
        | (c', some v) => (c', th.finish eval ev rest v)
        | (c', none) =>
          match compile e with
          | none => (c', { th with todo := rest, obs := th.obs ++ [.compileError] })
          | some v => (c', { th with pending := some v })

structure Sys (E K V T R : Type) where
  cache : State K V
  threads : List (Thread E V T R)

def Sys.init (evss : List (List (Event E T))) : Sys E K V T R := ⟨State.empty, evss.map Thread.init⟩

/-- Thread `i` gets the next quantum. -/
def sysStep (compile : E → Option V) (key : E → K) (eval : V → T → R) (MAX CLEAR : Nat)
    (s : Sys E K V T R) (i : Nat) : Sys E K V T R :=
  match s.threads[i]? with
  | none => s
  | some th =>
    let (c, th') := tstep compile key eval MAX CLEAR s.cache th
    { cache := c, threads := s.threads.set i th' }

/-- Run a schedule (a list of thread indices). -/
def sysRun (compile : E → Option V) (key : E → K) (eval : V → T → R) (MAX CLEAR : Nat)
    (s : Sys E K V T R) (sched : List Nat) : Sys E K V T R :=
  sched.foldl (sysStep compile key eval MAX CLEAR) s

/-- What is left to do: two quanta per expression event at most. -/
def Thread.measure (th : Thread E V T R) : Nat :=
  2 * th.todo.length - (if th.pending.isSome then 1 else 0)

end Threads

/-! ### The critical sections as small-step programs over an explicit lock

  One `lstep` is ONE statement of `getCachedExpression` / `setCachedExpression` as the code performs
  it between `acquire` and `release`: the dict lookup, one iteration of the
  `while True: try: remove(key) except ValueError: break` loop, the `append`, the dict store, the length
  test (which also computes `keysToRemove`, a local), one iteration of the `for keyToRemove …: del`
  loop, the slice assignment.  Every body step reads and writes the *shared* cache, so another thread
  scheduled in between sees (and would disturb) the half-done state: the sections are not atomic here.
  The lock is `held : Bool`: `acquire` is enabled only while the lock is free, and a thread takes a
  body step or a release only while the lock is held (the check is vacuous on reachable
  configurations — C15 `holder_never_blocked`).  `lstepG false` is the same machine without these
  checks, i.e. without the lock (the counter-model of C15: it breaks the cache invariant).

  The exception path of `setCachedExpression` (`except Exception: release; raise`) is the `.setFail`
  program point: the body may fail where it first touches the data (`fail = true` chooses that path). -/

inductive Pc (K V : Type) where
  | getAcquire (k : K)                 -- before `self.cacheLock.acquire()` in getCachedExpression
  | getLookup (k : K)                  -- holding: `obj = self.cachedCompiledExpressions.get(key, None)`
  | getRemove (k : K) (v : V)          -- holding, hit: one `try: recent.remove(key) except ValueError: break`
  | getAppend (k : K) (v : V)          -- holding: `recent.append(key)`
  | getRelease (r : Option V)          -- holding, about to release (either return path)
  | setAcquire (k : K) (v : V) (fail : Bool)
  | setRemove (k : K) (v : V) (fail : Bool)   -- holding: one iteration of the remove loop (first body statement)
  | setStore (k : K) (v : V)           -- holding: `self.cachedCompiledExpressions[key] = obj`
  | setAppend (k : K)                  -- holding: `recent.append(key)`
  | setCheck                           -- holding: `if len(recent) > MAX:` and `keysToRemove = recent[: len − remain]`
  | setDel (ks : List K)               -- holding: `for keyToRemove in keysToRemove: try: del map[…] except: pass`
  | setSlice                           -- holding: `recent = recent[-1 * remain :]`
  | setRelease                         -- normal exit: `self.cacheLock.release()`
  | setFail                            -- `except Exception as exc: self.cacheLock.release(); raise exc`
  | done (r : Option V) (raised : Bool)
  deriving Repr, DecidableEq

structure Shared (K V : Type) where
  held : Bool
  cache : State K V

/-- Does the thread at `pc` hold the lock? -/
def Pc.holds {K V : Type} : Pc K V → Bool
  | .getAcquire _ | .setAcquire .. | .done .. => false
  | _ => true

def Pc.isDone {K V : Type} : Pc K V → Bool
  | .done .. => true
  | _ => false

/-- The three `self.cacheLock.release()` statements. -/
def Pc.isRelease {K V : Type} : Pc K V → Bool
  | .getRelease _ | .setRelease | .setFail => true
  | _ => false

/-- Where `acquire` continues. -/
def Pc.afterAcquire {K V : Type} : Pc K V → Pc K V
  | .getAcquire k => .getLookup k
  | .setAcquire k v f => .setRemove k v f
  | pc => pc

/-- Where `release` continues: the method returns (`raised` = re-raises). -/
def Pc.afterRelease {K V : Type} : Pc K V → Pc K V
  | .getRelease r => .done r false
  | .setRelease => .done none false
  | .setFail => .done none true
  | pc => pc

/-- One statement inside a critical section, executed on the shared cache as it is *now*. -/
def bodyStep {K V : Type} [DecidableEq K] (MAX CLEAR : Nat) (c : State K V) : Pc K V → State K V × Pc K V
  | .getLookup k =>
    match dictGet c.map k with
    | none => (c, .getRelease none)
    | some v => (c, .getRemove k v)
  | .getRemove k v =>
    if k ∈ c.recent then ({ c with recent := c.recent.erase k }, .getRemove k v) else (c, .getAppend k v)
  | .getAppend k v => ({ c with recent := c.recent ++ [k] }, .getRelease (some v))
  | .setRemove k v f =>
    if f then (c, .setFail)
    else if k ∈ c.recent then ({ c with recent := c.recent.erase k }, .setRemove k v false) else (c, .setStore k v)
  | .setStore k v => ({ c with map := dictSet c.map k v }, .setAppend k)
  | .setAppend k => ({ c with recent := c.recent ++ [k] }, .setCheck)
  | .setCheck =>
    if c.recent.length > MAX then
      (c, .setDel (sliceTo c.recent ((c.recent.length : Int) - ((MAX : Int) - (CLEAR : Int)))))
    else (c, .setRelease)
  | .setDel [] => (c, .setSlice)
  | .setDel (x :: ks) => ({ c with map := dictDel c.map x }, .setDel ks)
  | .setSlice => ({ c with recent := sliceFrom c.recent (-1 * ((MAX : Int) - (CLEAR : Int))) }, .setRelease)
  | pc => (c, pc)

/-- One step of one thread at program point `pc`; `none` = the thread cannot move (blocked on
    `acquire`, or — never, on reachable configurations — inside a section without the lock).
    `useLock = false` drops every test of `held`: the machine without the lock. -/
def lstepG {K V : Type} [DecidableEq K] (useLock : Bool) (MAX CLEAR : Nat) (sh : Shared K V) (pc : Pc K V) :
    Option (Shared K V × Pc K V) :=
  if pc.isDone then some (sh, pc)
  else if pc.holds then
    if useLock && !sh.held then none
    else if pc.isRelease then some ({ sh with held := false }, pc.afterRelease)
    else some ({ sh with cache := (bodyStep MAX CLEAR sh.cache pc).1 }, (bodyStep MAX CLEAR sh.cache pc).2)
  else
    if useLock && sh.held then none
    else some ({ sh with held := true }, pc.afterAcquire)

/-- The machine of the code: with the lock. -/
def lstep {K V : Type} [DecidableEq K] (MAX CLEAR : Nat) (sh : Shared K V) (pc : Pc K V) :
    Option (Shared K V × Pc K V) := lstepG true MAX CLEAR sh pc

/-- `n` consecutive steps of the same thread (nobody else scheduled in between). -/
def lsteps {K V : Type} [DecidableEq K] (MAX CLEAR : Nat) : Nat → Shared K V → Pc K V → Option (Shared K V × Pc K V)
  | 0, sh, pc => some (sh, pc)
  | n + 1, sh, pc =>
    match lstep MAX CLEAR sh pc with
    | none => none
    | some (sh', pc') => lsteps MAX CLEAR n sh' pc'

/-- A lock-level configuration of cache *operations*: the shared cell and one program point per thread
    (each thread performs one `getCachedExpression` / `setCachedExpression`, possibly failing). -/
structure LSys (K V : Type) where
  sh : Shared K V
  pcs : List (Pc K V)

/-- Thread `i` moves; `none` = it cannot (blocked, or does not exist). -/
def lsysStepG {K V : Type} [DecidableEq K] (useLock : Bool) (MAX CLEAR : Nat) (s : LSys K V) (i : Nat) :
    Option (LSys K V) :=
  match s.pcs[i]? with
  | none => none
  | some pc =>
    match lstepG useLock MAX CLEAR s.sh pc with
    | none => none
    | some (sh', pc') => some ⟨sh', s.pcs.set i pc'⟩

def lsysStep {K V : Type} [DecidableEq K] (MAX CLEAR : Nat) (s : LSys K V) (i : Nat) : Option (LSys K V) :=
  lsysStepG true MAX CLEAR s i

/-- Run a schedule; a pick of a thread that cannot move is a wasted quantum. -/
def lsysRunG {K V : Type} [DecidableEq K] (useLock : Bool) (MAX CLEAR : Nat) (s : LSys K V) (sched : List Nat) :
    LSys K V :=
  sched.foldl (fun s i => (lsysStepG useLock MAX CLEAR s i).getD s) s

def lsysRun {K V : Type} [DecidableEq K] (MAX CLEAR : Nat) (s : LSys K V) (sched : List Nat) : LSys K V :=
  lsysRunG true MAX CLEAR s sched

/-! ### Whole threads at the lock level

  A lock-level thread is a `Thread` of the quantum machine plus the program point of the cache operation
  it is in (`none` = between operations, at the top of its event loop).  `XPathExpression(text)`:
  compute the key (thread-local), run `getCachedExpression` as a section; after it has *returned* —
  lock released — continue thread-locally (`Thread.cont`): on a hit copy the operations, on a miss
  compile (outside the lock) and remember the store still to do; then `setCachedExpression` as a second
  section.  `evaluate` on a held object is thread-local. -/

section LThreads
variable {E K V T R : Type} [DecidableEq K]

/-- `slots[i].evaluate(tree)`: thread-local. -/
def Thread.evalHeld (eval : V → T → R) (th : Thread E V T R) (i : Nat) (t : T) (rest : List (Event E T)) :
    Thread E V T R :=
  { th with todo := rest, obs := th.obs ++ [match th.slots[i]? with
                                              | some v => .result (eval v t)
                                              | none => .noSlot] }

/-- The thread-local continuation after the critical section of the head event has returned `r`
    (`r` is meaningful for `getCachedExpression` only). -/
def Thread.cont (compile : E → Option V) (eval : V → T → R) (th : Thread E V T R) (r : Option V) :
    Thread E V T R :=
  match th.todo with
  | [] => th
  | ev :: rest =>
    match ev.expr? with
    | none => th
    | some e =>
      match th.pending with
      | some v => th.finish eval ev rest v            -- `setCachedExpression` returned: the constructor is done
      | none =>
        match r with
        | some v => th.finish eval ev rest v          -- hit: `_copyOperationsFromXPathExpressionObj`
        | none =>
          match compile e with                        -- miss: `parseXPathStrIntoOperations`, outside the lock
          | none => { th with todo := rest, obs := th.obs ++ [.compileError] }
          | some v => { th with pending := some v }

structure LThread (E K V T R : Type) where
  th : Thread E V T R
  pc : Option (Pc K V)

structure LTSys (E K V T R : Type) where
  sh : Shared K V
  threads : List (LThread E K V T R)

def LTSys.init (evss : List (List (Event E T))) : LTSys E K V T R :=
  ⟨⟨false, State.empty⟩, evss.map (fun evs => ⟨Thread.init evs, none⟩)⟩

/-- Thread `i` performs its next statement; `none` = it cannot move (blocked on `acquire`, or no such
    thread).  A finished thread idles. -/
def ltStep (compile : E → Option V) (key : E → K) (eval : V → T → R) (MAX CLEAR : Nat)
    (s : LTSys E K V T R) (i : Nat) : Option (LTSys E K V T R) :=
  match s.threads[i]? with
  | none => none
  | some lt =>
    match lt.pc with
    | none =>
      match lt.th.todo with
      | [] => some s
      | ev :: rest =>
        match ev with
        | .evalSlot j t => some { s with threads := s.threads.set i ⟨lt.th.evalHeld eval j t rest, none⟩ }
        | .new e | .query e _ =>
          match lt.th.pending with
          | none => some { s with threads := s.threads.set i ⟨lt.th, some (.getAcquire (key e))⟩ }
          | some v => some { s with threads := s.threads.set i ⟨lt.th, some (.setAcquire (key e) v false)⟩ }
    | some (.done r _) => some { s with threads := s.threads.set i ⟨lt.th.cont compile eval r, none⟩ }
    | some pc =>
      match lstep MAX CLEAR s.sh pc with
      | none => none
      | some (sh', pc') => some ⟨sh', s.threads.set i ⟨lt.th, some pc'⟩⟩

/-- Run a schedule; a pick of a thread that cannot move is a wasted quantum. -/
def ltRun (compile : E → Option V) (key : E → K) (eval : V → T → R) (MAX CLEAR : Nat) :
    LTSys E K V T R → List Nat → LTSys E K V T R
  | s, [] => s
  | s, i :: rest => ltRun compile key eval MAX CLEAR ((ltStep compile key eval MAX CLEAR s i).getD s) rest

/-- Is the next statement of this thread the point where its current quantum of the quantum machine
    takes effect?  The `release` of a section, or a thread-local evaluation. -/
def LThread.commits (lt : LThread E K V T R) : Bool :=
  match lt.pc with
  | none =>
    match lt.th.todo with
    | .evalSlot .. :: _ => true
    | _ => false
  | some pc => pc.isRelease

/-- The lock-level schedule projected at the release points: the schedule of the quantum machine. -/
def ltProject (compile : E → Option V) (key : E → K) (eval : V → T → R) (MAX CLEAR : Nat) :
    LTSys E K V T R → List Nat → List Nat
  | _, [] => []
  | s, i :: rest =>
    match ltStep compile key eval MAX CLEAR s i with
    | none => ltProject compile key eval MAX CLEAR s rest
    | some s' =>
      (if (s.threads[i]?).any LThread.commits then [i] else []) ++ ltProject compile key eval MAX CLEAR s' rest

/-- What the quantum machine sees of a lock-level thread: a thread whose section has returned has
    its quantum behind it. -/
def LThread.abs (compile : E → Option V) (eval : V → T → R) (lt : LThread E K V T R) : Thread E V T R :=
  match lt.pc with
  | some (.done r _) => lt.th.cont compile eval r
  | _ => lt.th

def LThread.finished (lt : LThread E K V T R) : Bool := lt.pc.isNone && lt.th.todo.isEmpty

/-- The operation-level view of a thread-level configuration (a thread between operations counts as returned). -/
def LTSys.toLSys (s : LTSys E K V T R) : LSys K V :=
  ⟨s.sh, s.threads.map (fun lt => lt.pc.getD (.done none false))⟩

end LThreads

/-! ### The former one-step machine (kept: `AHP.C15.Atomic` still states its theorems)

  Here the whole body of a section is a single step, whatever `held` is — so the lock protects nothing
  in *this* machine (review B, H4).  Superseded by `lstep` above. -/

inductive PcA (K V : Type) where
  | getAcquire (k : K)
  | getBody (k : K)
  | getRelease (r : Option V)
  | setAcquire (k : K) (v : V) (fail : Bool)
  | setBody (k : K) (v : V) (fail : Bool)
  | setRelease
  | setFail
  | done (r : Option V) (raised : Bool)
  deriving Repr

def lstepA {K V : Type} [DecidableEq K] (MAX CLEAR : Nat) (sh : Shared K V) :
    PcA K V → Option (Shared K V × PcA K V)
  | .getAcquire k => if sh.held then none else some ({ sh with held := true }, .getBody k)
  | .getBody k =>
    let (c, r) := get sh.cache k
    some ({ sh with cache := c }, .getRelease r)
  | .getRelease r => some ({ sh with held := false }, .done r false)
  | .setAcquire k v f => if sh.held then none else some ({ sh with held := true }, .setBody k v f)
  | .setBody k v f =>
    if f then some (sh, .setFail)
    else some ({ sh with cache := set MAX CLEAR sh.cache k v }, .setRelease)
  | .setRelease => some ({ sh with held := false }, .done none false)
  | .setFail => some ({ sh with held := false }, .done none true)
  | .done r x => some (sh, .done r x)

def PcA.holds {K V : Type} : PcA K V → Bool
  | .getBody _ | .getRelease _ | .setBody .. | .setRelease | .setFail => true
  | _ => false

def PcA.isDone {K V : Type} : PcA K V → Bool
  | .done .. => true
  | _ => false

end AHP.Cache
