/-
  AHP.Model.Cache — the compiled-expression cache of `xpath/_cache.py` and its use by
  `XPathExpression.__init__` / `evaluate` (`xpath/expression.py`), as the code has it.

  * `cachedCompiledExpressions` is a Python `dict` (insertion ordered association list here),
    `recentCachedExpressionStrs` a Python `list` of keys, cold side first.
  * `getCachedExpression`: lookup; on a hit, remove *every* occurrence of the key from the recency
    list (the `while True: try: remove … except ValueError: break` loop) and append it.
  * `setCachedExpression`: same remove-all-then-append, store, and when the recency list has become
    longer than `MAX` drop the oldest `len − (MAX − CLEAR)` keys from the map and keep
    `recent[-(MAX − CLEAR):]` — with Python's slice rules, so that `recent[-0:]` is the whole list.
  * The module constants are read at call time, so `MAX`/`CLEAR` are arguments.
  * The lock: `Model.Cache.Lock` below renders both methods as small-step programs over an explicit
    `held : Bool`.

  Keys are `sha1(expression text)` in the code; here a function `key : E → K` (the theorems ask for
  injectivity, i.e. sha1 is assumed collision-free on the expressions in play).
-/
namespace AHP.Cache

/-! ### Python list slices -/

/-- Python `l[:stop]` for any integer `stop`. -/
def sliceTo (l : List α) (stop : Int) : List α :=
  let n : Int := l.length
  let s : Int := if stop < 0 then stop + n else stop
  l.take s.toNat

/-- Python `l[start:]` for any integer `start` (so `l[-0:] = l[0:] = l`). -/
def sliceFrom (l : List α) (start : Int) : List α :=
  let n : Int := l.length
  let s : Int := if start < 0 then start + n else start
  l.drop s.toNat

/-! ### Python dict (insertion ordered) -/

section Dict
variable {K V : Type} [DecidableEq K]

def dictGet : List (K × V) → K → Option V
  | [], _ => none
  | (k', v) :: rest, k => if k' = k then some v else dictGet rest k

/-- `d[k] = v`: an existing key keeps its position. -/
def dictSet : List (K × V) → K → V → List (K × V)
  | [], k, v => [(k, v)]
  | (k', v') :: rest, k, v => if k' = k then (k, v) :: rest else (k', v') :: dictSet rest k v

/-- `try: del d[k] except: pass`. -/
def dictDel (d : List (K × V)) (k : K) : List (K × V) := d.filter (fun p => !decide (p.1 = k))

def dictKeys (d : List (K × V)) : List K := d.map (·.1)

end Dict

/-! ### The cache object -/

structure State (K V : Type) where
  map : List (K × V)      -- cachedCompiledExpressions
  recent : List K         -- recentCachedExpressionStrs (cold … hot)
  deriving Repr

def State.empty {K V : Type} : State K V := ⟨[], []⟩

section Cache
variable {K V : Type} [DecidableEq K]

/-- The loop `while True: try: l.remove(k) except ValueError: break`; `fuel` bounds the iterations
    (`l.length` suffices: every iteration removes one element). -/
def removeLoop : Nat → K → List K → List K
  | 0, _, l => l
  | fuel + 1, k, l => if k ∈ l then removeLoop fuel k (l.erase k) else l

def removeAll (k : K) (l : List K) : List K := removeLoop l.length k l

/-- `getCachedExpression` (between `acquire` and `release`). -/
def get (s : State K V) (k : K) : State K V × Option V :=
  match dictGet s.map k with
  | none => (s, none)
  | some v => ({ s with recent := removeAll k s.recent ++ [k] }, some v)

/-- `setCachedExpression` (between `acquire` and `release`). -/
def set (MAX CLEAR : Nat) (s : State K V) (k : K) (v : V) : State K V :=
  let recent1 := removeAll k s.recent ++ [k]
  let map1 := dictSet s.map k v
  if recent1.length > MAX then
    let remain : Int := (MAX : Int) - (CLEAR : Int)
    let keysToRemove := sliceTo recent1 ((recent1.length : Int) - remain)
    { map := keysToRemove.foldl dictDel map1, recent := sliceFrom recent1 (-1 * remain) }
  else
    { map := map1, recent := recent1 }

end Cache

/-! ### `XPathExpression.__init__` and the event histories of C15 -/

section Expr
variable {E K V T R : Type} [DecidableEq K]

/-- `XPathExpression(text)`: look the key up; on a miss compile (a compile error propagates and
    inserts nothing) and store.  Returns the new state and the operations the new object holds
    (`none` = the constructor raised). -/
def newExpr (compile : E → Option V) (key : E → K) (MAX CLEAR : Nat)
    (s : State K V) (e : E) : State K V × Option V :=
  match get s (key e) with
  | (s', some v) => (s', some v)
  | (s', none) =>
    match compile e with
    | none => (s', none)
    | some v => (set MAX CLEAR s' (key e) v, some v)

/-- The events of a history. -/
inductive Event (E T : Type) where
  | new (e : E)                 -- `obj = XPathExpression(text)`; kept in the next slot when it succeeds
  | evalSlot (slot : Nat) (t : T)  -- `slots[slot].evaluate(tree)`: a compiled object reused
  | query (e : E) (t : T)       -- `XPathExpression(text).evaluate(tree)` (what every entry point does)
  deriving Repr

/-- What an event shows. -/
inductive Obs (R : Type) where
  | compiled            -- constructor returned
  | compileError        -- constructor raised
  | result (r : R)      -- evaluation outcome (element list or run-time error — `R` holds both)
  | noSlot              -- harness-level: the slot does not exist
  deriving Repr, DecidableEq

structure World (K V : Type) where
  cache : State K V
  slots : List V          -- live expression objects, in creation order

def World.empty {K V : Type} : World K V := ⟨State.empty, []⟩

def step (compile : E → Option V) (key : E → K) (eval : V → T → R) (MAX CLEAR : Nat)
    (w : World K V) : Event E T → World K V × Obs R
  | .new e =>
    match newExpr compile key MAX CLEAR w.cache e with
    | (c, some v) => ({ cache := c, slots := w.slots ++ [v] }, .compiled)
    | (c, none) => ({ w with cache := c }, .compileError)
  | .evalSlot i t =>
    match w.slots[i]? with
    | some v => (w, .result (eval v t))
    | none => (w, .noSlot)
  | .query e t =>
    match newExpr compile key MAX CLEAR w.cache e with
    | (c, some v) => ({ w with cache := c }, .result (eval v t))
    | (c, none) => ({ w with cache := c }, .compileError)

/-- Run a history, collecting after every event the observation and the cache state. -/
def run (compile : E → Option V) (key : E → K) (eval : V → T → R) (MAX CLEAR : Nat) :
    World K V → List (Event E T) → List (Obs R × State K V)
  | _, [] => []
  | w, ev :: evs =>
    let (w', o) := step compile key eval MAX CLEAR w ev
    (o, w'.cache) :: run compile key eval MAX CLEAR w' evs

/-- The final world of a history. -/
def exec (compile : E → Option V) (key : E → K) (eval : V → T → R) (MAX CLEAR : Nat) :
    World K V → List (Event E T) → World K V
  | w, [] => w
  | w, ev :: evs => exec compile key eval MAX CLEAR (step compile key eval MAX CLEAR w ev).1 evs

end Expr

/-! ### Threads: each cache operation is one atomic step (the lock), everything else is thread-local

  A thread works through its own event list.  `XPathExpression(text)` is *two* critical sections with
  the compilation in between and outside the lock, so other threads may run between the lookup and
  the store: `pending = some v` is the program point "missed, compiled to `v`, store still to do". -/

section Threads
variable {E K V T R : Type} [DecidableEq K]

def Event.expr? : Event E T → Option E
  | .new e => some e
  | .query e _ => some e
  | .evalSlot .. => none

structure Thread (E V T R : Type) where
  todo : List (Event E T)
  pending : Option V
  slots : List V
  obs : List (Obs R)

def Thread.init (evs : List (Event E T)) : Thread E V T R := ⟨evs, none, [], []⟩

/-- The head event `ev` completes holding the operations `v`. -/
def Thread.finish (eval : V → T → R) (th : Thread E V T R) (ev : Event E T) (rest : List (Event E T)) (v : V) :
    Thread E V T R :=
  match ev with
  | .new _ => { todo := rest, pending := none, slots := th.slots ++ [v], obs := th.obs ++ [.compiled] }
  | .query _ t => { todo := rest, pending := none, slots := th.slots, obs := th.obs ++ [.result (eval v t)] }
  | .evalSlot .. => th

/-- One scheduling quantum of a thread: at most one cache operation. -/
def tstep (compile : E → Option V) (key : E → K) (eval : V → T → R) (MAX CLEAR : Nat)
    (c : State K V) (th : Thread E V T R) : State K V × Thread E V T R :=
  match th.todo with
  | [] => (c, th)
  | ev :: rest =>
    match ev.expr? with
    | none =>
      match ev with
      | .evalSlot i t =>
        (c, { th with todo := rest, obs := th.obs ++ [match th.slots[i]? with
                                                      | some v => .result (eval v t)
                                                      | none => .noSlot] })
      | _ => (c, th)
    | some e =>
      match th.pending with
      | some v => (set MAX CLEAR c (key e) v, th.finish eval ev rest v)
      | none =>
        match get c (key e) with
        | (c', some v) => (c', th.finish eval ev rest v)
        | (c', none) =>
          match compile e with
          | none => (c', { th with todo := rest, obs := th.obs ++ [.compileError] })
          | some v => (c', { th with pending := some v })

structure Sys (E K V T R : Type) where
  cache : State K V
  threads : List (Thread E V T R)

def Sys.init (evss : List (List (Event E T))) : Sys E K V T R := ⟨State.empty, evss.map Thread.init⟩

/-- Thread `i` gets the next quantum. -/
def sysStep (compile : E → Option V) (key : E → K) (eval : V → T → R) (MAX CLEAR : Nat)
    (s : Sys E K V T R) (i : Nat) : Sys E K V T R :=
  match s.threads[i]? with
  | none => s
  | some th =>
    let (c, th') := tstep compile key eval MAX CLEAR s.cache th
    { cache := c, threads := s.threads.set i th' }

/-- Run a schedule (a list of thread indices). -/
def sysRun (compile : E → Option V) (key : E → K) (eval : V → T → R) (MAX CLEAR : Nat)
    (s : Sys E K V T R) (sched : List Nat) : Sys E K V T R :=
  sched.foldl (sysStep compile key eval MAX CLEAR) s

/-- What is left to do: two quanta per expression event at most. -/
def Thread.measure (th : Thread E V T R) : Nat :=
  2 * th.todo.length - (if th.pending.isSome then 1 else 0)

end Threads

/-! ### The critical sections as small-step programs over an explicit lock

  One `LStep` is one statement group of `getCachedExpression` / `setCachedExpression`; the lock is
  `held : Bool`.  `acquire` is enabled only when the lock is free (a blocked thread cannot move);
  every other statement is always enabled.  The exception path of `setCachedExpression`
  (`except Exception: release; raise`) is the `.setFail` program point: the body may fail at the
  point where it would touch the data (`fail = true` chooses that path). -/

inductive Pc (K V : Type) where
  | getAcquire (k : K)                 -- before `self.cacheLock.acquire()` in getCachedExpression
  | getBody (k : K)                    -- holding the lock, before the lookup
  | getRelease (r : Option V)          -- holding the lock, about to release (either return path)
  | setAcquire (k : K) (v : V) (fail : Bool)
  | setBody (k : K) (v : V) (fail : Bool)
  | setRelease                         -- normal exit: `self.cacheLock.release()`
  | setFail                            -- `except Exception as exc: self.cacheLock.release(); raise exc`
  | done (r : Option V) (raised : Bool)
  deriving Repr

structure Shared (K V : Type) where
  held : Bool
  cache : State K V

/-- One step of one thread at program point `pc`; `none` = the thread is blocked. -/
def lstep {K V : Type} [DecidableEq K] (MAX CLEAR : Nat) (sh : Shared K V) :
    Pc K V → Option (Shared K V × Pc K V)
  | .getAcquire k => if sh.held then none else some ({ sh with held := true }, .getBody k)
  | .getBody k =>
    let (c, r) := get sh.cache k
    some ({ sh with cache := c }, .getRelease r)
  | .getRelease r => some ({ sh with held := false }, .done r false)
  | .setAcquire k v f => if sh.held then none else some ({ sh with held := true }, .setBody k v f)
  | .setBody k v f =>
    if f then some (sh, .setFail)
    else some ({ sh with cache := set MAX CLEAR sh.cache k v }, .setRelease)
  | .setRelease => some ({ sh with held := false }, .done none false)
  | .setFail => some ({ sh with held := false }, .done none true)
  | .done r x => some (sh, .done r x)

/-- Does the thread at `pc` hold the lock? -/
def Pc.holds {K V : Type} : Pc K V → Bool
  | .getBody _ | .getRelease _ | .setBody .. | .setRelease | .setFail => true
  | _ => false

def Pc.isDone {K V : Type} : Pc K V → Bool
  | .done .. => true
  | _ => false

end AHP.Cache
