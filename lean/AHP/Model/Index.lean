/-
  AHP.Model.Index — `IndexedAdvancedHTMLParser` (Parser.py) as the code has it (C07).

  The parser state is the document (`root`) and the index: the four flags, the snapshot of the flags
  that `_resetIndexInternal` turns into `indexFunctions`, the four built-in maps and the attribute
  indexes (association lists standing for the dicts; elements are held by uid, the way the Python maps
  hold object references — a lookup resolves the uid in the *current* document).

  Parsing creates elements in document order and indexes each one when it is created
  (`handle_starttag`), so `parse` folds `indexTag` over the pre-order list; `reindex` recurses over the
  tree (`_indexTagRecursive`).  DOM edits do not touch the index.

  `reindex(newIndexClassNames=…, newIndexTagNames=…)` assign misspelt attributes in the code: the two
  switches do not happen (answers stay correct, DESIGN §5 C07) — modelled as written.
-/
import AHP.Model.Search
namespace AHP.G3
/-! ### association lists standing for dicts -/

def assocSet {β : Type} (m : List (Str × β)) (k : Str) (v : β) : List (Str × β) :=
  match m with
  | [] => [(k, v)]
  | (k', v') :: rest => if k' == k then (k', v) :: rest else (k', v') :: assocSet rest k v

/-- `defaultdict(list)[k].append(x)` / `if k not in d: d[k] = []; d[k].append(x)`. -/
def assocPush (m : List (Str × List Nat)) (k : Str) (x : Nat) : List (Str × List Nat) :=
  match m with
  | [] => [(k, [x])]
  | (k', xs) :: rest => if k' == k then (k', xs ++ [x]) :: rest else (k', xs) :: assocPush rest k x

/-- `d.get(k, [])`. -/
def assocGet (m : List (Str × List Nat)) (k : Str) : List Nat := (m.lookup k).getD []

def assocDel {β : Type} (m : List (Str × β)) (k : Str) : List (Str × β) := m.filter (fun p => !(p.1 == k))

/-! ### the index -/

structure Idx where
  indexIDs : Bool
  indexNames : Bool
  indexClassNames : Bool
  indexTagNames : Bool
  /-- `indexFunctions`, as four flags: what `_resetIndexInternal` last installed. -/
  fnIDs : Bool
  fnNames : Bool
  fnClassNames : Bool
  fnTagNames : Bool
  idMap : List (Str × Nat)
  nameMap : List (Str × List Nat)
  classNameMap : List (Str × List Nat)
  tagNameMap : List (Str × List Nat)
  /-- `_otherAttributeIndexes`: attribute → value → elements. -/
  other : List (Str × List (Str × List Nat))
  /-- keys of `otherAttributeIndexFunctions` (insertion order). -/
  otherFns : List Str
  deriving Inhabited

namespace Idx

/-- `_resetIndexInternal`. -/
def resetInternal (i : Idx) : Idx :=
  { i with
    fnIDs := i.indexIDs, fnNames := i.indexNames, fnClassNames := i.indexClassNames, fnTagNames := i.indexTagNames,
    idMap := [], nameMap := [], classNameMap := [], tagNameMap := [],
    other := i.other.map (fun p => (p.1, [])) }

/-- `__init__`. -/
def init (ids names classes tags : Bool) : Idx :=
  resetInternal ⟨ids, names, classes, tags, false, false, false, false, [], [], [], [], [], []⟩

/-- one `_otherIndexFunction(self, tag)` -/
def indexOther (other : List (Str × List (Str × List Nat))) (a : Str) (e : Elem) : List (Str × List (Str × List Nat)) :=
  match e.attr a with
  | none => other
  | some v =>
    match other.lookup a with
    | none => other                       -- KeyError in the code; unreachable: both dicts are edited together
    | some m => assocSet other a (assocPush m v e.uid)

/-- `_indexID`: a later element with the same id replaces the earlier one. -/
def indexID (i : Idx) (e : Elem) : Idx :=
  { i with idMap := match e.attr (str "id") with
      | some v => if v.isEmpty then i.idMap else assocSet i.idMap v e.uid
      | none => i.idMap }

/-- `_indexName`. -/
def indexName (i : Idx) (e : Elem) : Idx :=
  { i with nameMap := match e.attr (str "name") with
      | some v => if v.isEmpty then i.nameMap else assocPush i.nameMap v e.uid
      | none => i.nameMap }

/-- `_indexClassName`. -/
def indexClassName (i : Idx) (e : Elem) : Idx :=
  { i with classNameMap := e.classes.foldl (fun m c => assocPush m c e.uid) i.classNameMap }

/-- `_indexTagName`. -/
def indexTagName (i : Idx) (e : Elem) : Idx :=
  { i with tagNameMap := assocPush i.tagNameMap e.tag e.uid }

/-- the loop over `otherAttributeIndexFunctions.values()` -/
def indexOthers (i : Idx) (e : Elem) : Idx :=
  { i with other := i.otherFns.foldl (fun o a => indexOther o a e) i.other }

/-- `_indexTag`: the installed `indexFunctions` in their fixed order, then the attribute indexes. -/
def indexTag (i : Idx) (e : Elem) : Idx :=
  let i := if i.fnIDs then indexID i e else i
  let i := if i.fnNames then indexName i e else i
  let i := if i.fnClassNames then indexClassName i e else i
  let i := if i.fnTagNames then indexTagName i e else i
  indexOthers i e

mutual
/-- `_indexTagRecursive`. -/
def indexRec (i : Idx) : Node → Idx
  | .mk e ks => indexRecL (indexTag i e) ks
def indexRecL (i : Idx) : List Node → Idx
  | [] => i
  | k :: ks => indexRecL (indexRec i k) ks
end

def optSet (cur : Bool) : Option Bool → Bool
  | none => cur
  | some b => b

/-- `reindex(newIndexIDs, newIndexNames, newIndexClassNames, newIndexTagNames)`. -/
def reindex (i : Idx) (root : Node) (nIDs nNames _nClasses _nTags : Option Bool) : Idx :=
  let i := { i with indexIDs := optSet i.indexIDs nIDs, indexNames := optSet i.indexNames nNames }
  indexRec i.resetInternal root

/-- `disableIndexing`. -/
def disable (i : Idx) : Idx :=
  resetInternal { i with indexIDs := false, indexNames := false, indexClassNames := false, indexTagNames := false }

/-- `addIndexOnAttribute`. -/
def addIndexOn (i : Idx) (a0 : Str) : Idx :=
  let a := lower a0
  { i with other := assocSet i.other a [],
           otherFns := if i.otherFns.contains a then i.otherFns else i.otherFns ++ [a] }

/-- `removeIndexOnAttribute`. -/
def removeIndexOn (i : Idx) (a0 : Str) : Idx :=
  let a := lower a0
  { i with other := assocDel i.other a, otherFns := i.otherFns.filter (fun x => !(x == a)) }

end Idx

mutual
/-- The elements of a parsed document in the order `handle_starttag` created them. -/
def creationOrder : Node → List Elem
  | .mk e ks => e :: creationOrderL ks
def creationOrderL : List Node → List Elem
  | [] => []
  | k :: ks => creationOrder k ++ creationOrderL ks
end

namespace Idx

/-- `parseStr`: `reset()` (document and index cleared), then every element is indexed as it is created. -/
def parse (i : Idx) (doc : Node) : Idx :=
  (creationOrder doc).foldl indexTag i.resetInternal

end Idx


/-! ### indexing at creation with its failure explicit; the indexed parser's handlers at token level (C03)

Additions for C03 ("indexing at creation never fails"); nothing above changes.  `indexOther` above answers
`other` where the code would raise KeyError (`parser._otherAttributeIndexes[attributeName]` with the key
missing).  The variants below keep that failure (`none`).  The handlers of `IndexedAdvancedHTMLParser` over the
token sequence (the inherited handler of the plain parser, then `_indexTag(newTag)`) are in
`Lemmas/TotalIndexModel.lean`: this file cannot import `Model/Builder.lean` without re-resolving `Node` in the
C06/C07 files. -/

namespace Idx

/-- one `_OtherAttributeIndexFunction.__call__`; `none` = KeyError -/
def indexOtherE (other : List (Str × List (Str × List Nat))) (a : Str) (e : Elem) :
    Option (List (Str × List (Str × List Nat))) :=
  match e.attr a with
  | none => some other
  | some v =>
    match other.lookup a with
    | none => none
    | some m => some (assocSet other a (assocPush m v e.uid))

/-- the loop over `otherAttributeIndexFunctions.values()`; the first KeyError ends it -/
def indexOthersLE (e : Elem) : List Str → List (Str × List (Str × List Nat)) →
    Option (List (Str × List (Str × List Nat)))
  | [], o => some o
  | a :: as, o =>
    match indexOtherE o a e with
    | some o' => indexOthersLE e as o'
    | none => none

/-- `_indexTag` with the KeyError kept (the four built-in index functions cannot fail: `getAttribute`, a dict
    assignment with a `str` key, `defaultdict(list)[…].append`) -/
def indexTagE (i : Idx) (e : Elem) : Option Idx :=
  let i := if i.fnIDs then indexID i e else i
  let i := if i.fnNames then indexName i e else i
  let i := if i.fnClassNames then indexClassName i e else i
  let i := if i.fnTagNames then indexTagName i e else i
  (indexOthersLE e i.otherFns i.other).map (fun o => { i with other := o })

end Idx

/-! ### the parent chain -/

mutual
/-- The proper ancestors of the element with uid `x` inside `n`, nearest first (what following
    `parentNode` visits); `none` when `x` is not in `n`. -/
def chain : Node → Nat → Option (List Nat)
  | .mk e ks, x => if e.uid == x then some [] else (chainL ks x).map (fun c => c ++ [e.uid])
def chainL : List Node → Nat → Option (List Nat)
  | [], _ => none
  | k :: ks, x => match chain k x with
    | some c => some c
    | none => chainL ks x
end

/-- `_hasTagInParentLine(tag, root)` along the chain of `parentNode`s. -/
def inParentLine : List Nat → Nat → Bool
  | [], _ => false
  | p :: rest, r => p == r || inParentLine rest r

def hasTagInParentLine (doc : Node) (x : Nat) (r : Node) : Bool :=
  match chain doc x with
  | some c => inParentLine c r.uid
  | none => false

/-! ### indexed lookups -/

/-- the elements an index entry refers to, in the current document -/
def resolve (doc : Node) (us : List Nat) : List Node := us.filterMap doc.find?

def restrict (doc : Node) (isRoot : Bool) (r : Node) (xs : List Node) : List Node :=
  if isRoot then xs else xs.filter (fun x => hasTagInParentLine doc x.uid r)

def idxByTagName (i : Idx) (doc : Node) (q : Str) (arg : Option Node) (useIndex : Bool) : TC :=
  let (r, isRoot) := handleRootArg doc arg
  if useIndex && i.indexTagNames then
    TC.ofList (restrict doc isRoot r (resolve doc (assocGet i.tagNameMap q)))
  else byTagName q (.parser doc arg)

def idxByName (i : Idx) (doc : Node) (q : Str) (arg : Option Node) (useIndex : Bool) : TC :=
  let (r, isRoot) := handleRootArg doc arg
  if useIndex && i.indexNames then
    TC.ofList (restrict doc isRoot r (resolve doc (assocGet i.nameMap q)))
  else byName q (.parser doc arg)

def idxById (i : Idx) (doc : Node) (q : Str) (arg : Option Node) (useIndex : Bool) : Option Node :=
  let (r, isRoot) := handleRootArg doc arg
  if useIndex && i.indexIDs then
    match (i.idMap.lookup q).bind doc.find? with
    | none => none
    | some el => if !isRoot && !(hasTagInParentLine doc el.uid r) then none else some el
  else byId q (.parser doc arg)

def idxByClassName (i : Idx) (doc : Node) (q : Str) (arg : Option Node) (useIndex : Bool) : Option TC :=
  let (r, isRoot) := handleRootArg doc arg
  if useIndex && i.indexClassNames then
    match classWords q with
    | [] => none
    | c :: rest =>
      let elements := resolve doc (assocGet i.classNameMap c)
      let elements := if rest.isEmpty then elements else elements.filter (fun n => pAllClasses rest n.elem)
      some (TC.ofList (restrict doc isRoot r elements))
  else byClassName q (.parser doc arg)

def idxByAttr (i : Idx) (doc : Node) (a v : Str) (arg : Option Node) (useIndex : Bool) : TC :=
  let (r, isRoot) := handleRootArg doc arg
  match (if useIndex then i.other.lookup a else none) with
  | some m => TC.ofList (restrict doc isRoot r (resolve doc (assocGet m v)))
  | none => byAttr a v (.parser doc arg)

def idxWithAttrValues (i : Idx) (doc : Node) (a : Str) (vs : List Str) (arg : Option Node) (useIndex : Bool) : TC :=
  let (r, isRoot) := handleRootArg doc arg
  match (if useIndex then i.other.lookup a else none) with
  | some m =>
    let elements := vs.foldl (fun (acc : TC) v => acc.iadd (TC.ofList (resolve doc (assocGet m v))).items) TC.empty
    if isRoot then elements else TC.ofList (elements.items.filter (fun x => hasTagInParentLine doc x.uid r))
  | none => withAttrValues a vs (.parser doc arg)

/-! ### the `useIndex=False` leg as the code has it

  `IndexedAdvancedHTMLParser.getElementsByX(…, useIndex=False)` calls `AdvancedHTMLParser.getElementsByX(self, …)`.
  The base-class method tests the root, then loops `for child in root.children: test child; elements +=
  self.getElementsByX(q, child)` — and `self.getElementsByX` is the *override*, with its default `useIndex=True`:
  the recursion re-enters the indexed method for every child (`root=child`, never the document root).  With the
  index switched on the re-entered call answers from the map restricted to the child's subtree; with it switched
  off the override falls through to the base class again, one level down.  `reenter` / `reenterL` are that
  recursion; `idx…` above keep the plain scan on this leg (what the driver executes), the functions below are the
  code's, and `Props/C07.lean` (`*_fallback`) proves the two equal whenever the index mirrors the document.
  `getElementsWithAttrValues` does not re-enter (the base class delegates to the element form): nothing to add. -/

mutual
/-- `self.getElementsByX(q, child)` as re-entered from the base-class loop: `useIdx` = the index flag of the
    override, `indexed child` = what the override's index branch lists for `root=child` before
    `TagCollection(...)`, `pred` = the child test of the base-class loop. -/
def reenter (useIdx : Bool) (indexed : Node → List Node) (pred : Elem → Bool) : Node → TC
  | .mk e ks => if useIdx then TC.ofList (indexed (.mk e ks)) else TC.ofList (reenterL useIdx indexed pred ks)
def reenterL (useIdx : Bool) (indexed : Node → List Node) (pred : Elem → Bool) : List Node → List Node
  | [] => []
  | k :: ks => (if pred k.elem then [k] else []) ++ (reenter useIdx indexed pred k).items ++ reenterL useIdx indexed pred ks
end

/-- the base-class method entered with `useIndex=False`: root test, then the re-entering loop -/
def scanFB (useIdx : Bool) (indexed : Node → List Node) (rootPred pred : Elem → Bool) (isRoot : Bool) (r : Node) : TC :=
  TC.ofList ((if isRoot && rootPred r.elem then [r] else []) ++ reenterL useIdx indexed pred r.kids)

def idxByTagNameFB (i : Idx) (doc : Node) (q : Str) (arg : Option Node) : TC :=
  let (r, isRoot) := handleRootArg doc arg
  scanFB i.indexTagNames (fun k => restrict doc false k (resolve doc (assocGet i.tagNameMap q))) (pTag q) (pTag q) isRoot r

def idxByNameFB (i : Idx) (doc : Node) (q : Str) (arg : Option Node) : TC :=
  let (r, isRoot) := handleRootArg doc arg
  scanFB i.indexNames (fun k => restrict doc false k (resolve doc (assocGet i.nameMap q)))
    (pDot (str "name") q) (pAttr (str "name") q) isRoot r

/-- the attribute index is used by the re-entered call exactly when the attribute is indexed -/
def idxByAttrFB (i : Idx) (doc : Node) (a v : Str) (arg : Option Node) : TC :=
  let (r, isRoot) := handleRootArg doc arg
  scanFB (i.other.lookup a).isSome
    (fun k => restrict doc false k (resolve doc (assocGet ((i.other.lookup a).getD []) v))) (pAttr a v) (pAttr a v) isRoot r

/-- `getElementsByClassName(…, useIndex=False)`: the base class scans for the FIRST name (re-entering the override
    with that single name), then filters by the remaining names -/
def idxByClassNameFB (i : Idx) (doc : Node) (q : Str) (arg : Option Node) : Option TC :=
  let (r, isRoot) := handleRootArg doc arg
  match classWords q with
  | [] => none
  | c :: rest =>
    let elements := (if isRoot && pClass c r.elem then [r] else []) ++
      reenterL i.indexClassNames (fun k => restrict doc false k (resolve doc (assocGet i.classNameMap c))) (pClass c) r.kids
    some (TC.ofList (if rest.isEmpty then elements else elements.filter (fun n => pAllClasses rest n.elem)))

mutual
/-- `self.getElementById(q, child)` as re-entered from the base-class loop -/
def reenterFirst (useIdx : Bool) (indexed : Node → Option Node) (pred : Elem → Bool) : Node → Option Node
  | .mk e ks => if useIdx then indexed (.mk e ks) else reenterFirstL useIdx indexed pred ks
def reenterFirstL (useIdx : Bool) (indexed : Node → Option Node) (pred : Elem → Bool) : List Node → Option Node
  | [] => none
  | k :: ks =>
    if pred k.elem then some k
    else match reenterFirst useIdx indexed pred k with
      | some r => some r
      | none => reenterFirstL useIdx indexed pred ks
end

/-- the index branch of the override's `getElementById(q, root=k)` for a non-root `k` -/
def idIndexedAt (i : Idx) (doc : Node) (q : Str) (k : Node) : Option Node :=
  match (i.idMap.lookup q).bind doc.find? with
  | none => none
  | some el => if !(hasTagInParentLine doc el.uid k) then none else some el

def idxByIdFB (i : Idx) (doc : Node) (q : Str) (arg : Option Node) : Option Node :=
  let (r, isRoot) := handleRootArg doc arg
  if isRoot && pDot (str "id") q r.elem then some r
  else reenterFirstL i.indexIDs (idIndexedAt i doc q) (pAttr (str "id") q) r.kids

/-! ### DOM edits (the index is not told) -/

mutual
def Node.modify (x : Nat) (f : Elem → Elem) : Node → Node
  | .mk e ks => if e.uid == x then .mk (f e) ks else .mk e (modifyL x f ks)
def modifyL (x : Nat) (f : Elem → Elem) : List Node → List Node
  | [] => []
  | k :: ks => Node.modify x f k :: modifyL x f ks
end

mutual
/-- `element.appendChild(sub)` for the element with uid `x`. -/
def Node.appendAt (x : Nat) (sub : Node) : Node → Node
  | .mk e ks => if e.uid == x then .mk e (ks ++ [sub]) else .mk e (appendAtL x sub ks)
def appendAtL (x : Nat) (sub : Node) : List Node → List Node
  | [] => []
  | k :: ks => Node.appendAt x sub k :: appendAtL x sub ks
end

mutual
/-- `parent.removeChild(element)` for the (non-root) element with uid `x`. -/
def Node.removeAt (x : Nat) : Node → Node
  | .mk e ks => .mk e (removeAtL x ks)
def removeAtL (x : Nat) : List Node → List Node
  | [] => []
  | k :: ks => if k.uid == x then removeAtL x ks else Node.removeAt x k :: removeAtL x ks
end

/-- `setAttribute(k, v)` (plain attribute). -/
def Elem.setAttr (e : Elem) (k v : Str) : Elem := { e with attrs := assocSet e.attrs k v }
/-- `removeAttribute(k)`. -/
def Elem.delAttr (e : Elem) (k : Str) : Elem := { e with attrs := assocDel e.attrs (lower k) }
/-- `addClass(c)` for one name. -/
def Elem.addClass (e : Elem) (c : Str) : Elem := if e.classes.contains c then e else { e with classes := e.classes ++ [c] }
/-- `removeClass(c)` for one name. -/
def Elem.removeClass (e : Elem) (c : Str) : Elem := { e with classes := e.classes.erase c }

end AHP.G3