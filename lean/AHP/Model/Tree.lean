/-
  AHP.Model.Tree — the document tree and its serialisers (`Tags.getStartTag/getEndTag/innerHTML/outerHTML`,
  `Parser.getHTML`), without the DOM's redundant bookkeeping (that is AHP.Model.Dom's subject).
-/
import AHP.Model.Token
namespace AHP

/-- A block: text, or an element with its attribute store, self-closing flag and blocks. -/
inductive Node where
  | text (s : Str)
  | elem (name : Str) (attrs : AttrState) (sc : Bool) (kids : List Node)
  deriving Repr, Inhabited

namespace Node
def isText : Node → Bool | text _ => true | _ => false
end Node

/-! ### serialisers -/

def binaryAttrs : List Str := Gen.binaryAttributes.map String.toList

/-- `utils.escapeQuotes`. -/
def escQ : Str → Str
  | [] => []
  | c :: cs => if c = '"' then "&quot;".toList ++ escQ cs else c :: escQ cs

/-- one attribute of `getStartTag`: a missing value, or an empty value of a boolean attribute, is the bare name -/
def renderAttr : Attr → Str
  | (n, none) => n
  | (n, some v) =>
    if v.isEmpty && binaryAttrs.contains n then n
    else n ++ ('=' :: '"' :: escQ v) ++ ['"']

def renderAttrs (as : List Attr) : Str :=
  if as.isEmpty then [] else ' ' :: joinWith [' '] (as.map renderAttr)

/-- `getStartTag` with an indent prefix (empty outside the formatters). -/
def startTagI (indent : Str) (n : Str) (a : AttrState) (sc : Bool) : Str :=
  indent ++ ('<' :: n) ++ renderAttrs a.view ++ (if sc then " />".toList else " >".toList)

def startTag (n : Str) (a : AttrState) (sc : Bool) : Str := startTagI [] n a sc

/-- `getEndTag` (no indent). -/
def endTag (n : Str) (sc : Bool) : Str := if sc then [] else '<' :: '/' :: n ++ ['>']

mutual
/-- `outerHTML` (for a text block: the text itself). -/
def Node.html : Node → Str
  | .text s => s
  | .elem n a sc kids => startTag n a sc ++ (if sc then [] else htmlL kids) ++ endTag n sc
/-- concatenation of the blocks' HTML (`innerHTML` of a non-self-closing element). -/
def htmlL : List Node → Str
  | [] => []
  | k :: ks => k.html ++ htmlL ks
end

def Node.innerHTML : Node → Str
  | .text s => s
  | .elem _ _ sc kids => if sc then [] else htmlL kids

/-- `Parser.getHTML`: doctype line when the doctype is truthy; the wrapper element shows its inner HTML only. -/
def docHTML (doctype : Option Str) (root : Node) : Str :=
  let dt := match doctype with
    | some d => if d.isEmpty then [] else '<' :: '!' :: d ++ ['>', '\n']
    | none => []
  match root with
  | .elem n _ _ _ => if n = wrapperName then dt ++ root.innerHTML else dt ++ root.html
  | .text s => dt ++ s

/-- `not data.strip()` -/
def isBlank (s : Str) : Bool := (strip s).isEmpty

/-- `[\n]*[ \t]*` of `utils.DOCTYPE_MATCH` -/
def wsNL (s : Str) : Bool :=
  ((s.dropWhile (· = '\n')).dropWhile (fun c => c = ' ' || c = '\t')).isEmpty

/-- `utils.DOCTYPE_MATCH` at token level: a leading doctype declaration, optionally preceded by newlines
    then blanks.  Returns the matched prefix and what follows it. -/
def leadDoctype : List Token → Option (List Token × List Token)
  | .decl d :: r => some ([.decl d], r)
  | .data ws :: .decl d :: r => if wsNL ws then some ([.data ws, .decl d], r) else none
  | _ => none

/-- exceptions a parse can end with -/
inductive Exc where
  | multipleRoot | invalidClose | missedClose | invalidAttr
  deriving Repr, Inhabited, DecidableEq

/-- The parsed document as the public API shows it. -/
structure Doc where
  doctype : Option Str
  root : Option Node
  deriving Repr, Inhabited

/-! ### normal form used when trees are compared: adjacent text merged, empty text dropped -/
mutual
def Node.norm : Node → Node
  | .text s => .text s
  | .elem n a sc kids => .elem n a sc (normL kids)
def normL : List Node → List Node
  | [] => []
  | .text s :: ks =>
    match normL ks with
    | .text s' :: r => .text (s ++ s') :: r
    | r => if s.isEmpty then r else .text s :: r
  | .elem n a sc kids :: ks => .elem n a sc (normL kids) :: normL ks
end

end AHP
