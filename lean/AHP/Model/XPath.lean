/-
  AHP.Model.XPath — the XPath engine (`xpath/_body.py`, `_filters.py`, `_axes.py`, `parsing.py`,
  `operation.py`, `expression.py`) as the code has it, from the *flat body-element list* onwards.

  What the regex tokenizers of `parsing.py` / `_body.py` produce from the text of an expression is the
  input here (the tie checks that part: DESIGN §5 C14 "what stays in the tie only"):

  * a step is `lead-in × axis? × name test × predicates`;
  * a predicate is a *flat* list of body elements `BE`: values, value generators (`@a`, `text()`,
    `last()`, `position()`, `concat(…)`, `contains(…)`, `normalize-space(…)`), parenthesised groups
    (`BodyLevel_Group`, again flat lists) and operators of three classes;
  * `evaluateLevelForTags`: resolve groups and generators for the tag, then one left-to-right pass
    per operator class (arithmetic/concat, comparison, boolean), `pass` below is its `while` loop;
  * `_optimizeStaticValueCalculations` (`optimize`) and `Concat.createFromMatch` fold constants at
    compile time;
  * `filterTagsByBody`: boolean → keep/drop, number `n` → "n-th among same-named siblings";
  * step functions of `_filters.py`, the step driver of `expression.py` with de-duplication.

  Numbers are an abstract structure `Num N` (Python `float`): the theorems hold for every instance,
  the driver instantiates `Float`.  `Option` = "raises" (error classes are not distinguished).
-/
import AHP.Model.Basic
namespace AHP.XPath

/-! ### Values and operators -/

inductive Val (N : Type) where
  | num (n : N)
  | str (s : Str)
  | bool (b : Bool)
  | null
  deriving Repr, Inhabited

inductive ArithOp | concat | add | sub | mul | div | mod
  deriving Repr, DecidableEq, Inhabited
inductive CmpOp | eq | ne | lt | le | gt | ge
  deriving Repr, DecidableEq, Inhabited
inductive BoolOp | and | or
  deriving Repr, DecidableEq, Inhabited

/-- An operator with its class: the order of `ORDERED_BE_TYPES_TO_PROCESS_VALUES`. -/
inductive Op where
  | arith (o : ArithOp)     -- BodyElementOperation      (class 0)
  | cmp (o : CmpOp)         -- BodyElementComparison     (class 1)
  | bool (o : BoolOp)       -- BodyElementBooleanOps     (class 2)
  deriving Repr, DecidableEq, Inhabited

def Op.cls : Op → Nat
  | .arith _ => 0
  | .cmp _ => 1
  | .bool _ => 2

/-- What the engine needs of Python's `float`. -/
structure Num (N : Type) where
  parse : Str → Option N            -- `float(str)`; `none` = ValueError
  ofNat : Nat → N
  add : N → N → N
  sub : N → N → N
  mul : N → N → N
  div : N → N → Option N            -- `none` = ZeroDivisionError
  mod : N → N → Option N
  eq : N → N → Bool
  lt : N → N → Bool
  le : N → N → Bool
  /-- `int(x)` and the test `float(int(x)) == x`: `none` = `int()` raises (nan, inf);
      `some none` = not integral; `some (some k)` = the integer. -/
  toIndex : N → Option (Option Int)
  toStr : N → Option Str            -- `str(float)`, where modelled

section
variable {N : Type} (nm : Num N)

/-- `float(value)` as applied to the Python value inside a `BodyElementValue`. -/
def toFloat : Val N → Option N
  | .num n => some n
  | .str s => nm.parse s
  | .bool b => some (nm.ofNat (if b then 1 else 0))
  | .null => none

/-- Lexicographic `<` on code points (Python `str.__lt__`). -/
def strLt : Str → Str → Bool
  | [], [] => false
  | [], _ :: _ => true
  | _ :: _, [] => false
  | a :: as, b :: bs => if a.toNat < b.toNat then true else if a = b then strLt as bs else false

/-- Python `==` between the raw values when they are not both convertible to float. -/
def rawEq : Val N → Val N → Bool
  | .null, .null => true
  | .str a, .str b => a == b
  | .bool a, .bool b => a == b          -- unreachable: booleans always convert
  | .num a, .num b => nm.eq a b         -- unreachable
  | _, _ => false

/-- `BodyElementOperation.performOperation`. -/
def applyArith (o : ArithOp) (a b : Val N) : Option (Val N) :=
  match o with
  | .concat =>
    match a, b with
    | .str x, .str y => some (.str (x ++ y))
    | _, _ => none
  | _ =>
    match toFloat nm a, toFloat nm b with
    | some x, some y =>
      match o with
      | .add => some (.num (nm.add x y))
      | .sub => some (.num (nm.sub x y))
      | .mul => some (.num (nm.mul x y))
      | .div => (nm.div x y).map .num
      | .mod => (nm.mod x y).map .num
      | .concat => none
    | _, _ => none

/-- `BodyElementComparison.doComparison`: both sides as floats when possible, else the raw values. -/
def applyCmp (o : CmpOp) (a b : Val N) : Option (Val N) :=
  match toFloat nm a, toFloat nm b with
  | some x, some y =>
    some (.bool (match o with
      | .eq => nm.eq x y
      | .ne => !nm.eq x y
      | .lt => nm.lt x y
      | .le => nm.le x y
      | .gt => nm.lt y x
      | .ge => nm.le y x))
  | _, _ =>
    match o with
    | .eq => some (.bool (rawEq nm a b))
    | .ne => some (.bool (!rawEq nm a b))
    | _ =>
      -- ordering on raw values: only `str` with `str` is defined
      match a, b with
      | .str x, .str y =>
        some (.bool (match o with
          | .lt => strLt x y
          | .le => strLt x y || x == y
          | .gt => strLt y x
          | _ => strLt y x || x == y))
      | _, _ => none

/-- `BodyElementBooleanOps.doBooleanOp`: both sides must be Python `bool`. -/
def applyBool (o : BoolOp) (a b : Val N) : Option (Val N) :=
  match a, b with
  | .bool x, .bool y => some (.bool (match o with | .and => x && y | .or => x || y))
  | _, _ => none

def applyOp : Op → Val N → Val N → Option (Val N)
  | .arith o => applyArith nm o
  | .cmp o => applyCmp nm o
  | .bool o => applyBool o

end

/-! ### Flat body elements -/

/-- A body element.  `BodyLevel_Group`s and function arguments hold flat lists again. -/
inductive BE (N : Type) where
  | val (v : Val N)                       -- BodyElementValue (static or resolved)
  | attr (name : Str)                     -- @name
  | text                                  -- text()
  | last                                  -- last()
  | position                              -- position()
  | concatFn (args : List (BE N))         -- concat(a, b, …): every argument a `.group`
  | containsFn (a b : BE N)               -- contains(a, b): both `.group`s
  | nspace0                               -- normalize-space()
  | nspace1 (a : BE N)                    -- normalize-space(a)
  | group (l : List (BE N))               -- ( … )
  | op (o : Op)
  deriving Inhabited

/-- What a predicate sees of the tag it is evaluated for. -/
structure Ctx where
  attrs : List (Str × Str)    -- attribute names are stored lower-case
  text : Str                  -- `innerText`: the tag's own text blocks, concatenated
  pos : Nat                   -- index among the same-named children of the parent, from 1 (1 without parent)
  last : Nat                  -- number of same-named children of the parent (1 without parent)
  deriving Repr, Inhabited

def lookupAttr : List (Str × Str) → Str → Option Str
  | [], _ => none
  | (k, v) :: rest, n => if k = n then some v else lookupAttr rest n

/-! ### One pass of `evaluateLevelForTags` -/

/-- The `while i < numElements` loop for operator class `k`; `acc` is `nextElements` reversed, its
    head is `leftSide`. -/
def pass {N : Type} (nm : Num N) (k : Nat) : List (BE N) → List (BE N) → Option (List (BE N))
  | [], acc => some acc.reverse
  | .op o :: rest, acc =>
    if o.cls = k then
      match acc, rest with
      | .val l :: acc', .val r :: rest' =>
        match applyOp nm o l r with
        | some v => pass nm k rest' (.val v :: acc')
        | none => none
      | _, _ => none
    else pass nm k rest (.op o :: acc)
  | e :: rest, acc => pass nm k rest (e :: acc)

/-- The three passes and the "exactly one value left" check (on a list whose groups and
    generators are already resolved). -/
def reduce {N : Type} (nm : Num N) (l : List (BE N)) : Option (Val N) :=
  match (pass nm 0 l []).bind (fun l1 => (pass nm 1 l1 []).bind (fun l2 => pass nm 2 l2 [])) with
  | some [.val v] => some v
  | _ => none

/-- Python `str(value)` of the value inside a BodyElementValue (`contains`). -/
def valToStr {N : Type} (nm : Num N) : Val N → Option Str
  | .str s => some s
  | .num n => nm.toStr n
  | .bool b => some (if b then "True".toList else "False".toList)
  | .null => some []

/-- `''.join(parts)` of `concat`: every part must be a `str`; `Null` counts as `''` at run time. -/
def joinStrs {N : Type} : List (Val N) → Option Str
  | [] => some []
  | .str s :: rest => (joinStrs rest).map (s ++ ·)
  | .null :: rest => joinStrs rest
  | _ :: _ => none

def vals {N : Type} : List (BE N) → Option (List (Val N))
  | [] => some []
  | .val v :: rest => (vals rest).map (v :: ·)
  | _ :: _ => none

/-- Python `needle in hay` for strings. -/
def isInfix (needle hay : Str) : Bool :=
  (List.range (hay.length + 1)).any (fun i => needle.isPrefixOf (hay.drop i))

/-- The value a resolved element carries (`none` when it is not a value). -/
def valOf {N : Type} : Option (BE N) → Option (Val N)
  | some (.val v) => some v
  | _ => none

/-- `normalize-space(arg)`: the argument must be a string or Null; leading/trailing white space stripped. -/
def nspaceVal {N : Type} : Option (Val N) → Option (Val N)
  | some (.str s) => some (.str (strip s))
  | some .null => some (.str [])
  | _ => none

/-- `contains(a, b)`: `str(b) in str(a)`. -/
def containsVal {N : Type} (nm : Num N) : Option (Val N) → Option (Val N) → Option (Val N)
  | some x, some y =>
    match valToStr nm x, valToStr nm y with
    | some s1, some s2 => some (.bool (isInfix s2 s1))
    | _, _ => none
  | _, _ => none

/-- `concat(…)`: the values of the arguments joined. -/
def concatVal {N : Type} : Option (List (Val N)) → Option (Val N)
  | some parts => (joinStrs parts).map .str
  | none => none

mutual
/-- First half of `evaluateLevelForTags` for one element: sub-levels and generators become values,
    operators stay. -/
def resolve {N : Type} (nm : Num N) (c : Ctx) : BE N → Option (BE N)
  | .val v => some (.val v)
  | .op o => some (.op o)
  | .attr name =>
    if name.contains '*' then none
    else match lookupAttr c.attrs (lower name) with
      | none => some (.val .null)
      | some v => some (.val (.str v))
  | .text => some (.val (.str c.text))
  | .last => some (.val (.num (nm.ofNat c.last)))
  | .position => some (.val (.num (nm.ofNat c.pos)))
  | .group l =>
    match resolveList nm c l with
    | some l' => (reduce nm l').map .val
    | none => none
  | .concatFn args => (concatVal ((resolveList nm c args).bind vals)).map .val
  | .containsFn a b => (containsVal nm (valOf (resolve nm c a)) (valOf (resolve nm c b))).map .val
  | .nspace0 => some (.val (.str (strip c.text)))
  | .nspace1 a => (nspaceVal (valOf (resolve nm c a))).map .val
def resolveList {N : Type} (nm : Num N) (c : Ctx) : List (BE N) → Option (List (BE N))
  | [] => some []
  | e :: rest =>
    match resolve nm c e, resolveList nm c rest with
    | some e', some rest' => some (e' :: rest')
    | _, _ => none
end

/-- `BodyLevel.evaluateLevelForTag`: the value of a flat level for one tag (`none` = raises). -/
def evalLevel {N : Type} (nm : Num N) (c : Ctx) (l : List (BE N)) : Option (Val N) :=
  (resolveList nm c l).bind (reduce nm)

/-! ### Compile-time constant folding -/

/-- May the element before the left operand / after the right operand stay where it is when an
    operator of class `k` is applied at compile time? -/
def leftOk {N : Type} (k : Nat) : List (BE N) → Bool
  | [] => true
  | .op o :: _ => k < o.cls
  | _ :: _ => false
def rightOk {N : Type} (k : Nat) : List (BE N) → Bool
  | [] => true
  | .op o :: _ => k ≤ o.cls
  | _ :: _ => false

/-- The decision of the (repaired) `_optimizeStaticValueCalculations` at an operator `o` of the class
    being processed, `acc` = `ret` reversed, `rest` = the elements after the operator:
    `none` = leave it; `some none` = the pre-calculation raises; `some (some v)` = replace
    `left o right` by `v`.  An operator between two static values is applied when the element before
    the left value is absent or an operator of a *higher* class (so the left value is all the
    operator will see at run time) and the element after the right value is absent or an operator of
    class `≥ k` (so the right value is not the head of a tighter-binding chain). -/
def foldAt {N : Type} (nm : Num N) (k : Nat) (o : Op) (acc rest : List (BE N)) : Option (Option (Val N)) :=
  match acc, rest with
  | .val l :: acc', .val r :: rest' =>
    if leftOk k acc' && rightOk k rest' then some (applyOp nm o l r) else none
  | _, _ => none

/-- One pass of the (repaired) `_optimizeStaticValueCalculations` for operator class `k`
    (`skip` = the head of the input is the right operand just consumed). -/
def optPass {N : Type} (nm : Num N) (k : Nat) : Bool → List (BE N) → List (BE N) → Option (List (BE N))
  | _, [], acc => some acc.reverse
  | true, _ :: rest, acc => optPass nm k false rest acc
  | false, .op o :: rest, acc =>
    if o.cls = k then
      match foldAt nm k o acc rest with
      | none => optPass nm k false rest (.op o :: acc)
      | some none => none                        -- the exception propagates: compile error
      | some (some v) => optPass nm k true rest (.val v :: acc.tail)
    else optPass nm k false rest (.op o :: acc)
  | false, e :: rest, acc => optPass nm k false rest (e :: acc)

/-- `_optimizeStaticValueCalculations`: lists of at most two elements are returned unchanged; then the
    arithmetic pass and the comparison pass (boolean operators are never folded). -/
def optimize {N : Type} (nm : Num N) (l : List (BE N)) : Option (List (BE N)) :=
  if l.length ≤ 2 then some l
  else (optPass nm 0 false l []).bind (fun l1 => optPass nm 1 false l1 [])

/-- The static values of one `concat` argument group, as `createFromMatch` collects them. -/
def staticParts {N : Type} : List (BE N) → Option (List (Val N))
  | [] => some []
  | .val v :: rest => (staticParts rest).map (v :: ·)
  | _ :: _ => none

def staticArgs {N : Type} : List (BE N) → Option (List (Val N))
  | [] => some []
  | .group l :: rest =>
    match staticParts l, staticArgs rest with
    | some a, some b => some (a ++ b)
    | _, _ => none
  | .val v :: rest => (staticArgs rest).map (v :: ·)
  | _ :: _ => none

/-- `''.join(staticValueParts)` at compile time: every part must be a `str` (no `Null` leniency here). -/
def joinStatic {N : Type} : List (Val N) → Option Str
  | [] => some []
  | .str s :: rest => (joinStatic rest).map (s ++ ·)
  | _ :: _ => none

mutual
/-- What the parser leaves in place of a freshly tokenised element: groups and arguments optimised
    inside-out, an all-static `concat` replaced by its value. `none` = the compile step raises. -/
def compileBE {N : Type} (nm : Num N) : BE N → Option (BE N)
  | .group l =>
    match compileEach nm l with
    | some l' => (optimize nm l').map .group
    | none => none
  | .concatFn args =>
    match compileEach nm args with
    | some args' =>
      match staticArgs args' with
      | some parts => (joinStatic parts).map (fun s => .val (.str s))
      | none => some (.concatFn args')
    | none => none
  | .containsFn a b =>
    match compileBE nm a, compileBE nm b with
    | some a', some b' => some (.containsFn a' b')
    | _, _ => none
  | .nspace1 a => (compileBE nm a).map .nspace1
  | e => some e
def compileEach {N : Type} (nm : Num N) : List (BE N) → Option (List (BE N))
  | [] => some []
  | e :: rest =>
    match compileBE nm e, compileEach nm rest with
    | some e', some rest' => some (e' :: rest')
    | _, _ => none
end

/-- `parseBodyStringIntoBodyElements`: the compiled form of one predicate. -/
def compileLevel {N : Type} (nm : Num N) (l : List (BE N)) : Option (List (BE N)) :=
  (compileEach nm l).bind (optimize nm)

/-! ### Documents -/

/-- One element of the document table; the id of an element is its index (pre-order). -/
structure Elem where
  name : Str
  parent : Option Nat
  attrs : List (Str × Str)
  text : Str
  deriving Repr, Inhabited

abbrev Doc := List Elem

def Doc.name (d : Doc) (i : Nat) : Str := (d.getD i default).name
def Doc.parent (d : Doc) (i : Nat) : Option Nat := (d.getD i default).parent

/-- `tag.children`: the elements whose parent is `i`, in document order. -/
def Doc.children (d : Doc) (i : Nat) : List Nat :=
  (List.range d.length).filter (fun j => d.parent j == some i)

/-- `getAllChildNodes`: children and their descendants, pre-order (`fuel` ≥ depth). -/
def Doc.descFuel (d : Doc) : Nat → Nat → List Nat
  | 0, _ => []
  | fuel + 1, i => (d.children i).flatMap (fun c => c :: d.descFuel fuel c)

def Doc.desc (d : Doc) (i : Nat) : List Nat := d.descFuel d.length i

/-- The `while curNode:` loop of the ancestor functions: nearest first. -/
def Doc.ancFuel (d : Doc) : Nat → Nat → List Nat
  | 0, _ => []
  | fuel + 1, i =>
    match d.parent i with
    | none => []
    | some p => p :: d.ancFuel fuel p

def Doc.anc (d : Doc) (i : Nat) : List Nat := d.ancFuel d.length i

/-- Is the table a pre-order listing of a forest (parents first; the next element is a child of the
    current one or of one of its ancestors, or a new root)?  Hypothesis `PreOrder` of C14c/d, decidable. -/
def Doc.isPreOrder (d : Doc) : Bool :=
  (List.range d.length).all (fun j =>
    (match d.parent j with
     | none => true
     | some p => decide (p < j)) &&
    (match d.parent (j + 1) with
     | none => true
     | some p => p == j || (d.anc j).contains p))

def nameOk (d : Doc) (name : Str) (i : Nat) : Bool := name = ['*'] || d.name i = name

/-- The children of the parent that carry the same tag name (`childrenOfRelevance`). -/
def Doc.sameNamed (d : Doc) (i : Nat) : Option (List Nat) :=
  match d.parent i with
  | none => none
  | some p => some ((d.children p).filter (fun c => d.name c = d.name i))

def idxOf (x : Nat) : List Nat → Nat
  | [] => 0
  | y :: ys => if y = x then 0 else idxOf x ys + 1

def Doc.ctx (d : Doc) (i : Nat) : Ctx :=
  let e := d.getD i default
  match d.sameNamed i with
  | none => ⟨e.attrs, e.text, 1, 1⟩
  | some sibs => ⟨e.attrs, e.text, idxOf i sibs + 1, sibs.length⟩

/-! ### Steps -/

inductive Axis | child | descendant | descendantOrSelf | parent | ancestor | ancestorOrSelf
  deriving Repr, DecidableEq, Inhabited

/-- The find-functions of `_filters.py` (`name` already lower-case, `*` = wildcard). -/
def oneLevel (d : Doc) (name : Str) (i : Nat) : List Nat := (d.children i).filter (nameOk d name)
def oneLevelOrSelf (d : Doc) (name : Str) (i : Nat) : List Nat :=
  (if nameOk d name i then [i] else []) ++ oneLevel d name i
def multiLevel (d : Doc) (name : Str) (i : Nat) : List Nat := (d.desc i).filter (nameOk d name)
def multiLevelOrSelf (d : Doc) (name : Str) (i : Nat) : List Nat :=
  (if nameOk d name i then [i] else []) ++ multiLevel d name i
def parentLevel (d : Doc) (name : Str) (i : Nat) : List Nat :=
  match d.parent i with
  | some p => if nameOk d name p then [p] else []
  | none => []
def ancestorLevel (d : Doc) (name : Str) (i : Nat) : List Nat := (d.anc i).filter (nameOk d name)
def ancestorOrSelfLevel (d : Doc) (name : Str) (i : Nat) : List Nat :=
  (if nameOk d name i then [i] else []) ++ ancestorLevel d name i

def axisFn (d : Doc) : Axis → Str → Nat → List Nat
  | .child => oneLevel d
  | .descendant => multiLevel d
  | .descendantOrSelf => multiLevelOrSelf d
  | .parent => parentLevel d
  | .ancestor => ancestorLevel d
  | .ancestorOrSelf => ancestorOrSelfLevel d

structure Step (N : Type) where
  dbl : Bool                       -- lead-in `//`
  axis : Option Axis
  name : Str                       -- lower-cased by the parser
  preds : List (List (BE N))       -- one flat level per `[…]`

/-- The find-function `parseXPathStrIntoOperations` picks for a step. -/
def stepFn {N : Type} (d : Doc) (first : Bool) (s : Step N) : Nat → List Nat :=
  match s.axis with
  | some a => axisFn d a s.name
  | none =>
    if s.dbl then (if first then multiLevelOrSelf d s.name else multiLevel d s.name)
    else (if first then oneLevelOrSelf d s.name else oneLevel d s.name)

/-- `TagCollection(resultNodes)`: first occurrences, in order. -/
def dedup : List Nat → List Nat
  | [] => []
  | x :: xs => x :: (dedup xs).filter (· ≠ x)

/-- `XPathOperation.applyFunction`. -/
def applyFind (f : Nat → List Nat) (cur : List Nat) : List Nat := dedup (cur.flatMap f)

/-- `_mk_xpath_op_filter_tag_is_nth_child_index(tag.tagName, n)` applied to the tag itself. -/
def isNth (d : Doc) (i : Nat) (n : Int) : Bool :=
  match d.sameNamed i with
  | none => n == 1
  | some sibs => (Int.ofNat (idxOf i sibs) + 1) == n

/-- The retain/discard decision of `filterTagsByBody` for one tag given its final value. -/
def keepTag {N : Type} (nm : Num N) (d : Doc) (i : Nat) : Val N → Option Bool
  | .bool b => some b
  | .num n =>
    match nm.toIndex n with
    | none => none
    | some none => some false
    | some (some k) => some (isNth d i k)
  | _ => none                -- VALIDATE_ONLY_BOOLEAN_OR_STR: XPathRuntimeError

/-- `BodyLevel_Top.filterTagsByBody`: all tags are evaluated first (any failure raises), then filtered. -/
def filterByBody {N : Type} (nm : Num N) (d : Doc) (l : List (BE N)) (cur : List Nat) : Option (List Nat) :=
  if cur.isEmpty then some []
  else if l.isEmpty then none          -- `resultPerTag` stays empty: indexing it raises IndexError
  else
    let rec go : List Nat → Option (List Nat)
      | [] => some []
      | i :: rest =>
        match (evalLevel nm (d.ctx i) l).bind (keepTag nm d i), go rest with
        | some b, some r => some (if b then i :: r else r)
        | _, _ => none
    (go cur).map dedup

/-- The operations of one step in order: the find-function, then each predicate; an empty
    intermediate collection ends the whole evaluation with an empty result. -/
def runPreds {N : Type} (nm : Num N) (d : Doc) : List (List (BE N)) → List Nat → Option (List Nat)
  | [], cur => some cur
  | p :: ps, cur =>
    match filterByBody nm d p cur with
    | none => none
    | some [] => some []
    | some cur' => runPreds nm d ps cur'

def runSteps {N : Type} (nm : Num N) (d : Doc) : Bool → List (Step N) → List Nat → Option (List Nat)
  | _, [], cur => some cur
  | first, s :: ss, cur =>
    match applyFind (stepFn d first s) cur with
    | [] => some []
    | cur1 =>
      match runPreds nm d s.preds cur1 with
      | none => none
      | some [] => some []
      | some cur2 => runSteps nm d false ss cur2

/-- `XPathExpression.evaluate`: the start collection is de-duplicated (`TagCollection(curResults)`). -/
def evaluate {N : Type} (nm : Num N) (d : Doc) (steps : List (Step N)) (start : List Nat) : Option (List Nat) :=
  runSteps nm d true steps (dedup start)

/-- Compile every predicate of every step (`parseXPathStrIntoOperations`); `none` = the constructor raises. -/
def compileSteps {N : Type} (nm : Num N) : List (Step N) → Option (List (Step N))
  | [] => some []
  | s :: ss =>
    match compilePreds s.preds, compileSteps nm ss with
    | some ps, some ss' => some ({ s with preds := ps } :: ss')
    | _, _ => none
where
  compilePreds : List (List (BE N)) → Option (List (List (BE N)))
    | [] => some []
    | p :: ps =>
      match compileLevel nm p, compilePreds ps with
      | some p', some ps' => some (p' :: ps')
      | _, _ => none

/-- Root nodes of a document: the elements without a parent — unless the invisible wrapper is the
    root, in which case its children (`getRootNodes`). -/
def Doc.rootNodes (d : Doc) (wrapper : Bool) : List Nat :=
  if wrapper then d.children 0 else (List.range d.length).filter (fun i => d.parent i == none)

/-! ### Entry points (`xpath/expression.py` `XPathExpression.evaluate`, `Parser.py`, `Tags.py`)

  Additions for C14 "all entry points agree": every public function that evaluates an expression, written
  down as the code has it — what it does with its receiver before it reaches the step driver `evaluate`.
  The constructor `XPathExpression(text)` is a parameter `compile : Str → Option (List (Step N))` here (it is
  `compileText` of AHP.Model.XPathParse, which this file cannot import; the compiled-expression cache in front
  of it is C15); `none` = the call raises, whatever the class. -/

/-- The classes `XPathExpression.evaluate(pathRoot)` tells apart, in the order of its `issubclass` chain
    (any other class: `ValueError`, outside the model). -/
inductive PathRoot where
  | tag (i : Nat)                    -- an `AdvancedTag`
  | parser (wrapper : Bool)          -- an `AdvancedHTMLParser` (`wrapper`: its root is the invisible wrapper)
  | tagCollection (ms : List Nat)    -- a `TagCollection` (checked before `list`, of which it is a subclass)
  | listOrTuple (ms : List Nat)      -- a plain `list` / `tuple` of tags
  deriving Repr, Inhabited

/-- `curResults` of `XPathExpression.evaluate`: `[pathRoot]`, `pathRoot.getRootNodes()`, `pathRoot.all()`,
    `list(pathRoot)`. -/
def PathRoot.start (d : Doc) : PathRoot → List Nat
  | .tag i => [i]
  | .parser w => d.rootNodes w
  | .tagCollection ms => ms
  | .listOrTuple ms => ms

/-- `XPathExpression.evaluate(pathRoot)` on a compiled expression: `TagCollection(curResults)`, then the
    operations in order (`evaluate`). -/
def exprEvaluate {N : Type} (nm : Num N) (d : Doc) (steps : List (Step N)) (r : PathRoot) : Option (List Nat) :=
  evaluate nm d steps (r.start d)

/-- `XPathExpression(text).evaluate(pathRoot)`: the constructor first (it raises on a text that does not
    compile), then the method. -/
def textEvaluate {N : Type} (compile : Str → Option (List (Step N))) (nm : Num N) (d : Doc) (text : Str)
    (r : PathRoot) : Option (List Nat) :=
  match compile text with
  | none => none
  | some steps => exprEvaluate nm d steps r

/-- `AdvancedHTMLParser.getElementsByXPathExpression(text)`: `rootNodes = self.getRootNodes()` *first*, then the
    constructor, then `xpathExpression.evaluate(rootNodes)` — the receiver is handed over as a plain list. -/
def parserGetElementsByXPathExpression {N : Type} (compile : Str → Option (List (Step N))) (nm : Num N) (d : Doc)
    (wrapper : Bool) (text : Str) : Option (List Nat) :=
  let rootNodes := d.rootNodes wrapper
  match compile text with
  | none => none
  | some steps => exprEvaluate nm d steps (.listOrTuple rootNodes)

/-- `getElementsByXPath = getElementsByXPathExpression` (class attribute alias). -/
def parserGetElementsByXPath {N : Type} (compile : Str → Option (List (Step N))) (nm : Num N) (d : Doc)
    (wrapper : Bool) (text : Str) : Option (List Nat) :=
  parserGetElementsByXPathExpression compile nm d wrapper text

/-- The second argument of `AdvancedHTMLParser.evaluate(text, whichDoc=None)`. -/
inductive WhichDoc | default | self | other
  deriving Repr, DecidableEq, Inhabited

/-- `AdvancedHTMLParser.evaluate(text, whichDoc)`: `ValueError` unless `whichDoc` is `None` or the parser
    itself, then `self.getElementsByXPathExpression(text)`. -/
def parserEvaluate {N : Type} (compile : Str → Option (List (Step N))) (nm : Num N) (d : Doc)
    (wrapper : Bool) (text : Str) (whichDoc : WhichDoc) : Option (List Nat) :=
  if whichDoc = .other then none
  else parserGetElementsByXPathExpression compile nm d wrapper text

/-- `AdvancedTag.getElementsByXPathExpression(text)`: the constructor, then `xpathExpression.evaluate(self)`. -/
def tagGetElementsByXPathExpression {N : Type} (compile : Str → Option (List (Step N))) (nm : Num N) (d : Doc)
    (i : Nat) (text : Str) : Option (List Nat) :=
  match compile text with
  | none => none
  | some steps => exprEvaluate nm d steps (.tag i)

/-- `AdvancedTag.getElementsByXPath = getElementsByXPathExpression`. -/
def tagGetElementsByXPath {N : Type} (compile : Str → Option (List (Step N))) (nm : Num N) (d : Doc)
    (i : Nat) (text : Str) : Option (List Nat) :=
  tagGetElementsByXPathExpression compile nm d i text

/-- `TagCollection.getElementsByXPathExpression(text)`: an empty collection answers with an empty collection
    *before* the constructor runs (so a text that does not compile is not noticed); otherwise the constructor,
    then `xpathExpression.evaluate(self)`. -/
def collGetElementsByXPathExpression {N : Type} (compile : Str → Option (List (Step N))) (nm : Num N) (d : Doc)
    (ms : List Nat) (text : Str) : Option (List Nat) :=
  if ms.isEmpty then some []
  else
    match compile text with
    | none => none
    | some steps => exprEvaluate nm d steps (.tagCollection ms)

/-- `TagCollection.getElementsByXPath = getElementsByXPathExpression`. -/
def collGetElementsByXPath {N : Type} (compile : Str → Option (List (Step N))) (nm : Num N) (d : Doc)
    (ms : List Nat) (text : Str) : Option (List Nat) :=
  collGetElementsByXPathExpression compile nm d ms text

/-- What every entry point on a **parser** comes to: compile the text, evaluate from the document's root nodes
    (the root, or the children of the invisible wrapper). -/
def evalParser {N : Type} (compile : Str → Option (List (Step N))) (nm : Num N) (d : Doc) (wrapper : Bool)
    (text : Str) : Option (List Nat) :=
  (compile text).bind (fun steps => evaluate nm d steps (d.rootNodes wrapper))

/-- … on an **element**: compile, evaluate from the element itself. -/
def evalElement {N : Type} (compile : Str → Option (List (Step N))) (nm : Num N) (d : Doc) (i : Nat)
    (text : Str) : Option (List Nat) :=
  (compile text).bind (fun steps => evaluate nm d steps [i])

/-- … on a **collection / list / tuple**: compile, evaluate from its members in order. -/
def evalColl {N : Type} (compile : Str → Option (List (Step N))) (nm : Num N) (d : Doc) (ms : List Nat)
    (text : Str) : Option (List Nat) :=
  (compile text).bind (fun steps => evaluate nm d steps ms)

/-- The public entry points on a parser `p` (the property names all four). -/
inductive ParserEntry where
  | getElementsByXPathExpression                 -- p.getElementsByXPathExpression(text)
  | getElementsByXPath                           -- p.getElementsByXPath(text)
  | evaluate (whichDoc : WhichDoc)               -- p.evaluate(text[, whichDoc])
  | exprEvaluate                                 -- XPathExpression(text).evaluate(p)
  | exprEvaluateRootNodes (asTuple : Bool)       -- XPathExpression(text).evaluate(p.getRootNodes()) / tuple(…)
  deriving Repr, Inhabited

def ParserEntry.run {N : Type} (compile : Str → Option (List (Step N))) (nm : Num N) (d : Doc) (wrapper : Bool)
    (text : Str) : ParserEntry → Option (List Nat)
  | .getElementsByXPathExpression => parserGetElementsByXPathExpression compile nm d wrapper text
  | .getElementsByXPath => parserGetElementsByXPath compile nm d wrapper text
  | .evaluate w => parserEvaluate compile nm d wrapper text w
  | .exprEvaluate => textEvaluate compile nm d text (.parser wrapper)
  | .exprEvaluateRootNodes _ => textEvaluate compile nm d text (.listOrTuple (d.rootNodes wrapper))

/-- The public entry points on an element. -/
inductive TagEntry where
  | getElementsByXPathExpression | getElementsByXPath | exprEvaluate
  | exprEvaluateSingleton (asTuple : Bool)       -- XPathExpression(text).evaluate([tag]) / (tag,)
  deriving Repr, Inhabited

def TagEntry.run {N : Type} (compile : Str → Option (List (Step N))) (nm : Num N) (d : Doc) (i : Nat)
    (text : Str) : TagEntry → Option (List Nat)
  | .getElementsByXPathExpression => tagGetElementsByXPathExpression compile nm d i text
  | .getElementsByXPath => tagGetElementsByXPath compile nm d i text
  | .exprEvaluate => textEvaluate compile nm d text (.tag i)
  | .exprEvaluateSingleton _ => textEvaluate compile nm d text (.listOrTuple [i])

/-- The public entry points on a collection with members `ms`. -/
inductive CollEntry where
  | getElementsByXPathExpression | getElementsByXPath
  | exprEvaluate                                 -- XPathExpression(text).evaluate(collection)
  | exprEvaluateList (asTuple : Bool)            -- XPathExpression(text).evaluate(list(collection)) / tuple(…)
  deriving Repr, Inhabited

def CollEntry.run {N : Type} (compile : Str → Option (List (Step N))) (nm : Num N) (d : Doc) (ms : List Nat)
    (text : Str) : CollEntry → Option (List Nat)
  | .getElementsByXPathExpression => collGetElementsByXPathExpression compile nm d ms text
  | .getElementsByXPath => collGetElementsByXPath compile nm d ms text
  | .exprEvaluate => textEvaluate compile nm d text (.tagCollection ms)
  | .exprEvaluateList _ => textEvaluate compile nm d text (.listOrTuple ms)

/-- the two collection *methods* (they short-cut on an empty collection) -/
def CollEntry.isMethod : CollEntry → Bool
  | .getElementsByXPathExpression => true
  | .getElementsByXPath => true
  | _ => false

end AHP.XPath
