/-
  AHP.Model.Search — the search entry points of Parser.py / Tags.py as the code has them (C06).

  A document is a tree of elements; an element carries what the searches read: its uid (creation
  index), tag name, the attribute dictionary (insertion order; without `class`, whose authoritative
  store is the class list), the class list (`_classNames`) and the cached `text`.

  Every function below is written the way the code recurses:
    * the `for child in root.children: test child; elements += recurse(child)` loops of the parser
      and element forms (`descScan`/`descScanL`, each level wrapping its result in a `TagCollection`),
    * `_handleRootArg` + the extra root test of the parser forms (`scanP`, `firstP`),
    * `TagCollection._subset` with its uid test (`subset`/`subsetL`, `collScan`),
    * `getAllChildNodes` / `getAllNodes` on the three receivers,
    * `find`'s keyword compiler, the bridge to QueryableList (`_get_item_value`, `filterAnd`/`filterOr`
      for the operators C06 names).
  `TC` is `TagCollection` carrying the elements themselves (`AHP.Coll` keeps uids only);
  `TC.toColl` forgets the payload.

  Modelling restrictions (DESIGN §7): attribute values are strings (value-less attributes are C01/C08's
  subject); the names in `TAG_ITEM_BINARY_ATTRIBUTES` (for which `getAttribute` answers a bool), `class`
  and `style` are not used as *attribute* names in queries; `tag.getChildren()` inside `_subset` is the
  children list itself (the children of one element are distinct objects).
-/
import AHP.Model.Coll
import AHP.Gen.Tables
namespace AHP.G3
structure Elem where
  uid : Nat
  tag : Str
  attrs : List (Str × Str)
  classes : List Str
  text : Str
  deriving Repr, Inhabited

inductive Node where
  | mk (e : Elem) (kids : List Node)
  deriving Inhabited

namespace Node
def elem : Node → Elem | mk e _ => e
def kids : Node → List Node | mk _ k => k
def uid (n : Node) : Nat := n.elem.uid
end Node

namespace Elem
/-- `getAttribute(name)` (None when absent). -/
def attr (e : Elem) (a : Str) : Option Str := e.attrs.lookup a
/-- `getAttribute(name, default)` and the dot access `tag.id` / `tag.name` (default `''`). -/
def attrOr (e : Elem) (a d : Str) : Str := (e.attr a).getD d
/-- `hasClass` / `name in tag.classNames`. -/
def hasClass (e : Elem) (c : Str) : Bool := e.classes.contains c
end Elem

/-! ### TagCollection with payload -/

structure TC where
  items : List Node
  uids : List Nat
  deriving Inhabited

namespace TC
def empty : TC := ⟨[], []⟩
def hasTag (c : TC) (x : Node) : Bool := c.uids.contains x.uid
def append (c : TC) (x : Node) : TC :=
  ⟨c.items ++ [x], if c.uids.contains x.uid then c.uids else c.uids ++ [x.uid]⟩
def iadd (c : TC) (xs : List Node) : TC :=
  xs.foldl (fun c x => if c.hasTag x then c else c.append x) c
def ofList (xs : List Node) : TC := iadd empty xs
def add (c : TC) (xs : List Node) : TC := iadd (ofList c.items) xs
def toColl (c : TC) : Coll := ⟨c.items.map Node.uid, c.uids⟩
def ids (c : TC) : List Nat := c.items.map Node.uid
end TC

/-! ### The recursive scans -/

mutual
/-- `X.getElementsBy…(q)` on an element, and `parser.getElementsBy…(q, child)` for a non-root `child`:
    the matching strict descendants, wrapped in a `TagCollection`. -/
def descScan (pred : Elem → Bool) : Node → TC
  | .mk _ ks => TC.ofList (descScanL pred ks)
/-- the loop `for child in children: if pred(child): elements.append(child); elements += recurse(child)` -/
def descScanL (pred : Elem → Bool) : List Node → List Node
  | [] => []
  | k :: ks => (if pred k.elem then [k] else []) ++ (descScan pred k).items ++ descScanL pred ks
end

/-- A parser-level `getElementsBy…(q, root)` after `_handleRootArg`: the root itself is tested (with the
    root's own test, which reads the dot-access form for `name`/`id`) only when `isFromRoot`. -/
def scanP (rootPred pred : Elem → Bool) (isRoot : Bool) (n : Node) : TC :=
  TC.ofList ((if isRoot && rootPred n.elem then [n] else []) ++ descScanL pred n.kids)

mutual
/-- `getElementById` / `getFirstElementCustomFilter` below an element: first match, depth first. -/
def descFirst (pred : Elem → Bool) : Node → Option Node
  | .mk _ ks => descFirstL pred ks
def descFirstL (pred : Elem → Bool) : List Node → Option Node
  | [] => none
  | k :: ks =>
    if pred k.elem then some k
    else match descFirst pred k with
      | some r => some r
      | none => descFirstL pred ks
end

def firstP (rootPred pred : Elem → Bool) (isRoot : Bool) (n : Node) : Option Node :=
  if isRoot && rootPred n.elem then some n else descFirst pred n

mutual
/-- `TagCollection._subset(ret, cmpFunc, tag)`. -/
def subset (cmp : Elem → Bool) (ret : TC) : Node → TC
  | .mk e ks =>
    subsetL cmp (if cmp e && !(ret.hasTag (.mk e ks)) then ret.append (.mk e ks) else ret) ks
def subsetL (cmp : Elem → Bool) (ret : TC) : List Node → TC
  | [] => ret
  | k :: ks => subsetL cmp (subset cmp ret k) ks
end

/-- `for tag in self: TagCollection._subset(ret, cmp, tag)`. -/
def collScan (cmp : Elem → Bool) (members : List Node) : TC :=
  members.foldl (subset cmp) TC.empty

/-- `TagCollection.getElementById`: each member (dot access), then below it (element form). -/
def collFirst (memberPred pred : Elem → Bool) : List Node → Option Node
  | [] => none
  | m :: ms =>
    if memberPred m.elem then some m
    else match descFirst pred m with
      | some r => some r
      | none => collFirst memberPred pred ms

/-! ### getAllChildNodes / getAllNodes -/

mutual
/-- `AdvancedTag.getAllChildNodes`. -/
def allChildNodes : Node → TC
  | .mk _ ks => allChildNodesL TC.empty ks
def allChildNodesL (ret : TC) : List Node → TC
  | [] => ret
  | k :: ks => allChildNodesL ((ret.append k).iadd (allChildNodes k).items) ks
end

/-- `AdvancedTag.getAllNodes`. -/
def elemAllNodes (n : Node) : TC := (TC.ofList [n]).iadd (allChildNodes n).items

def wrapperTag : Str := Gen.invisibleRootTag.toList

/-- `parser.getRootNodes`. -/
def rootNodes (root : Node) : List Node :=
  if root.elem.tag = wrapperTag then root.kids else [root]

/-- `parser.getAllNodes`. -/
def parserAllNodes (root : Node) : TC :=
  (rootNodes root).foldl (fun ret r => (ret.append r).iadd (allChildNodes r).items) TC.empty

/-- `TagCollection.getAllNodes`. -/
def collAllNodes (members : List Node) : TC :=
  members.foldl (fun ret t => (if ret.hasTag t then ret else ret.append t).iadd (allChildNodes t).items) TC.empty

/-! ### Predicates as the code evaluates them -/

def isSub (needle hay : Str) : Bool :=
  match hay with
  | [] => needle.isEmpty
  | c :: cs => needle.isPrefixOf (c :: cs) || isSub needle cs

/-- Python `value in set_of_strings` for a possibly missing attribute (None is never a member). -/
def optIn (o : Option Str) (vs : List Str) : Bool :=
  match o with
  | some v => vs.contains v
  | none => false

def pTag (q : Str) (e : Elem) : Bool := e.tag == q
def pAttr (a v : Str) (e : Elem) : Bool := e.attr a == some v
def pDot (a v : Str) (e : Elem) : Bool := e.attrOr a [] == v
def pClass (c : Str) (e : Elem) : Bool := e.hasClass c
def pAllClasses (cs : List Str) (e : Elem) : Bool := cs.all e.hasClass
def pVals (a : Str) (vs : List Str) (e : Elem) : Bool := optIn (e.attr a) vs

/-- `[x.strip() for x in className.strip().split(' ') if x.strip()]`. -/
def classWords (q : Str) : List Str :=
  ((splitChar ' ' (strip q)).map strip).filter (fun w => !w.isEmpty)

/-! ### The entry points.  `none` = the call raises. -/

inductive Recv where
  | parser (root : Node) (arg : Option Node)   -- `root=` argument: none = the default 'root'
  | element (n : Node)
  | coll (members : List Node)

/-- `_handleRootArg`. -/
def handleRootArg (root : Node) (arg : Option Node) : Node × Bool :=
  match arg with
  | none => (root, true)
  | some r => if r.uid == root.uid then (root, true) else (r, false)

def byTagName (q : Str) : Recv → TC
  | .parser root arg => let (r, isRoot) := handleRootArg root arg; scanP (pTag q) (pTag q) isRoot r
  | .element n => descScan (pTag q) n
  | .coll ms => collScan (pTag (lower q)) ms

def byName (q : Str) : Recv → TC
  | .parser root arg =>
    let (r, isRoot) := handleRootArg root arg
    scanP (pDot (str "name") q) (pAttr (str "name") q) isRoot r
  | .element n => descScan (pAttr (str "name") q) n
  | .coll ms => collScan (pDot (str "name") q) ms

def byId (q : Str) : Recv → Option Node
  | .parser root arg =>
    let (r, isRoot) := handleRootArg root arg
    firstP (pDot (str "id") q) (pAttr (str "id") q) isRoot r
  | .element n => descFirst (pAttr (str "id") q) n
  | .coll ms => collFirst (pDot (str "id") q) (pAttr (str "id") q) ms

def byAttr (a v : Str) : Recv → TC
  | .parser root arg => let (r, isRoot) := handleRootArg root arg; scanP (pAttr a v) (pAttr a v) isRoot r
  | .element n => descScan (pAttr a v) n
  | .coll ms => collScan (pAttr (lower a) v) ms

def withAttrValues (a : Str) (vs : List Str) : Recv → TC
  | .parser root arg =>
    let (r, isRoot) := handleRootArg root arg
    let elements := descScan (pVals a vs) r
    if isRoot && pVals a vs r.elem then (TC.ofList [r]).add elements.items else elements
  | .element n => descScan (pVals a vs) n
  | .coll ms => collScan (pVals (lower a) vs) ms

def customFilter (f : Elem → Bool) : Recv → TC
  | .parser root arg => let (r, isRoot) := handleRootArg root arg; scanP f f isRoot r
  | .element n => descScan f n
  | .coll ms => collScan f ms

/-- `getFirstElementCustomFilter` (parser and element only). -/
def firstCustomFilter (f : Elem → Bool) : Recv → Option (Option Node)
  | .parser root arg => let (r, isRoot) := handleRootArg root arg; some (firstP f f isRoot r)
  | .element n => some (descFirst f n)
  | .coll _ => none

/-- `getElementsByClassName`: first name by the recursive scan, the remaining names by a filter over its
    result (parser, element); one compiled test for the collection form. -/
def byClassName (q : Str) : Recv → Option TC
  | .parser root arg =>
    let (r, isRoot) := handleRootArg root arg
    match classWords q with
    | [] => none
    | c :: rest =>
      let elements := (if isRoot && pClass c r.elem then [r] else []) ++ descScanL (pClass c) r.kids
      some (TC.ofList (if rest.isEmpty then elements else elements.filter (fun n => pAllClasses rest n.elem)))
  | .element n =>
    match classWords q with
    | [] => none
    | c :: rest =>
      let elements := descScanL (pClass c) n.kids
      some (TC.ofList (if rest.isEmpty then elements else elements.filter (fun n => pAllClasses rest n.elem)))
  | .coll ms =>
    let ws := classWords q
    some (collScan (if ws.length ≤ 1 then pClass (strip q) else pAllClasses ws) ms)

/-! ### find -/

inductive FVal where
  | one (v : Str)
  | many (vs : List Str)

def endsWith (suffix s : Str) : Bool := suffix.reverse.isPrefixOf s.reverse
def dropSuffix (n : Nat) (s : Str) : Str := s.take (s.length - n)

/-- one `key=value` of `find`; `none` = ValueError (`tagname__contains`). -/
def compileFind (key0 : Str) (val : FVal) : Option (Elem → Bool) :=
  let key := lower key0
  let endsI := endsWith (str "__icontains") key
  let endsC := endsWith (str "__contains") key
  if endsI || endsC then
    let key := if endsI then dropSuffix 11 key else dropSuffix 10 key
    if key = str "tagname" then none
    else
      let get : Elem → Str := if key = str "text" then (fun e => e.text) else (fun e => e.attrOr key [])
      let norm : Str → Str := if endsI then lower else id
      match val with
      | .many vs => some (fun e => (vs.map norm).any (fun v => isSub v (norm (get e))))
      | .one v => some (fun e => isSub (norm v) (norm (get e)))
  else
    let get : Elem → Str :=
      if key = str "tagname" then (fun e => e.tag)
      else if key = str "text" then (fun e => e.text) else (fun e => e.attrOr key [])
    match val with
    | .many vs => some (fun e => vs.contains (get e))
    | .one v => some (fun e => get e == v)

def compileAll : List (Str × FVal) → Option (List (Elem → Bool))
  | [] => some []
  | (k, v) :: rest =>
    match compileFind k v with
    | none => none
    | some f => (compileAll rest).map (f :: ·)

/-- `parser.find(**kwargs)`. -/
def find (root : Node) (kwargs : List (Str × FVal)) : Option TC :=
  if kwargs.isEmpty then some TC.empty
  else match compileAll kwargs with
    | none => none
    | some fs => some (scanP (fun e => fs.all (· e)) (fun e => fs.all (· e)) true root)

/-! ### filter (QueryableList bridge) -/

inductive Crit where
  | eq (f v : Str)
  | ne (f v : Str)
  | contains (f v : Str)
  | icontains (f v : Str)
  | isin (f : Str) (vs : List Str)

/-- `FilterableTagCollection._get_item_value`. -/
def fieldValue (e : Elem) (f0 : Str) : Option Str :=
  let f := lower f0
  if f = str "tagname" then some e.tag
  else if f = str "text" then some e.text
  else e.attr f

/-- QueryableList 3.1.0 on one item and one criterion (a missing attribute is `None`: it is unequal to
    every string, contains nothing, is in no set). -/
def Crit.holds (e : Elem) : Crit → Bool
  | .eq f v => fieldValue e f == some v
  | .ne f v => !(fieldValue e f == some v)
  | .contains f v => match fieldValue e f with
    | some s => isSub v s
    | none => false
  | .icontains f v => match fieldValue e f with
    | some s => isSub (lower v) (lower s)
    | none => false
  | .isin f vs => optIn (fieldValue e f) vs

def qlAnd (cs : List Crit) (items : List Node) : List Node := items.filter (fun n => cs.all (Crit.holds n.elem))
def qlOr (cs : List Crit) (items : List Node) : List Node := items.filter (fun n => cs.any (Crit.holds n.elem))

inductive FMode where
  | and_ | or_ | allAnd | allOr

/-- `filter`/`filterAnd`/`filterOr` on the three receivers and `filterAll`/`filterAllAnd`/`filterAllOr` on a
    collection; `none` = no such method. -/
def filterQ (mode : FMode) (cs : List Crit) : Recv → Option TC
  | .parser root _ =>
    match mode with
    | .and_ => some (TC.ofList (qlAnd cs (parserAllNodes root).items))
    | .or_ => some (TC.ofList (qlOr cs (parserAllNodes root).items))
    | _ => none
  | .element n =>
    match mode with
    | .and_ => some (TC.ofList (qlAnd cs (elemAllNodes n).items))
    | .or_ => some (TC.ofList (qlOr cs (elemAllNodes n).items))
    | _ => none
  | .coll ms =>
    match mode with
    | .and_ => some (TC.ofList (qlAnd cs ms))
    | .or_ => some (TC.ofList (qlOr cs ms))
    | .allAnd => some (TC.ofList (qlAnd cs (collAllNodes ms).items))
    | .allOr => some (TC.ofList (qlOr cs (collAllNodes ms).items))

/-! ### locate an element of the document by uid -/
mutual
def Node.find? : Node → Nat → Option Node
  | .mk e ks, x => if e.uid == x then some (.mk e ks) else findL? ks x
def findL? : List Node → Nat → Option Node
  | [], _ => none
  | t :: ts, x => match Node.find? t x with
    | some r => some r
    | none => findL? ts x
end

end AHP.G3