/-
  AHP.Model.StripIE — `utils.stripIEConditionals`, the first thing `Parser.feed` / `Formatter.feed` /
  `createElementFromHTML` do to the text:

      allMatches = IE_CONDITIONAL_PATTERN.findall(contents)
      if not allMatches: return contents
      for match in allMatches: contents = contents.replace(match, '')
      if END_HTML.match(contents) and not START_HTML.match(contents):
          contents = addStartTag(contents, '<html>')
      return contents

  with
      IE_CONDITIONAL_PATTERN = '[<][!][-][-][ \t\r\n]*[\[][ \t\r\n]*if.*-->'   (re.MULTILINE, no re.DOTALL)
      END_HTML   = '.*</[ \t\r\n]*[hH][tT][mM][lL][ \t\r\n]*>.*'              (re.DOTALL)
      START_HTML = '.*<[ \t\r\n]*[hH][tT][mM][lL][ \t\r\n]*>.*'               (re.DOTALL)

  The three patterns share one shape: a *deterministic* item sequence (single-character classes and starred
  classes, every starred class disjoint from the class that follows it, so the greedy reading is the only one)
  and, for the first, the tail `.*-->` : `.` stops at `\n`, `.*` is greedy, so the match runs to the LAST `-->`
  whose three characters lie on the line of the `if`.  `re.MULTILINE` only changes `^`/`$`, which do not occur.
  `END_HTML.match` / `START_HTML.match` with `.*` on both sides under DOTALL ask whether the middle part occurs
  anywhere.  The unused parameter `addHtmlIfMissing` is not modelled (the code ignores it).
-/
import AHP.Model.Builder
namespace AHP

/-- one item of a pattern: a character class, or a starred character class -/
inductive PItem where
  | one (cs : List Char)
  | star (cs : List Char)
  deriving Repr, Inhabited

/-- the characters an item may consume -/
def PItem.cls : PItem → List Char
  | .one cs => cs
  | .star cs => cs

/-- match an item sequence at the start of the text: (matched prefix, what follows).  A star takes as much as
    it can (for the patterns below nothing else can lead to a match). -/
def matchItems : List PItem → Str → Option (Str × Str)
  | [], s => some ([], s)
  | .one _ :: _, [] => none
  | .one cs :: ps, x :: s =>
    if cs.contains x then
      match matchItems ps s with
      | some (m, r) => some (x :: m, r)
      | none => none
    else none
  | .star cs :: ps, s =>
    match matchItems ps (s.dropWhile cs.contains) with
    | some (m, r) => some (s.takeWhile cs.contains ++ m, r)
    | none => none

/-- does the item sequence match somewhere in the text (`'.*' items '.*'` under DOTALL, `.match`) -/
def occurs (ps : List PItem) : Str → Bool
  | [] => (matchItems ps []).isSome
  | c :: cs => (matchItems ps (c :: cs)).isSome || occurs ps cs

/-- `[ \t\r\n]` -/
def reWs : List Char := [' ', '\t', '\r', '\n']

/-- what follows `<!--` in the conditional's opener: `[ \t\r\n]*[\[][ \t\r\n]*if` -/
def ieCondPat : List PItem := [.star reWs, .one ['['], .star reWs, .one ['i'], .one ['f']]

/-- `[<][!][-][-][ \t\r\n]*[\[][ \t\r\n]*if` -/
def ieOpenerPat : List PItem := .one ['<'] :: .one ['!'] :: .one ['-'] :: .one ['-'] :: ieCondPat

def htmlWordPat : List PItem :=
  [.star reWs, .one ['h', 'H'], .one ['t', 'T'], .one ['m', 'M'], .one ['l', 'L'], .star reWs, .one ['>']]

/-- `</[ \t\r\n]*[hH][tT][mM][lL][ \t\r\n]*>` -/
def endHtmlPat : List PItem := .one ['<'] :: .one ['/'] :: htmlWordPat

/-- `<[ \t\r\n]*[hH][tT][mM][lL][ \t\r\n]*>` -/
def startHtmlPat : List PItem := .one ['<'] :: htmlWordPat

def arrow : Str := ['-', '-', '>']

/-- greedy `.*-->` inside one line: the text through the LAST `-->`, and the rest of the line -/
def throughLastArrow : Str → Option (Str × Str)
  | [] => none
  | c :: cs =>
    match throughLastArrow cs with
    | some (a, b) => some (c :: a, b)
    | none => if arrow.isPrefixOf (c :: cs) then some (arrow, cs.drop 2) else none

/-- `IE_CONDITIONAL_PATTERN.match(s)`: the matched text, if the pattern matches at the start of `s` -/
def ieMatchAt (s : Str) : Option Str :=
  match matchItems ieOpenerPat s with
  | none => none
  | some (op, r) =>
    match throughLastArrow (r.takeWhile (· ≠ '\n')) with
    | none => none
    | some (a, _) => some (op ++ a)

/-- `findall`: left to right, non-overlapping; `skip` = characters of the last match still to pass -/
def ieFindAllAux : Nat → Str → List Str
  | _, [] => []
  | k + 1, _ :: cs => ieFindAllAux k cs
  | 0, c :: cs =>
    match ieMatchAt (c :: cs) with
    | some m => m :: ieFindAllAux (m.length - 1) cs
    | none => ieFindAllAux 0 cs

/-- `IE_CONDITIONAL_PATTERN.findall(contents)` -/
def ieFindAll (s : Str) : List Str := ieFindAllAux 0 s

/-- `contents.replace(m, '')` for a non-empty `m`: every occurrence, left to right, non-overlapping -/
def removeAux (m : Str) : Nat → Str → Str
  | _, [] => []
  | k + 1, _ :: cs => removeAux m k cs
  | 0, c :: cs =>
    if m.isPrefixOf (c :: cs) then removeAux m (m.length - 1) cs else c :: removeAux m 0 cs

/-- `contents.replace(m, '')` -/
def removeAll (m s : Str) : Str := if m.isEmpty then s else removeAux m 0 s

def htmlStartTag : Str := "<html>".toList

/-- the `END_HTML` / `START_HTML` test and `addStartTag(contents, '<html>')` -/
def addHtmlIfMissing (s : Str) : Str :=
  if occurs endHtmlPat s && !occurs startHtmlPat s then addStartTagStr s htmlStartTag else s

/-- `utils.stripIEConditionals(contents)` -/
def stripIE (s : Str) : Str :=
  let ms := ieFindAll s
  if ms.isEmpty then s
  else addHtmlIfMissing (ms.foldl (fun acc m => removeAll m acc) s)

end AHP
