/-
  AHP.Model.Token — the token alphabet of `html.parser.HTMLParser` as the library's handlers see it
  (`convert_charrefs = False`), attribute intake of `AdvancedTag.__init__`, and the attribute view used
  by the serialisers.
-/
import AHP.Model.Basic
import AHP.Gen.Tables
namespace AHP

abbrev Attr := Str × Option Str

/-- One callback of the tokenizer. -/
inductive Token where
  | decl (s : Str)                          -- handle_decl          `<!DOCTYPE …>`
  | unknownDecl (s : Str)                   -- unknown_decl         `<![ … ]>`
  | comment (s : Str)                       -- handle_comment
  | pi (s : Str)                            -- handle_pi (not overridden: ignored)
  | start (n : Str) (a : List Attr)         -- handle_starttag (name already lower-cased by the tokenizer)
  | startend (n : Str) (a : List Attr)      -- handle_startendtag
  | end_ (n : Str)                          -- handle_endtag
  | data (s : Str)                          -- handle_data
  | entity (s : Str)                        -- handle_entityref
  | charref (s : Str)                       -- handle_charref
  deriving Repr, DecidableEq, Inhabited

/-! ### character classes (ASCII-exact renderings of `str.isalpha/isalnum`) -/
def isAlpha (c : Char) : Bool := ('a' ≤ c && c ≤ 'z') || ('A' ≤ c && c ≤ 'Z')
def isDigit (c : Char) : Bool := '0' ≤ c && c ≤ '9'
def isAlnum (c : Char) : Bool := isAlpha c || isDigit c

/-- `Tags.isValidAttributeName` (ASCII). -/
def validAttrName (n : Str) : Bool :=
  match n with
  | [] => false
  | c :: _ => (isAlpha c || c = '_') && n.all (fun d => isAlnum d || d = '-' || d = '_')

def voidTags : List Str := Gen.voidTags.map String.toList
def wrapperName : Str := Gen.invisibleRootTag.toList
def isVoid (n : Str) : Bool := voidTags.contains n

/-! ### insertion-ordered dict -/
def dictSet {β : Type} (d : List (Str × β)) (k : Str) (v : β) : List (Str × β) :=
  match d with
  | [] => [(k, v)]
  | (k', v') :: r => if k' = k then (k, v) :: r else (k', v') :: dictSet r k v

def dictDel {β : Type} (d : List (Str × β)) (k : Str) : List (Str × β) :=
  d.filter (fun p => p.1 ≠ k)

def dictGet {β : Type} (d : List (Str × β)) (k : Str) : Option β :=
  match d with
  | [] => none
  | (k', v) :: r => if k' = k then some v else dictGet r k

/-! ### class and style intake -/

/-- `WORDS_ONLY_RE.sub(' ', …)`: runs of two or more spaces become one space. -/
def collapseSpaces : Str → Str
  | [] => []
  | ' ' :: ' ' :: r => collapseSpaces (' ' :: r)
  | c :: r => c :: collapseSpaces r

/-- `utils.stripWordsOnly`. -/
def stripWordsOnly (s : Str) : Str := collapseSpaces (strip s)

/-- `[x for x in value.split(' ') if x]`. -/
def splitWords (s : Str) : List Str := (splitChar ' ' s).filter (fun w => !w.isEmpty)

/-- class names from the text assigned to `className` (no value — `<div class>` — means no class names) -/
def classNamesOf (v : Option Str) : List Str :=
  splitWords (stripWordsOnly (match v with | some s => s | none => []))

/-- index of the first `c`, as `str.index` (none = ValueError). -/
def indexOf? (c : Char) : Str → Option Nat
  | [] => none
  | d :: r => if d = c then some 0 else (indexOf? c r).map (· + 1)

/-- `StyleAttribute.styleToDict`: items without ':' are skipped, later duplicates overwrite in place. -/
def styleToDict (s : Str) : List (Str × Str) :=
  (splitChar ';' (strip s)).foldl (fun d item =>
    match indexOf? ':' item with
    | none => d
    | some i => dictSet d (lower (strip (item.take i))) (strip (item.drop (i + 1)))) []

/-- `StyleAttribute._asStr`. -/
def styleStr (m : List (Str × Str)) : Str :=
  joinWith "; ".toList (m.map (fun p => p.1 ++ ": ".toList ++ p.2))

/-- `conversions.convertToBooleanString` on what the tokenizer can deliver (a string or `None`). -/
def boolString (v : Option Str) : Str :=
  match v with
  | none => "false".toList
  | some s => if lower s = "false".toList || lower s = "0".toList then "false".toList else "true".toList

/-- The attribute store right after construction from an attribute list:
    the underlying dict (`style` holds the raw text until a reader syncs it), the class list, the style map. -/
structure AttrState where
  d : List (Str × Option Str)
  classes : List Str
  style : List (Str × Str)
  deriving Repr, DecidableEq, Inhabited

def AttrState.empty : AttrState := ⟨[], [], []⟩

/-- One `myAttributes[key] = value` of `AdvancedTag.__init__` (key already lower-cased and validated). -/
def AttrState.set (st : AttrState) (k : Str) (v : Option Str) : AttrState :=
  if k = "style".toList then
    -- `StyleAttribute(value)`: a missing value is the empty style
    let m := styleToDict (match v with | some s => s | none => [])
    -- `_ensureHtmlAttribute`: the key holds the style object exactly while the style is non-empty
    { st with d := (if m.isEmpty then dictDel st.d k else dictSet st.d k v), style := m }
  else if k = "class".toList then
    { st with classes := classNamesOf v }
  else if k = "spellcheck".toList then
    { st with d := dictSet st.d k (some (boolString v)) }
  else
    { st with d := dictSet st.d k v }

/-- `AdvancedTag.__init__` over the attribute list: names lower-cased, invalid names dropped. -/
def intake : List Attr → AttrState → AttrState
  | [], st => st
  | (k, v) :: r, st =>
    let k := lower k
    if validAttrName k then intake r (st.set k v) else intake r st

/-- `_handleClassAttr` followed by `dict.items()`: what `getStartTag` / `getAttributesList` iterate. -/
def AttrState.view (st : AttrState) : List Attr :=
  let d := if st.classes.isEmpty then dictDel st.d "class".toList
           else dictSet st.d "class".toList (some (joinWith [' '] st.classes))
  if st.style.isEmpty then dictDel d "style".toList
  else dictSet d "style".toList (some (styleStr st.style))

end AHP
