/-
  AHP.Model.DomView — the read side of the DOM model: navigation properties and serialisation of
  `AdvancedTag` (Tags.py), computed from the fields the code reads.
-/
import AHP.Model.Dom
namespace AHP.Dom

/-! ### Navigation (Tags.py: firstChild … getAllChildNodes) -/

def isEmptyText : DN → Bool
  | .text s => s.isEmpty
  | .el _ _ => false

/-- `firstIdx`: 1 when the leading block is the empty indent string, else 0 -/
def firstIdx (bs : List DN) : Nat :=
  match bs with
  | b :: _ => if isEmptyText b then 1 else 0
  | [] => 0

/-- `firstChild` (`blocks[0]` on an empty list is an IndexError) -/
def firstChild (bs : List DN) : Val :=
  match bs with
  | [] => .raise "IndexError"
  | _ :: _ =>
    if bs.length = firstIdx bs then .none
    else match bs[firstIdx bs]? with
      | some b => dnVal b
      | none => .raise "IndexError"

/-- `lastChild` -/
def lastChild (bs : List DN) : Val :=
  match bs with
  | [] => .raise "IndexError"
  | _ :: _ =>
    if bs.length ≤ firstIdx bs then .none
    else match bs.getLast? with
      | some b => dnVal b
      | none => .none

def optEl : Option Nat → Val
  | none => .none
  | some c => .el c

def firstElementChild (m : Meta) : Val := optEl m.children.head?
def lastElementChild (m : Meta) : Val := optEl m.children.getLast?
def childElementCount (m : Meta) : Nat := m.children.length
def hasChild (m : Meta) (c : Nat) : Bool := m.children.contains c
def hasChildNodes (m : Meta) : Bool := !m.children.isEmpty

/-- `list.index(x)` on uids -/
def natIndex (x : Nat) : List Nat → Option Nat
  | [] => none
  | y :: ys => if y = x then some 0 else (natIndex x ys).map (· + 1)

/-- `nextSibling`: through the cached `parentNode`, `parent.blocks.index(self)`, the following block -/
def nextSibling (w : World) (m : Meta) : Val :=
  match m.parent with
  | none => .none
  | some p =>
    match w.find? p with
    | none => .raise "dangling-parent"
    | some (_, pbs) =>
      match indexOf (.elm m.id) pbs with
      | none => .raise "ValueError"
      | some i =>
        if i = pbs.length - 1 then .none
        else match pbs[i + 1]? with
          | some b => dnVal b
          | none => .raise "IndexError"

def previousSibling (w : World) (m : Meta) : Val :=
  match m.parent with
  | none => .none
  | some p =>
    match w.find? p with
    | none => .raise "dangling-parent"
    | some (_, pbs) =>
      match indexOf (.elm m.id) pbs with
      | none => .raise "ValueError"
      | some i =>
        if i = 0 then .none
        else match pbs[i - 1]? with
          | some b => dnVal b
          | none => .raise "IndexError"

def nextElementSibling (w : World) (m : Meta) : Val :=
  match m.parent with
  | none => .none
  | some p =>
    match w.find? p with
    | none => .raise "dangling-parent"
    | some (pm, _) =>
      match natIndex m.id pm.children with
      | none => .raise "ValueError"
      | some i =>
        if i = pm.children.length - 1 then .none
        else match pm.children[i + 1]? with
          | some c => .el c
          | none => .raise "IndexError"

def previousElementSibling (w : World) (m : Meta) : Val :=
  match m.parent with
  | none => .none
  | some p =>
    match w.find? p with
    | none => .raise "dangling-parent"
    | some (pm, _) =>
      match natIndex m.id pm.children with
      | none => .raise "ValueError"
      | some i =>
        if i = 0 then .none
        else match pm.children[i - 1]? with
          | some c => .el c
          | none => .raise "IndexError"

/-- `getPeers()`: None without a parent, else the parent's children except this element -/
def getPeers (w : World) (m : Meta) : Val :=
  match m.parent with
  | none => .none
  | some p =>
    match w.find? p with
    | none => .raise "dangling-parent"
    | some (pm, _) => .list ((pm.children.filter (· ≠ m.id)).map .el)

mutual
/-- `getAllChildNodes()`: each child followed by its descendants (pre-order) -/
def desc : DN → List Nat
  | .text _ => []
  | .el _ bs => descL bs
def descL : List DN → List Nat
  | [] => []
  | .text _ :: bs => descL bs
  | .el m k :: bs => (m.id :: descL k) ++ descL bs
end

/-- `contains(other)` / `containsUid`: this element or any element below -/
def containsUid (m : Meta) (bs : List DN) (x : Nat) : Bool := m.id == x || (descL bs).contains x

mutual
/-- `textContent`: all text in document order -/
def textContent : DN → Str
  | .text s => s
  | .el _ bs => textContentL bs
def textContentL : List DN → Str
  | [] => []
  | b :: bs => textContent b ++ textContentL bs
end

/-! ### Serialisation (getStartTag, getEndTag, innerHTML, outerHTML; `_indent` is empty outside the formatter) -/

/-- `escapeQuotes` -/
def escapeQuotes (v : Str) : Str := v.flatMap (fun c => if c = '"' then "&quot;".toList else [c])

/-- one attribute of a start tag (plain names: `name="value"`, or the bare name for a None value) -/
def attrStr : Str × Option Str → Str
  | (n, none) => n
  | (n, some v) => n ++ "=\"".toList ++ escapeQuotes v ++ "\"".toList

def attrsStr : List (Str × Option Str) → Str
  | [] => []
  | a :: as => ' ' :: attrStr a ++ attrsStr as

/-- `getStartTag()` -/
def startTag (m : Meta) : Str :=
  '<' :: m.name ++ attrsStr m.attrs ++ (if m.sc then " />".toList else " >".toList)

/-- `getEndTag()` -/
def endTag (m : Meta) : Str :=
  if m.sc then [] else "</".toList ++ m.name ++ ">".toList

mutual
/-- `outerHTML` of a block (a text block is itself) -/
def outerHTML : DN → Str
  | .text s => s
  | .el m bs => startTag m ++ (if m.sc then [] else innerL bs) ++ endTag m
/-- the join of `innerHTML` -/
def innerL : List DN → Str
  | [] => []
  | b :: bs => outerHTML b ++ innerL bs
end

/-- `innerHTML`: empty for a self-closing tag, else the blocks' HTML joined -/
def innerHTML (m : Meta) (bs : List DN) : Str := if m.sc then [] else innerL bs

mutual
/-- every element of a tree with its blocks, pre-order -/
def elems : DN → List (Meta × List DN)
  | .text _ => []
  | .el m bs => (m, bs) :: elemsL bs
def elemsL : List DN → List (Meta × List DN)
  | [] => []
  | b :: bs => elems b ++ elemsL bs
end

end AHP.Dom
