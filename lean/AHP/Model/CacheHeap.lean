/-
  AHP.Model.CacheHeap — the object sharing behind the compiled-expression cache (`xpath/expression.py`).

  In `Model/Cache.lean` a compiled form is a *value* `V` and evaluation a pure function `eval : V → T → R`,
  so "a compiled object reused on any tree gives the same result" holds there by construction.  The code
  shares objects:
  * `XPathExpression.__init__` on a miss: `self.orderedOperations = parseXPathStrIntoOperations(text)` (fresh
    operation objects in a fresh list) and `XPathExpressionCache.setCachedExpression(text, self)` — the cache
    stores the *live object* `self`;
  * on a hit: `self.orderedOperations = copy.copy(cached.orderedOperations)` — a new list object holding the
    *same* operation objects;
  * `evaluate` walks `self.orderedOperations` and calls `applyFunction` on every operation object.
  Here: a heap of operation objects (contents `O`) and of expression objects (their `orderedOperations`
  list: addresses of operation objects); the cache and the history hold *addresses* of expression objects;
  evaluation is `evalH : Heap → address → tree → Heap × result`, free to write anything.  What it takes for
  this level to behave like the value level is the hypothesis `EvalReadsOnly` (`Lemmas/CacheHeap.lean`).
  Not executed by the driver (the wire format of C15 has no addresses).
-/
import AHP.Model.Cache
namespace AHP.Cache

structure Heap (O : Type) where
  ops : List O                -- operation objects, by address
  exprs : List (List Nat)     -- XPathExpression objects, by address: the addresses in `orderedOperations`

def Heap.empty {O : Type} : Heap O := ⟨[], []⟩

/-- The compiled form an expression object currently denotes: the contents of its operations. -/
def Heap.deref {O : Type} (h : Heap O) (x : Nat) : List O :=
  (h.exprs.getD x []).filterMap (fun a => h.ops[a]?)

/-- `parseXPathStrIntoOperations`: fresh operation objects. -/
def Heap.allocOps {O : Type} (h : Heap O) (vs : List O) : Heap O × List Nat :=
  (⟨h.ops ++ vs, h.exprs⟩, List.range' h.ops.length vs.length)

/-- A new `XPathExpression` object whose `orderedOperations` is a new list with these addresses. -/
def Heap.allocExpr {O : Type} (h : Heap O) (addrs : List Nat) : Heap O × Nat :=
  (⟨h.ops, h.exprs ++ [addrs]⟩, h.exprs.length)

structure HWorld (K O : Type) where
  heap : Heap O
  cache : State K Nat       -- key ↦ address of the cached live expression object
  slots : List Nat          -- the expression objects the history holds

def HWorld.empty {K O : Type} : HWorld K O := ⟨Heap.empty, State.empty, []⟩

section
variable {E K O T R : Type} [DecidableEq K]

/-- `XPathExpression(text)` on the heap. -/
def hNewExpr (compile : E → Option (List O)) (key : E → K) (MAX CLEAR : Nat)
    (h : Heap O) (c : State K Nat) (e : E) : Heap O × State K Nat × Option Nat :=
  match get c (key e) with
  | (c', some x) =>
    -- `copy.copy(cached.orderedOperations)`: a new list object, the same operation objects
    ((h.allocExpr (h.exprs.getD x [])).1, c', some (h.allocExpr (h.exprs.getD x [])).2)
  | (c', none) =>
    match compile e with
    | none => (h, c', none)
    | some vs =>
      let h1 := (h.allocOps vs).1
      let addrs := (h.allocOps vs).2
      -- the live object goes into the cache
      ((h1.allocExpr addrs).1, set MAX CLEAR c' (key e) (h1.allocExpr addrs).2, some (h1.allocExpr addrs).2)

def hstep (compile : E → Option (List O)) (key : E → K) (evalH : Heap O → Nat → T → Heap O × R)
    (MAX CLEAR : Nat) (w : HWorld K O) : Event E T → HWorld K O × Obs R
  | .new e =>
    match hNewExpr compile key MAX CLEAR w.heap w.cache e with
    | (h, c, some y) => (⟨h, c, w.slots ++ [y]⟩, .compiled)
    | (h, c, none) => (⟨h, c, w.slots⟩, .compileError)
  | .evalSlot i t =>
    match w.slots[i]? with
    | some x => (⟨(evalH w.heap x t).1, w.cache, w.slots⟩, .result (evalH w.heap x t).2)
    | none => (w, .noSlot)
  | .query e t =>
    match hNewExpr compile key MAX CLEAR w.heap w.cache e with
    | (h, c, some y) => (⟨(evalH h y t).1, c, w.slots⟩, .result (evalH h y t).2)
    | (h, c, none) => (⟨h, c, w.slots⟩, .compileError)

def hrun (compile : E → Option (List O)) (key : E → K) (evalH : Heap O → Nat → T → Heap O × R)
    (MAX CLEAR : Nat) : HWorld K O → List (Event E T) → List (Obs R)
  | _, [] => []
  | w, ev :: evs =>
    (hstep compile key evalH MAX CLEAR w ev).2 ::
      hrun compile key evalH MAX CLEAR (hstep compile key evalH MAX CLEAR w ev).1 evs

end
end AHP.Cache
