/-
  AHP.Model.Observe — C16: every observer of the public read API as a state-passing function on a world of
  documents, performing the writes the code performs.

  The only writes the library's read paths perform on a document are `_handleClassAttr` synchronisations of
  the attribute store (inside `items()/keys()/__iter__/__repr__`, hence inside `getAttributesList/Dict`,
  `getAttribute` (through `get` → `keys()`), `getStartTag`, `outerHTML`, `innerHTML` of every element they reach,
  `isTagEqual` on both operands, `__repr__`, cloning, pickling, searches that read attributes, XPath attribute
  tests, `getHTML` and the formatters that start from it).  An observer is therefore described by its
  *footprint* — which elements get synchronised — and, for the serialisers and attribute readers, by its result.
  Pickling a parser additionally runs `AdvancedHTMLParser.__getstate__` (which, repaired, works on a copy of
  `__dict__`), cloning and unpickling allocate new objects outside every document.
-/
import AHP.Model.Pickle
namespace AHP.Pk
open AHP

/-- what holds a document: a detached element tree or a parser -/
inductive Holder where
  | tree (t : DN)
  | parser (p : Parser)
  deriving Repr, Inhabited

def Holder.root : Holder → Option DN
  | .tree t => some t
  | .parser p => p.root

def Holder.setRoot (h : Holder) (r : DN) : Holder :=
  match h with
  | .tree _ => .tree r
  | .parser p => .parser { p with root := some r }

mutual
/-- synchronise (`_handleClassAttr`) exactly the elements selected by object id -/
def matSel (sel : Nat → Bool) : DN → DN
  | .text s => .text s
  | .el o u n a sc blocks ch t p ow =>
    .el o u n (if sel o then Attrs.handle a else a) sc (matSelL sel blocks) ch t p ow
def matSelL (sel : Nat → Bool) : List DN → List DN
  | [] => []
  | b :: bs => matSel sel b :: matSelL sel bs
end

mutual
/-- the elements `outerHTML` reaches: the element itself and, unless it is self-closing (then `innerHTML`
    returns `''` without looking), the elements its blocks reach -/
def reached : DN → List Nat
  | .text _ => []
  | .el o _ _ _ sc blocks _ _ _ _ => o :: (if sc then [] else reachedL blocks)
def reachedL : List DN → List Nat
  | [] => []
  | b :: bs => reached b ++ reachedL bs
end

mutual
/-- the subtree below (and including) the element with object id `t`, if it is in this tree -/
def findEl (t : Nat) : DN → Option DN
  | .text _ => none
  | .el o u n a sc blocks ch tx p ow => if o = t then some (.el o u n a sc blocks ch tx p ow) else findElL t blocks
def findElL (t : Nat) : List DN → Option DN
  | [] => none
  | b :: bs => match findEl t b with
    | some r => some r
    | none => findElL t bs
end

/-- which elements an observer synchronises -/
inductive Foot where
  | none                      -- nothing (navigation, text, identity, class-list reads, scans by tag name …)
  | one (t : Nat)             -- one element's attribute store (items/keys/getAttribute/getAttributesList/getStartTag/repr …)
  | two (a b : Nat)           -- isTagEqual
  | sub (t : Nat)             -- every element at or below `t` (attribute searches, filter/find, XPath attribute tests)
  | html (t : Nat)            -- what outerHTML of `t` reaches
  | inner (t : Nat)           -- what innerHTML of `t` reaches (not `t` itself)
  | all                       -- every element of the document (searches from the root, pickling)
  | docHtml                   -- what getHTML reaches
  deriving Repr

def footOids (r : DN) : Foot → List Nat
  | .none => []
  | .one t => [t]
  | .two a b => [a, b]
  | .sub t => match findEl t r with
    | some e => DN.oids e
    | none => []
  | .html t => match findEl t r with
    | some e => reached e
    | none => []
  | .inner t => match findEl t r with
    | some (.el _ _ _ _ sc blocks _ _ _ _) => if sc then [] else reachedL blocks
    | _ => []
  | .all => DN.oids r
  | .docHtml => match r with
    | .el _ _ name _ sc blocks _ _ _ _ => if name = invisibleRoot then (if sc then [] else reachedL blocks) else reached r
    | .text _ => []

/-- the result of an observer, where the model computes it -/
inductive Out where
  | unit
  | str (s : Option Str)
  | attrs (l : List (Str × Option Str))
  deriving Repr

inductive Obs where
  | read (f : Foot)           -- an observer whose result is not modelled
  | docHtml                   -- getHTML / toHTML / asHTML
  | outer (t : Nat)           -- outerHTML / str / toHTML of an element
  | inner (t : Nat)           -- innerHTML
  | startTag (t : Nat)        -- getStartTag
  | attrsList (t : Nat)       -- getAttributesList / attributesList
  | pickle                    -- pickle.dumps(+loads) of the holder
  | clone (t : Nat)           -- cloneNode / copy.copy / copy.deepcopy
  deriving Repr

structure World where
  docs : List Holder
  next : Nat                  -- next fresh object id
  nextUid : Nat
  deriving Repr, Inhabited

def matFoot (f : Foot) (h : Holder) : Holder :=
  match h.root with
  | some r => h.setRoot (matSel (fun o => (footOids r f).contains o) r)
  | none => h

def sizeOfHolder (h : Holder) : Nat :=
  match h.root with
  | some r => DN.size r
  | none => 0

/-- One observer on one holder: the holder afterwards, the result, the number of objects allocated
    outside the documents (clones, unpickled copies). -/
def obsHolder (o : Obs) (h : Holder) : Holder × Out × Nat :=
  match o with
  | .read f => (matFoot f h, .unit, 0)
  | .docHtml =>
    (matFoot .docHtml h,
     (match h with
      | .parser p => .str p.html
      | .tree t => .str (some (DN.html t))), 0)
  | .outer t => (matFoot (.html t) h, .str ((h.root.bind (findEl t)).map DN.html), 0)
  | .inner t => (matFoot (.inner t) h, .str ((h.root.bind (findEl t)).map DN.inner), 0)
  | .startTag t =>
    (matFoot (.one t) h,
     .str ((h.root.bind (findEl t)).map (fun e => match e with
        | .el _ _ n a sc _ _ _ _ _ => Attrs.startTag n a sc
        | .text s => s)), 0)
  | .attrsList t =>
    (matFoot (.one t) h,
     (match h.root.bind (findEl t) with
      | some (.el _ _ _ a _ _ _ _ _ _) => .attrs (Attrs.attrsList a)
      | _ => .unit), 0)
  | .pickle =>
    -- every element's __getstate__ reads its attribute list; the parser's __getstate__ copies __dict__;
    -- the unpickled copy (1 parser object + one object per element) lives outside the world's documents
    (match h with
     | .parser p => .parser p.afterGetstate
     | .tree t => .tree (materialise t),
     .unit,
     (match h with | .parser _ => 1 | .tree _ => 0) + sizeOfHolder h)
  | .clone t => (matFoot (.one t) h, .unit, 1)

/-- an observer applied to document `i` of the world -/
def obsStep (i : Nat) (o : Obs) (w : World) : World × Out :=
  match w.docs[i]? with
  | none => (w, .unit)
  | some h =>
    let r := obsHolder o h
    ({ w with docs := w.docs.set i r.1, next := w.next + r.2.2,
              nextUid := w.nextUid + (match o with | .clone _ => 1 | _ => 0) }, r.2.1)

def run (w : World) : List (Nat × Obs) → World
  | [] => w
  | (i, o) :: rest => run (obsStep i o w).1 rest

/-! ### what the public views show -/

inductive BlockRef where
  | t (s : Str)
  | e (o : Nat)
  deriving Repr

structure ElSnap where
  oid : Nat
  uid : Nat
  name : Str
  attrs : List (Str × Option Str)
  sc : Bool
  parent : Option Nat
  owner : Option Nat
  txt : Str
  children : List Nat
  blocks : List BlockRef
  deriving Repr

def blockShape : List DN → List BlockRef
  | [] => []
  | .text s :: bs => .t s :: blockShape bs
  | .el o .. :: bs => .e o :: blockShape bs

mutual
def snapEls : DN → List ElSnap
  | .text _ => []
  | .el o u n a sc blocks ch t p ow =>
    ⟨o, u, n, Attrs.attrsList a, sc, p, ow, t, ch, blockShape blocks⟩ :: snapElsL blocks
def snapElsL : List DN → List ElSnap
  | [] => []
  | b :: bs => snapEls b ++ snapElsL bs
end

structure HSnap where
  html : Option Str
  doctype : Option Str
  hasReset : Bool
  index : Option (List (Str × Nat) × List (Str × List Nat) × List (Str × List Nat) × List (Str × List Nat)
                   × List (Str × List (Str × List Nat)))
  els : List ElSnap
  deriving Repr

def snapHolder : Holder → HSnap
  | .tree t => ⟨some (DN.html t), none, true, none, snapEls t⟩
  | .parser p =>
    ⟨p.html, p.doctype, p.hasReset, p.index.map (fun ix => (ix.idMap, ix.nameMap, ix.classMap, ix.tagMap, ix.attrMaps)),
     match p.root with | some r => snapEls r | none => []⟩

def snapshot (w : World) : List HSnap := w.docs.map snapHolder

/-- `parseStr` calls `self.reset()` first: it finds the parser's own hook only while `reset` is in `__dict__`. -/
def canParseAgain : Holder → Bool
  | .tree _ => true
  | .parser p => p.hasReset

end AHP.Pk
