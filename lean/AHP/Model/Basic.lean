/-
  AHP.Model.Basic — shared, import-free vocabulary of the executable model.

  Strings are `List Char` (`Str`).  Renderings of the Python `str` methods the library uses (`lower`,
  `strip`, `split(' ')`, `startswith` …).  `strip`/`lstrip`/`rstrip` remove Python's full (Unicode) white
  space, `isWs`; `lower` is ASCII-exact (DESIGN §7: non-ASCII letters are generated only where the code
  applies no case mapping).
-/
namespace AHP

abbrev Str := List Char

def str (s : String) : Str := s.toList
def Str.s (s : Str) : String := String.ofList s

/-- Python `str.lower()` restricted to ASCII. -/
def lowerChar (c : Char) : Char :=
  if 'A' ≤ c ∧ c ≤ 'Z' then Char.ofNat (c.toNat + 32) else c

def lower (s : Str) : Str := s.map lowerChar

/-- The ASCII part of Python's white space (`str.isspace()` on code points below 128): the six characters of C's
    `isspace` and the four separators `\x1c`–`\x1f`. -/
def isAsciiWs (c : Char) : Bool :=
  c = ' ' || c = '\t' || c = '\n' || c = '\r' || c = '\x0b' || c = '\x0c'
  || c = '\x1c' || c = '\x1d' || c = '\x1e' || c = '\x1f'

/-- `str.isspace()` of one character (CPython 3.12, Unicode 15: bidirectional class WS/B/S or category Zs): exactly what
    `str.strip()`, `lstrip()`, `rstrip()` and `split()` without an argument treat as white space.  Functions of the library
    that name their blanks explicitly (`strip(' ')`, `split(' ')`, `[ \t]` in a regex, …) do not use this predicate. -/
def isWs (c : Char) : Bool :=
  c = ' ' || c = '\t' || c = '\n' || c = '\r' || c = '\x0b' || c = '\x0c'
  || c = '\x1c' || c = '\x1d' || c = '\x1e' || c = '\x1f'
  || c.toNat = 0x85 || c.toNat = 0xa0 || c.toNat = 0x1680 || (0x2000 ≤ c.toNat && c.toNat ≤ 0x200a)
  || c.toNat = 0x2028 || c.toNat = 0x2029 || c.toNat = 0x202f || c.toNat = 0x205f || c.toNat = 0x3000

def lstrip (s : Str) : Str := s.dropWhile isWs
def rstrip (s : Str) : Str := (s.reverse.dropWhile isWs).reverse
def strip (s : Str) : Str := rstrip (lstrip s)

/-- Python `s.split(sep)` for a one-character separator: keeps empty fields. -/
def splitChar (sep : Char) : Str → List Str
  | [] => [[]]
  | c :: cs =>
    if c = sep then [] :: splitChar sep cs
    else match splitChar sep cs with
      | [] => [[c]]          -- unreachable: the result is never empty
      | w :: ws => (c :: w) :: ws

def joinWith (sep : Str) : List Str → Str
  | [] => []
  | [w] => w
  | w :: ws => w ++ sep ++ joinWith sep ws

def startsWith (p s : Str) : Bool := p.isPrefixOf s

/-! ### S-expressions: the wire format of the driver protocol

  token  := '(' | ')' | '"' enc | bare
  enc    := ( [A-Za-z0-9_.-] | '%' hex+ ';' )*          -- any string, by code point
-/
inductive Sexp where
  | atom (s : String)
  | list (xs : List Sexp)
  deriving Repr, Inhabited, BEq

namespace Sexp

def hexDigit (n : Nat) : Char :=
  if n < 10 then Char.ofNat (48 + n) else Char.ofNat (87 + n)

def plainChar (c : Char) : Bool :=
  ('a' ≤ c && c ≤ 'z') || ('A' ≤ c && c ≤ 'Z') || ('0' ≤ c && c ≤ '9') || c = '_' || c = '.' || c = '-'

def encChar (c : Char) : List Char :=
  if plainChar c then [c] else '%' :: (Nat.toDigits 16 c.toNat ++ [';'])

/-- A string atom on the wire: `"` followed by the encoding. -/
def encStr (s : Str) : String := String.ofList ('"' :: s.flatMap encChar)

def hexVal (c : Char) : Nat :=
  if '0' ≤ c ∧ c ≤ '9' then c.toNat - 48
  else if 'a' ≤ c ∧ c ≤ 'f' then c.toNat - 87
  else if 'A' ≤ c ∧ c ≤ 'F' then c.toNat - 55 else 0

def decGo : Nat → List Char → List Char → List Char
  | 0, _, acc => acc.reverse
  | _, [], acc => acc.reverse
  | fuel+1, '%' :: rest, acc =>
      let hex := rest.takeWhile (· ≠ ';')
      let rest' := (rest.dropWhile (· ≠ ';')).drop 1
      decGo fuel rest' (Char.ofNat (hex.foldl (fun n c => n * 16 + hexVal c) 0) :: acc)
  | fuel+1, c :: rest, acc => decGo fuel rest (c :: acc)

/-- Decode the text after the leading `"`. -/
def decStr (s : String) : Str :=
  let l := s.toList
  match l with
  | '"' :: r => decGo (r.length + 1) r []
  | _ => decGo (l.length + 1) l []

partial def render : Sexp → String
  | atom s => s
  | list xs => "(" ++ " ".intercalate (xs.map render) ++ ")"

def tokenize (s : String) : List String :=
  let flush (cur : List Char) (acc : List String) : List String :=
    if cur.isEmpty then acc else String.ofList cur.reverse :: acc
  let rec go (cs : List Char) (cur : List Char) (acc : List String) : List String :=
    match cs with
    | [] => (flush cur acc).reverse
    | '(' :: r => go r [] ("(" :: flush cur acc)
    | ')' :: r => go r [] (")" :: flush cur acc)
    | ' ' :: r => go r [] (flush cur acc)
    | '\t' :: r => go r [] (flush cur acc)
    | '\n' :: r => go r [] (flush cur acc)
    | '\r' :: r => go r [] (flush cur acc)
    | c :: r => go r (c :: cur) acc
  go s.toList [] []

/-- Parse one expression; returns it and the remaining tokens. -/
partial def parseToks : List String → Option (Sexp × List String)
  | [] => none
  | "(" :: r =>
    let rec items (ts : List String) (acc : List Sexp) : Option (Sexp × List String) :=
      match ts with
      | [] => none
      | ")" :: r' => some (list acc.reverse, r')
      | _ => match parseToks ts with
        | some (x, r') => items r' (x :: acc)
        | none => none
    items r []
  | ")" :: _ => none
  | t :: r => some (atom t, r)

def parse (s : String) : Option Sexp :=
  match parseToks (tokenize s) with
  | some (x, []) => some x
  | _ => none

def strAtom (s : Str) : Sexp := atom (encStr s)
def natAtom (n : Nat) : Sexp := atom (toString n)
def sym (s : String) : Sexp := atom s

def toStr? : Sexp → Option Str
  | atom s => if s.startsWith "\"" then some (decStr s) else none
  | _ => none

def toNat? : Sexp → Option Nat
  | atom s => s.toNat?
  | _ => none

def optStr (o : Option Str) : Sexp :=
  match o with
  | none => sym "none"
  | some s => strAtom s

def toOptStr? : Sexp → Option (Option Str)
  | atom "none" => some none
  | x => (toStr? x).map some

end Sexp
end AHP
