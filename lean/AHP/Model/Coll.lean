/-
  AHP.Model.Coll — `TagCollection` (Tags.py) as the code has it: a Python list of elements plus the
  redundant `uids` set, and the element identity / containment functions it relies on.

  Elements are represented by their uid (a `Nat` allocated in creation order); `==`/`hash` of
  `AdvancedTag` compare and hash the uid only (`__eq__`, `__ne__`, `__hash__`), so `list.remove`,
  `in` and `list.index` on a collection are the `Nat` versions below.
-/
import AHP.Model.Basic
namespace AHP

/-- An element tree as far as identity and containment are concerned: uid and element children. -/
inductive UTree where
  | node (uid : Nat) (kids : List UTree)
  deriving Repr, Inhabited

namespace UTree
def uid : UTree → Nat | node u _ => u
def kids : UTree → List UTree | node _ k => k

mutual
/-- `AdvancedTag.getAllChildNodes`: children and their descendants, pre-order (before de-duplication). -/
def descList : UTree → List Nat
  | node _ ks => descListL ks
def descListL : List UTree → List Nat
  | [] => []
  | t :: ts => (t.uid :: descList t) ++ descListL ts
end

/-- `getAllNodes` of an element before de-duplication: itself, then `getAllChildNodes`. -/
def selfAndDesc (t : UTree) : List Nat := t.uid :: descList t

mutual
/-- `AdvancedTag.containsUid`: self, else scan the children. -/
def containsUid : UTree → Nat → Bool
  | node u ks, x => u == x || containsUidL ks x
def containsUidL : List UTree → Nat → Bool
  | [], _ => false
  | t :: ts, x => containsUid t x || containsUidL ts x
end

mutual
/-- find the subtree with a given uid (first in pre-order) -/
def find? : UTree → Nat → Option UTree
  | node u ks, x => if u == x then some (node u ks) else findL? ks x
def findL? : List UTree → Nat → Option UTree
  | [], _ => none
  | t :: ts, x => match find? t x with
    | some r => some r
    | none => findL? ts x
end
end UTree

/-- A `TagCollection`: the list itself and the `uids` set (kept as a duplicate-free list). -/
structure Coll where
  items : List Nat
  uids  : List Nat
  deriving Repr, Inhabited, DecidableEq

namespace Coll

def empty : Coll := ⟨[], []⟩

/-- `_hasTag`: `tag.uid in self.uids`. -/
def hasTag (c : Coll) (x : Nat) : Bool := c.uids.contains x

/-- `append`: `list.append` + `uids.add`. -/
def append (c : Coll) (x : Nat) : Coll :=
  ⟨c.items ++ [x], if c.uids.contains x then c.uids else c.uids ++ [x]⟩

/-- `__iadd__`: append every operand not yet present (the test is re-evaluated after each append). -/
def iadd (c : Coll) (xs : List Nat) : Coll :=
  xs.foldl (fun c x => if c.hasTag x then c else c.append x) c

/-- `TagCollection(values)`. -/
def ofList (xs : List Nat) : Coll := iadd empty xs

/-- `__add__`: a fresh collection from a copy of the list, then as `__iadd__` on the copy. -/
def add (c : Coll) (xs : List Nat) : Coll := iadd (ofList c.items) xs

/-- `remove`: `list.remove` (ValueError when absent) then `set.remove` (KeyError when absent).
    `none` = the call raises. -/
def remove (c : Coll) (x : Nat) : Option Coll :=
  if c.items.contains x then
    if c.uids.contains x then some ⟨c.items.erase x, c.uids.erase x⟩ else none
  else none

/-- `__isub__`: remove each operand that is present (test against the collection being edited). -/
def isub (c : Coll) : List Nat → Option Coll
  | [] => some c
  | x :: xs => if c.hasTag x then (c.remove x).bind (fun c' => isub c' xs) else isub c xs

/-- `__sub__`: as `__isub__` on a fresh copy. -/
def sub (c : Coll) (xs : List Nat) : Option Coll := isub (ofList c.items) xs

/-- `x in collection` (`list.__contains__` with uid equality). -/
def mem (c : Coll) (x : Nat) : Bool := c.items.contains x

end Coll

/-! ### `AdvancedTag.isTagEqual`: tag name and attributes only -/

/-- `dict.get(key)`: a missing key and a value-less attribute both read as `None` -/
def pyGet (a : List (Str × Option Str)) (k : Str) : Option Str :=
  match a with
  | [] => none
  | (k', v) :: r => if k' = k then v else pyGet r k

/-- `isTagEqual`: names equal, key *sets* equal, and every key of the left reads the same on both sides -/
def isTagEqual (n1 : Str) (a1 : List (Str × Option Str)) (n2 : Str) (a2 : List (Str × Option Str)) : Bool :=
  n1 == n2 &&
  (a1.all (fun p => (a2.map (·.1)).contains p.1) && a2.all (fun p => (a1.map (·.1)).contains p.1)) &&
  a1.all (fun p => pyGet a1 p.1 == pyGet a2 p.1)

/-! ### Element identity: `AdvancedTag.__eq__`, `__ne__`, `__hash__`, `isEqualNode`

  (Moved here from Props/C18.lean after review B, H3.)  The collection model above stores uids: that is justified by the
  three functions below looking at nothing but the uid, so that the Python list primitives a `TagCollection` relies on
  (`in`, `list.index`, `list.remove`: they compare with `==`) are the `Nat` versions on the uids — `pyIn`, `pyIndex`,
  `pyRemove` below are those primitives on lists of elements, C18's `*_by_uid` theorems project them to the uid lists.
  Namespace `Ident` (not `AHP.Elem`: other models have an `Elem` of their own). -/
namespace Ident

/-- Everything `==`, `!=`, `hash` and `isTagEqual` *could* look at: uid, tag name, attributes, and the content
    (uids of the element blocks). -/
structure Elem where
  uid : Nat
  name : Str
  attrs : List (Str × Option Str)
  content : List Nat
  deriving Repr, Inhabited

/-- `__eq__` (= `isEqualNode`): `self.uid == other.uid` (for `other` of the same class). -/
def Elem.eq (a b : Elem) : Bool := a.uid == b.uid
/-- `__ne__`: `self.uid != other.uid`. -/
def Elem.ne (a b : Elem) : Bool := a.uid != b.uid
/-- `__hash__`: `hash(self.uid)`; `h` is Python's `hash` on uid values (a parameter: only that it is a function
    is modelled). -/
def Elem.hash (h : Nat → Nat) (a : Elem) : Nat := h a.uid
/-- `a.isTagEqual(b)` on elements: tag name and attributes only. -/
def Elem.isTagEqual (a b : Elem) : Bool := AHP.isTagEqual a.name a.attrs b.name b.attrs

/-- `x in l` for a Python list of elements (`list.__contains__`: identity or `==`). -/
def pyIn (l : List Elem) (x : Elem) : Bool := l.any (fun y => y.eq x)

/-- `l.index(x)`: position of the first element equal to `x`; `none` = ValueError. -/
def pyIndex : List Elem → Elem → Option Nat
  | [], _ => none
  | y :: ys, x => if y.eq x then some 0 else (pyIndex ys x).map (· + 1)

/-- `l.remove(x)`: the list without the first element equal to `x`; `none` = ValueError. -/
def pyRemove : List Elem → Elem → Option (List Elem)
  | [], _ => none
  | y :: ys, x => if y.eq x then some ys else (pyRemove ys x).map (y :: ·)

end Ident

/-- The universe a collection lives in: a forest of element trees. -/
abbrev Forest := List UTree

namespace Forest
def find? (f : Forest) (x : Nat) : Option UTree := UTree.findL? f x
def selfAndDesc (f : Forest) (x : Nat) : List Nat :=
  match find? f x with
  | some t => t.selfAndDesc
  | none => [x]
def containsUid (f : Forest) (x y : Nat) : Bool :=
  match find? f x with
  | some t => t.containsUid y
  | none => x == y
end Forest

namespace Coll
/-- `TagCollection.getAllNodes`: for each member, the member then its descendants, de-duplicated as
    `__iadd__` does. -/
def getAllNodes (f : Forest) (c : Coll) : Coll :=
  c.items.foldl (fun r x => iadd r (f.selfAndDesc x)) empty

/-- `TagCollection.getAllNodeUids` as a list (a set in Python; compared sorted). -/
def getAllNodeUids (f : Forest) (c : Coll) : List Nat :=
  c.items.flatMap (f.selfAndDesc)

/-- `TagCollection.contains` / `containsUid`. -/
def containsUid (f : Forest) (c : Coll) (y : Nat) : Bool :=
  c.items.any (fun x => f.containsUid x y)

/-- `TagCollection.contains(em)`: `node.contains(em)` for each member, i.e. `node.containsUid(em.uid)`. -/
def contains (f : Forest) (c : Coll) (em : Ident.Elem) : Bool :=
  c.items.any (fun x => f.containsUid x em.uid)
end Coll

/-- `uniqueTags(tagList)`: the loop never fills `alreadyAdded`, so de-duplication is the
    `TagCollection` constructor's. -/
def uniqueTags (xs : List Nat) : Coll := Coll.ofList xs

end AHP
