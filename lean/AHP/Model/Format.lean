/-
  AHP.Model.Format — the four formatters of Formatter.py (`AdvancedHTMLFormatter`, `…MiniFormatter`,
  `…SlimTagFormatter`, `…SlimTagMiniFormatter`, `AdvancedTagSlim`) as the code has them, as a function of
  the *token sequence* the stdlib tokenizer hands to the `handle_*` callbacks, plus the part of
  `Tags.py` they rely on (`AdvancedTag.__init__` attribute intake, `getStartTag`, `getEndTag`,
  `innerHTML`, `outerHTML` with the `_indent` prefix) and the plain parser's handlers (Parser.py) that
  C11 compares with.

  State as written: the open-element stack `_inTag` (frames; a frame keeps the blocks appended so far,
  newest first), `root`, `doctype`, `currentIndentLevel`, `inPreformatted` (Python ints: `Int`).
  The code attaches a child to its parent when it is *opened*; the frames attach it when it is closed
  (or, for still-open elements, in `rootOf`) — the same tree.
-/
import AHP.Model.Basic
import AHP.Gen.Tables
namespace AHP.Fmt
open AHP

/-! ### tables (generated from constants.py on every run) -/
def voidTags : List Str := Gen.voidTags.map String.toList
def preTags : List Str := Gen.preformattedTags.map String.toList
def preserveTags : List Str := Gen.preserveContentsTags.map String.toList
def wrapper : Str := Gen.invisibleRootTag.toList
def binaryAttrs : List Str := Gen.fmtBinaryAttrs.map String.toList
def binaryStringAttrs : List Str := Gen.fmtBinaryStringAttrs.map String.toList

def isVoid (n : Str) : Bool := voidTags.contains n
def isPre (n : Str) : Bool := preTags.contains n
def isPreserve (n : Str) : Bool := preserveTags.contains n

/-! ### Python string helpers -/

/-- `str.isspace()`: what `strip()`, `lstrip()`, `rstrip()` without argument remove. -/
def pyWs (c : Char) : Bool := isWs c

def rdropWhile (p : Char → Bool) (s : Str) : Str := (s.reverse.dropWhile p).reverse

def pyLstrip (s : Str) : Str := s.dropWhile pyWs
def pyRstrip (s : Str) : Str := rdropWhile pyWs s
def pyStrip (s : Str) : Str := pyRstrip (pyLstrip s)

def isCRLF (c : Char) : Bool := c = '\r' || c = '\n'
def tabToSpace (c : Char) : Char := if c = '\t' then ' ' else c

/-- `Formatter.handle_data`, the rewriting of a data piece outside preserved content:
    `data.replace('\t',' ').strip('\r\n')`, then a leading run of white space that starts with a space
    becomes one space, then a trailing run that ends with a space becomes one space. -/
def squeeze (s : Str) : Str :=
  let d := rdropWhile isCRLF ((s.map tabToSpace).dropWhile isCRLF)
  let d := if d.head? = some ' ' then ' ' :: pyLstrip d else d
  if d.getLast? = some ' ' then pyRstrip d ++ [' '] else d

/-- `indent * level` (a negative count gives the empty string). -/
def rep : Nat → Str → Str
  | 0, _ => []
  | n+1, s => s ++ rep n s

/-! ### attribute intake and rendering (`AdvancedTag.__init__`, `SpecialAttributesDict`, `getStartTag`) -/

def dictSet {α} (d : List (Str × α)) (k : Str) (v : α) : List (Str × α) :=
  if d.any (fun p => p.1 = k) then d.map (fun p => if p.1 = k then (k, v) else p) else d ++ [(k, v)]
def dictDel {α} (d : List (Str × α)) (k : Str) : List (Str × α) := d.filter (fun p => p.1 ≠ k)

def isAlpha (c : Char) : Bool := ('a' ≤ c && c ≤ 'z') || ('A' ≤ c && c ≤ 'Z')
def isAlnum (c : Char) : Bool := isAlpha c || ('0' ≤ c && c ≤ '9')

/-- `Tags.isValidAttributeName` (ASCII). -/
def validAttrName (s : Str) : Bool :=
  match s with
  | [] => false
  | c :: _ => (isAlpha c || c = '_') && s.all (fun x => isAlnum x || x = '-' || x = '_')

/-- `WORDS_ONLY_RE.sub(' ', …)`: runs of two or more spaces become one. -/
def collapseSpaces : Bool → Str → Str
  | _, [] => []
  | prev, c :: r =>
    if c = ' ' then (if prev then collapseSpaces true r else ' ' :: collapseSpaces true r)
    else c :: collapseSpaces false r

/-- `className = value`: `stripWordsOnly`, split on single spaces, empty names dropped. -/
def classNames (v : Str) : List Str :=
  (splitChar ' ' (collapseSpaces false (pyStrip v))).filter (fun w => !w.isEmpty)

/-- `StyleAttribute.styleToDict`. -/
def styleToDict (v : Str) : List (Str × Str) :=
  (splitChar ';' (pyStrip v)).foldl (fun d item =>
    if item.contains ':' then
      dictSet d (lower (pyStrip (item.takeWhile (· ≠ ':')))) (pyStrip ((item.dropWhile (· ≠ ':')).drop 1))
    else d) []

/-- `StyleAttribute._asStr`. -/
def styleStr (d : List (Str × Str)) : Str :=
  joinWith (str "; ") (d.map (fun p => p.1 ++ str ": " ++ p.2))

/-- `conversions.convertToBooleanString` on an attribute value (`None` = value-less). -/
def boolString (v : Option Str) : Str :=
  match v with
  | none => str "false"
  | some s => if lower s = str "false" || lower s = str "0" then str "false" else str "true"

/-- What the element keeps of its attributes: the dict (insertion ordered; the `style` key holds the
    style object, rendered from `style`), `_classNames`, the style map. -/
structure AStore where
  dict : List (Str × Option Str) := []
  classes : List Str := []
  style : List (Str × Str) := []
  deriving DecidableEq, Repr, Inhabited

inductive Err where
  | multipleRoot     -- MultipleRootNodeException
  | noRoot           -- ValueError of getHTML when nothing was parsed
  deriving DecidableEq, Repr

/-- One `myAttributes[key] = value` of `AdvancedTag.__init__` (`SpecialAttributesDict.__setitem__`). -/
def AStore.set (a : AStore) (key0 : Str) (value : Option Str) : AStore :=
  let key := lower key0
  if !validAttrName key then a
  else if key = str "style" then
    -- StyleAttribute(value, tag) (a value-less `style` is the empty style), copied once more by
    -- `tag.style = …` through its string form
    let sd := styleToDict (styleStr (styleToDict (value.getD [])))
    -- the style setter keeps the key present exactly while the style is non-empty (fix 77f2c48)
    let d1 := if sd.isEmpty then dictDel a.dict key else dictSet a.dict key (some [])
    { a with dict := d1, style := sd }
  else if key = str "class" then
    -- no value means no class names (fix 9cd4d4b)
    { a with classes := classNames (value.getD []) }
  else if binaryStringAttrs.contains key then
    { a with dict := dictSet a.dict key (some (boolString value)) }
  else { a with dict := dictSet a.dict key value }

def mkStore : List (Str × Option Str) → AStore → AStore
  | [], a => a
  | (k, v) :: r, a => mkStore r (a.set k v)

/-- `_attributes.items()` after `_handleClassAttr`. -/
def AStore.items (a : AStore) : List (Str × Option Str) :=
  let d1 := if a.classes.isEmpty then dictDel a.dict (str "class")
            else dictSet a.dict (str "class") (some (joinWith [' '] a.classes))
  if a.style.isEmpty then dictDel d1 (str "style") else dictSet d1 (str "style") (some (styleStr a.style))

def escapeQuotes (v : Str) : Str := v.flatMap (fun c => if c = '"' then str "&quot;" else [c])

def renderAttr (p : Str × Option Str) : Str :=
  match p.2 with
  | none => p.1
  | some v => if !v.isEmpty || !binaryAttrs.contains p.1 then p.1 ++ str "=\"" ++ escapeQuotes v ++ str "\"" else p.1

def attrString (a : AStore) : Str :=
  let l := a.items.map renderAttr
  if l.isEmpty then [] else ' ' :: joinWith [' '] l

/-! ### the tree and its serialisation -/

/-- The class of the element objects a formatter creates: `AdvancedTag` or `AdvancedTagSlim(slimSelfClosing)`. -/
inductive Kind where
  | normal
  | slim (ssc : Bool)
  deriving DecidableEq, Repr, Inhabited

/-- `verb` is a ghost flag (the code's blocks are plain `str` either way): `true` for the blocks written by
    `handle_entityref/charref/comment`, `false` for `handle_data` blocks.  No function of the model reads it;
    the theorems use it to say which blocks must survive verbatim. -/
inductive Node where
  | text (verb : Bool) (s : Str)
  | elem (kind : Kind) (name : Str) (st : AStore) (sc : Bool) (indent : Str) (kids : List Node)
  deriving Repr, Inhabited

def dropLast (n : Nat) (s : Str) : Str := s.take (s.length - n)
def endsWith (suf s : Str) : Bool := suf.isSuffixOf s

/-- `AdvancedTag.getStartTag`. -/
def startTagNormal (name : Str) (st : AStore) (sc : Bool) (indent : Str) : Str :=
  indent ++ '<' :: name ++ attrString st ++ (if sc then str " />" else str " >")

/-- `AdvancedTagSlim.getStartTag`: string surgery on the normal start tag. -/
def startTag (kind : Kind) (name : Str) (st : AStore) (sc : Bool) (indent : Str) : Str :=
  let ret := startTagNormal name st sc indent
  match kind with
  | .normal => ret
  | .slim ssc =>
    if endsWith (str " >") ret then dropLast 2 ret ++ str ">"
    else if ssc && endsWith (str " />") ret then dropLast 3 ret ++ str "/>"
    else ret

/-- `blocks[-1]` is a string that ends with the indent (`blocks` starts as `['']`). -/
def lastTextEndsWith (ind : Str) (kids : List Node) : Bool :=
  match kids.getLast? with
  | none => endsWith ind []
  | some (.text _ s) => endsWith ind s
  | some (.elem ..) => false

/-- `AdvancedTag.getEndTag`. -/
def endTag (name : Str) (sc : Bool) (indent : Str) (kids : List Node) : Str :=
  if sc then []
  else if !indent.isEmpty && isPre name then str "</" ++ name ++ str ">"
  else if !indent.isEmpty && isPreserve name && lastTextEndsWith indent kids then str "</" ++ name ++ str ">"
  else indent ++ str "</" ++ name ++ str ">"

mutual
/-- `outerHTML` (a text block is itself). -/
def outer : Node → Str
  | .text _ s => s
  | .elem k n st sc ind kids => startTag k n st sc ind ++ (if sc then [] else innerL kids) ++ endTag n sc ind kids
/-- `innerHTML` of a block list. -/
def innerL : List Node → Str
  | [] => []
  | x :: xs => outer x ++ innerL xs
end

/-! ### tokens -/

inductive Tok where
  | start (name : Str) (attrs : List (Str × Option Str))
  | startend (name : Str) (attrs : List (Str × Option Str))
  | end_ (name : Str)
  | data (s : Str)
  | entity (s : Str)
  | charref (s : Str)
  | comment (s : Str)
  | decl (s : Str)
  | unknownDecl (s : Str)
  | pi (s : Str)            -- no handler: ignored by every class here
  deriving Repr, Inhabited

/-! ### builder state shared by the formatter and the plain parser -/

/-- An open element (`_inTag` entry) with the blocks appended so far, newest first. -/
structure Frame where
  kind : Kind
  name : Str
  st : AStore
  indent : Str
  rev : List Node
  deriving Repr, Inhabited

structure St where
  stack : List Frame := []          -- head = `_inTag[-1]`
  closed : Option Node := none      -- the root once it is no longer open
  doctype : Option Str := none
  level : Int := 0                  -- currentIndentLevel
  inPre : Int := 0                  -- inPreformatted
  deriving Repr, Inhabited

def Frame.close (f : Frame) : Node := .elem f.kind f.name f.st false f.indent f.rev.reverse

/-- append a block to the innermost open element; with nothing open the block is the root -/
def attach (n : Node) (fs : List Frame) (closed : Option Node) : List Frame × Option Node :=
  match fs with
  | f :: r => ({ f with rev := n :: f.rev } :: r, closed)
  | [] => ([], some n)

/-- `self.root is None` -/
def St.noRoot (s : St) : Bool := s.stack.isEmpty && s.closed.isNone

/-- close the open elements from the innermost outwards; `n` is the already finished innermost one -/
def zipUp : Node → List Frame → Node
  | n, [] => n
  | n, f :: fs => zipUp (Frame.close { f with rev := n :: f.rev }) fs

/-- the tree `self.root` points to, still-open elements included (with something open the root is not closed) -/
def rootOfStack : List Frame → Option Node → Option Node
  | [], closed => closed
  | f :: fs, _ => some (zipUp f.close fs)

def St.root (s : St) : Option Node := rootOfStack s.stack s.closed

def truthy (d : Option Str) : Bool := match d with | some s => !s.isEmpty | none => false

/-- the doctype line of `getHTML` (`if self.doctype:` — an empty declaration prints nothing) -/
def doctypeLine (doctype : Option Str) : Str :=
  match doctype with
  | some d => if d.isEmpty then [] else str "<!" ++ d ++ str ">\n"
  | none => []

/-- `getHTML` of parser and formatter. -/
def docHTML (doctype : Option Str) (root : Option Node) : Except Err Str :=
  match root with
  | none => .error .noRoot
  | some r =>
    let dt := doctypeLine doctype
    match r with
    | .elem _ n _ sc _ kids => if n = wrapper then .ok (dt ++ (if sc then [] else innerL kids)) else .ok (dt ++ outer r)
    | .text _ s => .ok (dt ++ s)

/-! ### the formatter -/

structure Cfg where
  kind : Kind        -- which `handle_starttag` the class has (normal / slim with `self.slimSelfClosing`)
  indent : Str       -- `self.indent` after `__init__`
  mini : Bool        -- `_getIndent` overridden to return ''
  deriving Repr, Inhabited

/-- `_getIndent` -/
def getIndent (cfg : Cfg) (level : Int) : Str :=
  if cfg.mini then [] else '\n' :: rep level.toNat cfg.indent

/-- `AdvancedHTMLFormatter.handle_starttag` (normal element class). -/
def handleStart (cfg : Cfg) (s : St) (name0 : Str) (attrs : List (Str × Option Str)) (sc0 : Bool) : Except Err St :=
  let name := lower name0
  let sc := sc0 || isVoid name
  let st := mkStore attrs {}
  if !s.noRoot && s.stack.isEmpty then .error .multipleRoot
  else
      let indent := if s.inPre = 0 then getIndent cfg s.level else []
      if sc then
        let p := attach (.elem .normal name st true indent []) s.stack s.closed
        .ok { s with stack := p.1, closed := p.2 }
      else
        .ok { s with stack := ⟨.normal, name, st, indent, []⟩ :: s.stack,
                     level := if name ≠ wrapper then s.level + 1 else s.level,
                     inPre := if isPre name then s.inPre + 1 else s.inPre }

/-- `handle_starttag_slim`: the same body written a second time, creating `AdvancedTagSlim`. -/
def handleStartSlim (cfg : Cfg) (ssc : Bool) (s : St) (name0 : Str) (attrs : List (Str × Option Str)) (sc0 : Bool) : Except Err St :=
  let name := lower name0
  let sc := sc0 || isVoid name
  let st := mkStore attrs {}
  if !s.noRoot && s.stack.isEmpty then .error .multipleRoot
  else
      let indent := if s.inPre = 0 then getIndent cfg s.level else []
      if sc then
        let p := attach (.elem (.slim ssc) name st true indent []) s.stack s.closed
        .ok { s with stack := p.1, closed := p.2 }
      else
        .ok { s with stack := ⟨.slim ssc, name, st, indent, []⟩ :: s.stack,
                     level := if name ≠ wrapper then s.level + 1 else s.level,
                     inPre := if isPre name then s.inPre + 1 else s.inPre }

def startHandler (cfg : Cfg) : St → Str → List (Str × Option Str) → Bool → Except Err St :=
  match cfg.kind with
  | .normal => handleStart cfg
  | .slim ssc => handleStartSlim cfg ssc

/-- one turn of `while inTag[-1].tagName != tagName:` — pop an element closed implicitly -/
def popImplicit (s : St) : St :=
  match s.stack with
  | [] => s
  | f :: fs =>
    let p := attach f.close fs s.closed
    { s with stack := p.1, closed := p.2,
             inPre := if isPre f.name then s.inPre - 1 else s.inPre,
             level := s.level - 1 }

def endLoop (name : Str) : Nat → St → St
  | 0, s => s
  | n+1, s =>
    match s.stack with
    | [] => s
    | f :: _ => if f.name ≠ name then endLoop name n (popImplicit s) else s

/-- the final `inTag.pop()` of `handle_endtag` with its bookkeeping (`name` is the tag name of the end tag) -/
def popExplicit (name : Str) (s : St) : St :=
  match s.stack with
  | [] => s
  | f :: fs =>
    let p := attach f.close fs s.closed
    { s with stack := p.1, closed := p.2,
             level := if name ≠ wrapper then s.level - 1 else s.level,
             inPre := if isPre name then s.inPre - 1 else s.inPre }

/-- `handle_endtag` -/
def handleEnd (s : St) (name : Str) : St :=
  if !s.stack.any (fun f => f.name = name) then s
  else popExplicit name (endLoop name s.stack.length s)

def appendText (s : St) (verb : Bool) (t : Str) : St :=
  match s.stack with
  | f :: r => { s with stack := { f with rev := .text verb t :: f.rev } :: r }
  | [] => s

/-- `handle_data` -/
def handleData (s : St) (d : Str) : Except Err St :=
  if d.isEmpty then .ok s
  else match s.stack with
    | f :: _ =>
      let d' := if s.inPre = 0 && !isPreserve f.name then squeeze d else d
      .ok (appendText s false d')
    | [] => if (pyStrip d).isEmpty then .ok s else .error .multipleRoot

/-- `handle_entityref`, `handle_charref`, `handle_comment` -/
def handleVerbatim (s : St) (t : Str) : Except Err St :=
  if s.stack.isEmpty then .error .multipleRoot else .ok (appendText s true t)

def step (cfg : Cfg) (s : St) : Tok → Except Err St
  | .start n a => startHandler cfg s n a false
  | .startend n a => startHandler cfg s n a true
  | .end_ n => .ok (handleEnd s n)
  | .data d => handleData s d
  | .entity e => handleVerbatim s ('&' :: e ++ [';'])
  | .charref c => handleVerbatim s ('&' :: '#' :: c ++ [';'])
  | .comment c => handleVerbatim s (str "<!--" ++ c ++ str "-->")
  | .decl d => .ok { s with doctype := some d }
  | .unknownDecl d => .ok (if truthy s.doctype then s else { s with doctype := some d })
  | .pi _ => .ok s

def run (cfg : Cfg) : List Tok → St → Except Err St
  | [], s => .ok s
  | t :: ts, s => match step cfg s t with
    | .ok s' => run cfg ts s'
    | .error e => .error e

/-! ### the second pass inside the invisible wrapper (`feed`, `utils.addStartTag`, `DOCTYPE_MATCH`) -/

/-- `[\n]*[ \t]*` matches the whole string -/
def doctypeLead (s : Str) : Bool := (s.dropWhile (· = '\n')).all (fun c => c = ' ' || c = '\t')
def isDoctype (d : Str) : Bool := lower (d.take 7) = str "doctype"

/-- token image of `addStartTag(contents, '<xxxblank>') + '</xxxblank>'` -/
def wrapToks (toks : List Tok) : List Tok :=
  let ws := Tok.start wrapper []
  let we := Tok.end_ wrapper
  match toks with
  | .decl d :: rest => if isDoctype d then .decl d :: ws :: rest ++ [we] else ws :: toks ++ [we]
  | .data s :: .decl d :: rest =>
    if doctypeLead s && isDoctype d then .data s :: .decl d :: ws :: rest ++ [we] else ws :: toks ++ [we]
  | _ => ws :: toks ++ [we]

/-- `feed`: first pass; on `MultipleRootNodeException` reset and parse again inside the wrapper. -/
def feed (cfg : Cfg) (toks : List Tok) : Except Err St :=
  match run cfg toks {} with
  | .error .multipleRoot => run cfg (wrapToks toks) {}
  | r => r

/-- formatter `parseStr` + `getHTML` -/
def format (cfg : Cfg) (toks : List Tok) : Except Err Str :=
  match feed cfg toks with
  | .ok s => docHTML s.doctype s.root
  | .error e => .error e

/-! ### the formatter object across calls: `_reset`, `feed` on a used object, `parseStr` (C03)

Additions for C03; nothing above changes. -/

/-- `AdvancedHTMLFormatter._reset`, field by field: `currentIndentLevel = 0; _inTag = []; root = None;
    doctype = None; inPreformatted = 0` (`parsedData` is never read; the tokenizer's own reset is outside the
    model).  `root = None` clears both places the model keeps the root in. -/
def St.reset (s : St) : St := { s with level := 0, stack := [], closed := none, doctype := none, inPre := 0 }

/-- One pass that also says in which state the object is LEFT: the raising handlers raise before they assign
    anything, so after an exception the object is in the state it had before the offending token. -/
def runS (cfg : Cfg) : List Tok → St → St × Option Err
  | [], s => (s, none)
  | t :: ts, s => match step cfg s t with
    | .ok s' => runS cfg ts s'
    | .error e => (s, some e)

/-- `feed` on the object as it is (no reset): the pass; on MultipleRootNodeException `self.reset()` and the
    wrapped text. -/
def feedS (cfg : Cfg) (s : St) (toks : List Tok) : St × Option Err :=
  match runS cfg toks s with
  | (s1, some .multipleRoot) => runS cfg (wrapToks toks) s1.reset
  | r => r

/-- `parseStr` / `parseFile`: `self.reset()`, then `feed`. -/
def parseStrS (cfg : Cfg) (s : St) (toks : List Tok) : St × Option Err := feedS cfg s.reset toks

/-! ### the plain parser's handlers (Parser.py) — the tree C11 compares the formatter's tree with -/
namespace Plain

def handleStart (s : St) (name0 : Str) (attrs : List (Str × Option Str)) (sc0 : Bool) : Except Err St :=
  let name := lower name0
  let sc := sc0 || isVoid name
  let st := mkStore attrs {}
  if !s.noRoot && s.stack.isEmpty then .error .multipleRoot
  else if sc then
    let p := attach (.elem .normal name st true [] []) s.stack s.closed
    .ok { s with stack := p.1, closed := p.2 }
  else .ok { s with stack := ⟨.normal, name, st, [], []⟩ :: s.stack }

def pop (s : St) : St :=
  match s.stack with
  | [] => s
  | f :: fs => let p := attach f.close fs s.closed; { s with stack := p.1, closed := p.2 }

def endLoop (name : Str) : Nat → St → St
  | 0, s => s
  | n+1, s =>
    match s.stack with
    | [] => s
    | f :: _ => if f.name ≠ name then endLoop name n (pop s) else s

def handleEnd (s : St) (name : Str) : St :=
  if !s.stack.any (fun f => f.name = name) then s
  else pop (endLoop name s.stack.length s)

def handleData (s : St) (d : Str) : Except Err St :=
  if d.isEmpty then .ok s
  else match s.stack with
    | _ :: _ => .ok (appendText s false d)
    | [] => if (pyStrip d).isEmpty then .ok s else .error .multipleRoot

def step (s : St) : Tok → Except Err St
  | .start n a => handleStart s n a false
  | .startend n a => handleStart s n a true
  | .end_ n => .ok (handleEnd s n)
  | .data d => handleData s d
  | .entity e => handleVerbatim s ('&' :: e ++ [';'])
  | .charref c => handleVerbatim s ('&' :: '#' :: c ++ [';'])
  | .comment c => handleVerbatim s (str "<!--" ++ c ++ str "-->")
  | .decl d => .ok { s with doctype := some d }
  | .unknownDecl d => .ok (if truthy s.doctype then s else { s with doctype := some d })
  | .pi _ => .ok s

def run : List Tok → St → Except Err St
  | [], s => .ok s
  | t :: ts, s => match step s t with
    | .ok s' => run ts s'
    | .error e => .error e

def feed (toks : List Tok) : Except Err St :=
  match run toks {} with
  | .error .multipleRoot => run (wrapToks toks) {}
  | r => r

/-- `AdvancedHTMLParser.parseStr` + `getHTML` -/
def html (toks : List Tok) : Except Err Str :=
  match feed toks with
  | .ok s => docHTML s.doctype s.root
  | .error e => .error e

end Plain

/-! ### the four classes and their constructor arguments -/

inductive IndentArg where
  | dflt                 -- argument omitted
  | str (s : Str)
  | int (i : Int)
  deriving Repr, Inhabited

/-- `__init__`: an integer means that many spaces -/
def indentOf (dflt : Str) : IndentArg → Str
  | .dflt => dflt
  | .str s => s
  | .int i => List.replicate i.toNat ' '

inductive Class where
  | pretty | mini | slim | slimMini
  deriving DecidableEq, Repr, Inhabited

/-- the configuration an instance of each class ends up with -/
def mkCfg (c : Class) (ind : IndentArg) (ssc : Bool) : Cfg :=
  match c with
  | .pretty => ⟨.normal, indentOf (str "  ") ind, false⟩
  | .mini => ⟨.normal, [], true⟩
  | .slim => ⟨.slim ssc, indentOf (str "    ") ind, false⟩
  | .slimMini => ⟨.slim ssc, [], true⟩

end AHP.Fmt
