/-
  AHP.Model.Dom — the bookkeeping model of the mutable DOM (`Tags.py`, DESIGN §4 M6).

  An element keeps *redundant* state in the library: `blocks` (text and elements, in order), `children`
  (elements only), `text` (cached concatenation of the text blocks), `parentNode`, `ownerDocument`,
  `isSelfClosing`.  Every mutator below updates those fields one by one, as the Python code does.

  Object references become containment: an element block *is* the subtree.  A world is the list of
  all trees that are not contained in another one (document roots and detached elements).  This is
  sound exactly on forest-shaped object graphs — the precondition C04 states ("an element passed to
  an append/insert call is currently detached") plus the invariant that C04 proves; the
  correspondence adapter checks forest shape when it maps the Python object graph into a world.
  Walks that the code does through the `children` references of a child object
  (`getAllChildNodes`, `containsUid`) are walks through the element blocks here.

  Element identity is a `Nat` allocated in creation order; documents (parsers) are `Nat`s as well.
-/
import AHP.Model.Basic
import AHP.Gen.Tables
namespace AHP.Dom

/-- The scalar fields of an `AdvancedTag` (everything except `blocks`). -/
structure Meta where
  id : Nat
  name : Str
  attrs : List (Str × Option Str)
  sc : Bool                   -- isSelfClosing
  children : List Nat         -- `children`, as uids
  text : Str                  -- `text`
  parent : Option Nat         -- `parentNode`
  owner : Option Nat          -- `ownerDocument`
  deriving Repr, Inhabited, DecidableEq

/-- A block: a text node or an element with its blocks. -/
inductive DN where
  | text (s : Str)
  | el (m : Meta) (blocks : List DN)
  deriving Repr, Inhabited

/-- The ids of the element entries of a block list, in order (`tagBlocks`). -/
def elemIds : List DN → List Nat
  | [] => []
  | .text _ :: bs => elemIds bs
  | .el m _ :: bs => m.id :: elemIds bs

/-- `''.join(text blocks)`. -/
def textOf : List DN → Str
  | [] => []
  | .text s :: bs => s ++ textOf bs
  | .el _ _ :: bs => textOf bs

def DN.isEl : DN → Bool
  | .text _ => false
  | .el _ _ => true

/-- uid of an element block (0 for text; only used on elements). -/
def DN.rid : DN → Nat
  | .text _ => 0
  | .el m _ => m.id

def rootId : DN → Option Nat
  | .text _ => none
  | .el m _ => some m.id

mutual
/-- all element ids of a tree, pre-order -/
def ids : DN → List Nat
  | .text _ => []
  | .el m bs => m.id :: idsL bs
def idsL : List DN → List Nat
  | [] => []
  | b :: bs => ids b ++ idsL bs
end

mutual
/-- `x.ownerDocument = o` for the element and everything `getAllChildNodes()` reaches. -/
def reown (o : Option Nat) : DN → DN
  | .text x => .text x
  | .el m bs => .el { m with owner := o } (reownL o bs)
def reownL (o : Option Nat) : List DN → List DN
  | [] => []
  | b :: bs => reown o b :: reownL o bs
end

/-- `child.parentNode = p` -/
def setParent (p : Option Nat) : DN → DN
  | .text x => .text x
  | .el m bs => .el { m with parent := p } bs

mutual
/-- the element with uid `t` (first in pre-order): its fields and blocks -/
def find? (t : Nat) : DN → Option (Meta × List DN)
  | .text _ => none
  | .el m bs => if m.id = t then some (m, bs) else findL? t bs
def findL? (t : Nat) : List DN → Option (Meta × List DN)
  | [] => none
  | b :: bs => match find? t b with
    | some r => some r
    | none => findL? t bs
end

/-- The effect of one call on the element it is invoked on: new fields, new blocks, and the subtrees
    that left the element (they become roots of the world). -/
structure Edit where
  m : Meta
  blocks : List DN
  out : List DN
  deriving Inhabited

mutual
/-- apply a local edit at the element with uid `t`; returns the new tree and the subtrees taken out -/
def upd (t : Nat) (f : Meta → List DN → Edit) : DN → DN × List DN
  | .text s => (.text s, [])
  | .el m bs =>
    if m.id = t then (.el (f m bs).m (f m bs).blocks, (f m bs).out)
    else (.el m (updL t f bs).1, (updL t f bs).2)
def updL (t : Nat) (f : Meta → List DN → Edit) : List DN → List DN × List DN
  | [] => ([], [])
  | b :: bs => ((upd t f b).1 :: (updL t f bs).1, (upd t f b).2 ++ (updL t f bs).2)
end

/-! ### Python string helpers used by `removeText` -/

/-- `p in s` -/
def isInfix (p : Str) : Str → Bool
  | [] => p.isEmpty
  | c :: cs => p.isPrefixOf (c :: cs) || isInfix p cs

def removeAllGo (p : Str) : Nat → Str → Str
  | 0, s => s
  | _, [] => []
  | fuel+1, c :: cs =>
    if p.isPrefixOf (c :: cs) then removeAllGo p fuel ((c :: cs).drop p.length)
    else c :: removeAllGo p fuel cs

/-- `s.replace(p, '')`: all non-overlapping occurrences, left to right (`''` removes nothing). -/
def removeAll (p s : Str) : Str :=
  if p.isEmpty then s else removeAllGo p (s.length + 1) s

/-! ### Values handed to and returned by the calls -/

/-- A block argument: a string, or a reference to an existing element. -/
inductive Blk where
  | txt (s : Str)
  | elm (id : Nat)
  deriving Repr, Inhabited, DecidableEq

/-- Python `==` between a reference argument and an entry of `blocks`
    (`str.__eq__`; `AdvancedTag.__eq__` compares uids; mixed types are unequal). -/
def blockEq : Blk → DN → Bool
  | .txt s, .text x => s == x
  | .elm c, .el m _ => m.id == c
  | _, _ => false

/-- `blocks.index(ref)`; `none` = ValueError -/
def indexOf (r : Blk) : List DN → Option Nat
  | [] => none
  | b :: bs => if blockEq r b then some 0 else (indexOf r bs).map (· + 1)

/-- Python values returned by the calls. `raise k` = the call raised exception `k`. -/
inductive Val where
  | none
  | bool (b : Bool)
  | nat (n : Nat)
  | el (id : Nat)
  | str (s : Str)
  | list (vs : List Val)
  | raise (k : String)
  deriving Repr, Inhabited

def blkVal : Blk → Val
  | .txt s => .str s
  | .elm c => .el c

def dnVal : DN → Val
  | .text s => .str s
  | .el m _ => .el m.id

/-! ### The local effect of each mutator on `(fields, blocks)` of the element it is called on -/

/-- `appendText`: `self.text += text; self.isSelfClosing = False; self.blocks.append(text)` -/
def locAppendText (s : Str) (m : Meta) (bs : List DN) : Edit :=
  ⟨{ m with text := m.text ++ s, sc := false }, bs ++ [.text s], []⟩

/-- the accounting done on an element that is being put under `m`:
    `child.parentNode = self`; `ownerDocument` of the child and of all its descendants. -/
def attach (m : Meta) (c : DN) : DN := reown m.owner (setParent (some m.id) c)

/-- `appendChild(child)` with `child` the detached tree `c`. -/
def locAppendChild (c : DN) (m : Meta) (bs : List DN) : Edit :=
  ⟨{ m with sc := false, children := m.children ++ [c.rid] }, bs ++ [attach m c], []⟩

/-- `blocks.remove(child)`: the first block equal to the element `c` -/
def removeFirstEl (c : Nat) : List DN → Option (DN × List DN)
  | [] => none
  | .text s :: bs => (removeFirstEl c bs).map (fun r => (r.1, .text s :: r.2))
  | .el m k :: bs =>
    if m.id = c then some (.el m k, bs)
    else (removeFirstEl c bs).map (fun r => (r.1, .el m k :: r.2))

/-- `removeChild(child)`: `children.remove`, `blocks.remove`, clear `parentNode`, clear
    `ownerDocument` below.  `none` = nothing was touched (the call returns None).  If the child is
    listed in `children` but is not a block, `children` has already been edited when `blocks.remove`
    raises: the partial effect is kept, as in the code. -/
def locRemoveChild (c : Nat) (m : Meta) (bs : List DN) : Option Edit × Val :=
  if c ∈ m.children then
    match removeFirstEl c bs with
    | some r => (some ⟨{ m with children := m.children.erase c }, r.2, [reown none (setParent none r.1)]⟩, .el c)
    | none => (some ⟨{ m with children := m.children.erase c }, bs, []⟩, .none)
  else (none, .none)

/-- the first text block containing `s`: its old value and the list with every occurrence removed from it -/
def replaceFirstText (s : Str) : List DN → Option (Str × List DN)
  | [] => none
  | .el m k :: bs => (replaceFirstText s bs).map (fun r => (r.1, .el m k :: r.2))
  | .text x :: bs =>
    if isInfix s x then some (x, .text (removeAll s x) :: bs)
    else (replaceFirstText s bs).map (fun r => (r.1, .text x :: r.2))

/-- `removeText(text)`: edit the first matching text block, regenerate `text`; returns the old block or None. -/
def locRemoveText (s : Str) (m : Meta) (bs : List DN) : Edit × Val :=
  match replaceFirstText s bs with
  | some r => (⟨{ m with text := textOf r.2 }, r.2, []⟩, .str r.1)
  | none => (⟨{ m with text := textOf bs }, bs, []⟩, .none)

/-- every text block containing `s`: old values, and the list with the occurrences removed -/
def replaceAllText (s : Str) : List DN → List Str × List DN
  | [] => ([], [])
  | .el m k :: bs => ((replaceAllText s bs).1, .el m k :: (replaceAllText s bs).2)
  | .text x :: bs =>
    if isInfix s x then (x :: (replaceAllText s bs).1, .text (removeAll s x) :: (replaceAllText s bs).2)
    else ((replaceAllText s bs).1, .text x :: (replaceAllText s bs).2)

/-- `removeTextAll(text)` -/
def locRemoveTextAll (s : Str) (m : Meta) (bs : List DN) : Edit × Val :=
  (⟨{ m with text := textOf (replaceAllText s bs).2 }, (replaceAllText s bs).2, []⟩,
   .list ((replaceAllText s bs).1.map .str))

/-- `l[:i] + [x] + l[i:]` -/
def insertAt {α} (i : Nat) (x : α) (l : List α) : List α := l.take i ++ x :: l.drop i

/-- `_linkInsertedBlock` + the list edits of `insertBefore`/`insertAfter`, for a text block put at
    block position `i`: blocks edited, `text` regenerated from the new blocks, self-closing cleared. -/
def locInsertTextAt (i : Nat) (s : Str) (m : Meta) (bs : List DN) : Edit :=
  ⟨{ m with text := textOf (insertAt i (.text s) bs), sc := false }, insertAt i (.text s) bs, []⟩

/-- the same for an element `c` put at block position `i`: its position in `children` is the number
    of element blocks ahead of it; then the accounting of `attach`. -/
def locInsertElAt (i : Nat) (c : DN) (m : Meta) (bs : List DN) : Edit :=
  ⟨{ m with children := insertAt (elemIds (bs.take i)).length c.rid m.children, sc := false },
   insertAt i (attach m c) bs, []⟩

/-! ### Attributes (plain names only; `class`/`style`/boolean routing belongs to the attribute model) -/

def isAlpha (c : Char) : Bool := ('a' ≤ c && c ≤ 'z') || ('A' ≤ c && c ≤ 'Z')
def isAlnum (c : Char) : Bool := isAlpha c || ('0' ≤ c && c ≤ '9')

/-- `isValidAttributeName` (ASCII) -/
def validAttrName : Str → Bool
  | [] => false
  | c :: cs => (isAlpha c || c = '_') && (c :: cs).all (fun ch => isAlnum ch || ch = '-' || ch = '_')

/-- `dict.__setitem__` on an insertion-ordered dict -/
def setAssoc (k : Str) (v : Option Str) : List (Str × Option Str) → List (Str × Option Str)
  | [] => [(k, v)]
  | (k', v') :: r => if k' = k then (k, v) :: r else (k', v') :: setAssoc k v r

/-- `setAttribute(name, value)` for a plain attribute name: KeyError on an invalid name, else the
    lower-cased key is set. -/
def locSetAttribute (k : Str) (v : Str) (m : Meta) (bs : List DN) : Option Edit × Val :=
  if validAttrName k then (some ⟨{ m with attrs := setAssoc (lower k) (some v) m.attrs }, bs, []⟩, .none)
  else (none, .raise "KeyError")

/-! ### Worlds -/

/-- All trees that are not inside another tree, the next fresh element uid and document id. -/
structure World where
  roots : List DN
  next : Nat
  nextDoc : Nat
  deriving Inhabited

def World.find? (w : World) (t : Nat) : Option (Meta × List DN) := findL? t w.roots

/-- apply a local edit at element `t`; subtrees that left it become roots -/
def World.edit (w : World) (t : Nat) (f : Meta → List DN → Edit) : World :=
  { w with roots := (updL t f w.roots).1 ++ (updL t f w.roots).2 }

/-- take the root with uid `c` out of the list of roots -/
def takeRoot (c : Nat) : List DN → Option (DN × List DN)
  | [] => none
  | r :: rs =>
    if rootId r = some c then some (r, rs)
    else (takeRoot c rs).map (fun x => (x.1, r :: x.2))

/-! ### Trees as the parser / the constructor builds them -/

/-- A parsed node without bookkeeping: what the tree builder is given. -/
inductive FN where
  | text (s : Str)
  | el (name : Str) (attrs : List (Str × Option Str)) (sc : Bool) (kids : List FN)
  deriving Repr, Inhabited

def isVoid (name : Str) : Bool := Gen.voidTags.contains name.s

mutual
/-- Build the element tree for a parsed node the way the constructor plus `appendChild`/`appendText`
    do: uids in creation (pre-)order starting at `n`, the leading empty indent block, `children` and
    `text` filled, `parentNode`/`ownerDocument` set, self-closing kept only without content. -/
def mk (par own : Option Nat) : FN → Nat → DN × Nat
  | .text s, n => (.text s, n)
  | .el name attrs sc kids, n =>
    (.el ⟨n, name, attrs, (sc || isVoid name) && kids.isEmpty, elemIds (mkL (some n) own kids (n+1)).1,
          textOf (mkL (some n) own kids (n+1)).1, par, own⟩
         (.text [] :: (mkL (some n) own kids (n+1)).1),
     (mkL (some n) own kids (n+1)).2)
def mkL (par own : Option Nat) : List FN → Nat → List DN × Nat
  | [], n => ([], n)
  | k :: ks, n => ((mk par own k n).1 :: (mkL par own ks (mk par own k n).2).1, (mkL par own ks (mk par own k n).2).2)
end

/-- What the document parser produced for a fragment: one root element, or (second pass, after
    `MultipleRootNodeException`) the contents of the invisible wrapper element. -/
inductive Parsed where
  | single (root : FN)
  | multi (tops : List FN)
  deriving Repr, Inhabited

def wrapperName : Str := Gen.invisibleRootTag.toList

/-- The root element a temporary parser `doc` holds after `parseStr(html)`, uids in creation order
    from `n` on (the wrapper element of the second pass is created first). -/
def Parsed.build (doc n : Nat) : Parsed → DN × Nat
  | .single r => mk none (some doc) r n
  | .multi tops =>
    (.el ⟨n, wrapperName, [], false, elemIds (mkL (some n) (some doc) tops (n+1)).1,
          textOf (mkL (some n) (some doc) tops (n+1)).1, none, some doc⟩
         (.text [] :: (mkL (some n) (some doc) tops (n+1)).1),
     (mkL (some n) (some doc) tops (n+1)).2)

/-- one block of the wrapper after `rootNode.removeChildren(list(rootNode.children))`: every element
    block listed in `children` has been detached (`parentNode`, `ownerDocument` below cleared) -/
def detachTop (ch : List Nat) : DN → DN
  | .text s => .text s
  | .el m k => if m.id ∈ ch then reown none (setParent none (.el m k)) else .el m k

/-- `createBlocksFromHTML`, given the parser's root: the wrapper's blocks (copied before the tags
    are removed from the wrapper), or the single root itself (`rootNode.remove()` is a no-op there). -/
def createBlocks : DN → List DN
  | .text s => [.text s]
  | .el m bs => if m.name = wrapperName then bs.map (detachTop m.children) else [.el m bs]

def toBlk : DN → Blk
  | .text s => .txt s
  | .el m _ => .elm m.id

/-! ### The calls on a world -/

/-- Run a call on element `t`. `loc` gives the local edit (`none` = nothing touched) and the
    returned value. The outer `none` = `t` is not an element of the world. -/
def World.apply (w : World) (t : Nat) (loc : Meta → List DN → Option Edit × Val) : Option (World × Val) :=
  match w.find? t with
  | none => none
  | some (m, bs) =>
    match (loc m bs).1 with
    | none => some (w, (loc m bs).2)
    | some _ => some (w.edit t (fun m bs => ((loc m bs).1).getD ⟨m, bs, []⟩), (loc m bs).2)

def World.appendText (w : World) (t : Nat) (s : Str) : Option (World × Val) :=
  w.apply t (fun m bs => (some (locAppendText s m bs), .none))

/-- `appendChild(child)`; `child` must be a root of the world that does not contain `t`
    (the precondition of C04; anything else is outside the model: outer `none`). -/
def World.appendChild (w : World) (t c : Nat) : Option (World × Val) :=
  match takeRoot c w.roots with
  | none => none
  | some (ct, rest) =>
    World.apply { w with roots := rest } t (fun m bs => (some (locAppendChild ct m bs), .el c))

/-- `appendBlock(block)`: dispatch on the type, return the block -/
def World.appendBlock (w : World) (t : Nat) : Blk → Option (World × Val)
  | .txt s => (w.appendText t s).map (fun r => (r.1, .str s))
  | .elm c => w.appendChild t c

/-- the loop of `appendBlocks` -/
def World.appendBlocksLoop (w : World) (t : Nat) : List Blk → Option World
  | [] => some w
  | b :: bs => match w.appendBlock t b with
    | none => none
    | some r => World.appendBlocksLoop r.1 t bs

def World.appendBlocks (w : World) (t : Nat) (bs : List Blk) : Option (World × Val) :=
  (w.appendBlocksLoop t bs).map (fun w' => (w', .list (bs.map blkVal)))

/-- `appendInnerHTML(html)`, given what the parser builds for `html`: the blocks of
    `createBlocksFromHTML` (new detached elements: they join the world as roots), then `appendBlocks`. -/
def World.appendInnerHTML (w : World) (t : Nat) (p : Parsed) : Option (World × Val) :=
  (World.appendBlocksLoop
      { roots := w.roots ++ (createBlocks (p.build w.nextDoc w.next).1).filter DN.isEl,
        next := (p.build w.nextDoc w.next).2, nextDoc := w.nextDoc + 1 }
      t ((createBlocks (p.build w.nextDoc w.next).1).map toBlk)).map (fun w' => (w', .none))

/-- text inserted before (`after = false`) / after the reference block; `none` = ValueError -/
def locInsertText (after : Bool) (r : Blk) (s : Str) (m : Meta) (bs : List DN) : Option Edit × Val :=
  match indexOf r bs with
  | none => (none, .raise "ValueError")
  | some i => (some (locInsertTextAt (if after then i + 1 else i) s m bs), .str s)

/-- an element inserted before / after the reference block (at the end when the reference is not a
    block: that case is never executed, `World.insert` raises before editing) -/
def locInsertEl (after : Bool) (r : Blk) (c : DN) (m : Meta) (bs : List DN) : Edit :=
  match indexOf r bs with
  | none => locInsertElAt bs.length c m bs
  | some i => locInsertElAt (if after then i + 1 else i) c m bs

/-- `insertBefore(child, ref)` / `insertAfter(child, ref)`: append when `ref` is None; ValueError
    (nothing touched, the child stays where it was) when `ref` is not among the blocks. -/
def World.insert (w : World) (after : Bool) (t : Nat) (b : Blk) (ref : Option Blk) : Option (World × Val) :=
  match ref with
  | none => w.appendBlock t b
  | some r =>
    match b with
    | .txt s => w.apply t (locInsertText after r s)
    | .elm c =>
      match takeRoot c w.roots with
      | none => none
      | some (ct, rest) =>
        match findL? t rest with
        | none => none
        | some (_, bs) =>
          match indexOf r bs with
          | none => some (w, .raise "ValueError")
          | some _ => some (World.edit { w with roots := rest } t (locInsertEl after r ct), .el c)

def World.removeText (w : World) (t : Nat) (s : Str) : Option (World × Val) :=
  w.apply t (fun m bs => (some (locRemoveText s m bs).1, (locRemoveText s m bs).2))

def World.removeTextAll (w : World) (t : Nat) (s : Str) : Option (World × Val) :=
  w.apply t (fun m bs => (some (locRemoveTextAll s m bs).1, (locRemoveTextAll s m bs).2))

def World.removeChild (w : World) (t c : Nat) : Option (World × Val) :=
  w.apply t (locRemoveChild c)

/-- `remove()`: reads the cached `parentNode`; the result of the parent's `removeChild` is ignored -/
def World.remove (w : World) (t : Nat) : Option (World × Val) :=
  match w.find? t with
  | none => none
  | some (m, _) =>
    match m.parent with
    | none => some (w, .bool false)
    | some p => (w.removeChild p t).map (fun r => (r.1, .bool true))

/-- `removeBlock(block)`: `removeChild` for a tag, `removeText` for a string -/
def World.removeBlock (w : World) (t : Nat) : Blk → Option (World × Val)
  | .elm c => w.removeChild t c
  | .txt s => w.removeText t s

/-- the loops of `removeChildren` / `removeBlocks`: results collected in order -/
def World.removeBlocksLoop (w : World) (t : Nat) : List Blk → Option (World × List Val)
  | [] => some (w, [])
  | b :: bs => match w.removeBlock t b with
    | none => none
    | some r => (World.removeBlocksLoop r.1 t bs).map (fun r' => (r'.1, r.2 :: r'.2))

def World.removeBlocks (w : World) (t : Nat) (bs : List Blk) : Option (World × Val) :=
  (w.removeBlocksLoop t bs).map (fun r => (r.1, .list r.2))

def World.removeChildren (w : World) (t : Nat) (cs : List Nat) : Option (World × Val) :=
  w.removeBlocks t (cs.map .elm)

/-- names with special routing in `SpecialAttributesDict` / `getStartTag`: outside this model -/
def specialAttr (k : Str) : Bool :=
  ["class", "style", "spellcheck", "hidden", "checked", "selected", "autoplay", "controls", "loop", "muted",
   "compact", "novalidate", "noresize", "autofocus", "disabled", "formnovalidate", "multiple", "readonly",
   "required", "declare", "reversed", "async", "defer", "nowrap", "default"].contains (lower k).s

def World.setAttribute (w : World) (t : Nat) (k v : Str) : Option (World × Val) :=
  if specialAttr k then none else w.apply t (locSetAttribute k v)

/-- The public mutating calls (C04's op alphabet, plus `setAttribute` for C05's failing calls). -/
inductive Op where
  | appendText (t : Nat) (s : Str)
  | appendChild (t : Nat) (c : Option Nat)        -- `none` = Python None
  | appendBlock (t : Nat) (b : Blk)
  | appendBlocks (t : Nat) (bs : List Blk)
  | appendInnerHTML (t : Nat) (p : Parsed)
  | insertBefore (t : Nat) (b : Blk) (ref : Option Blk)
  | insertAfter (t : Nat) (b : Blk) (ref : Option Blk)
  | removeText (t : Nat) (s : Str)
  | removeTextAll (t : Nat) (s : Str)
  | remove (t : Nat)
  | removeChild (t : Nat) (c : Nat)
  | removeChildren (t : Nat) (cs : List Nat)
  | removeBlock (t : Nat) (b : Blk)
  | removeBlocks (t : Nat) (bs : List Blk)
  | setAttribute (t : Nat) (k v : Str)
  deriving Repr, Inhabited

/-- One call. Outer `none`: the call is outside the model (unknown element, or an element argument
    that is not a detached root / contains the target — C04's precondition). -/
def step (w : World) : Op → Option (World × Val)
  | .appendText t s => w.appendText t s
  | .appendChild t none => (w.find? t).map (fun _ => (w, .raise "KeyError"))
  | .appendChild t (some c) => w.appendChild t c
  | .appendBlock t b => w.appendBlock t b
  | .appendBlocks t bs => w.appendBlocks t bs
  | .appendInnerHTML t p => w.appendInnerHTML t p
  | .insertBefore t b ref => w.insert false t b ref
  | .insertAfter t b ref => w.insert true t b ref
  | .removeText t s => w.removeText t s
  | .removeTextAll t s => w.removeTextAll t s
  | .remove t => w.remove t
  | .removeChild t c => w.removeChild t c
  | .removeChildren t cs => w.removeChildren t cs
  | .removeBlock t b => w.removeBlock t b
  | .removeBlocks t bs => w.removeBlocks t bs
  | .setAttribute t k v => w.setAttribute t k v

/-- a history of calls; stops (`none`) when a call is outside the model -/
def run (w : World) : List Op → Option World
  | [] => some w
  | op :: ops => match step w op with
    | none => none
    | some r => run r.1 ops

/-- The initial world of a case: a seed tree (owned by document 0 when `doc`), then spare detached trees. -/
def initWorld (doc : Bool) (seed : FN) (spares : List FN) : World :=
  { roots := (mk none (if doc then some 0 else none) seed 0).1 ::
             (mkL none none spares (mk none (if doc then some 0 else none) seed 0).2).1,
    next := (mkL none none spares (mk none (if doc then some 0 else none) seed 0).2).2,
    nextDoc := 1 }

end AHP.Dom
