/-
  AHP.Model.Fragment — the fragment constructors of Parser.py (`createElement`, `createElementFromHTML`,
  `createElementsFromHTML`, `createBlocksFromHTML`) on top of the DOM bookkeeping model.

  The document parser is an input here: a `Parsed` value says what the tree builder produced for the
  fragment text (one root element, or — after `MultipleRootNodeException` in the first pass — the
  contents of the invisible wrapper element of the second pass).  `Parsed.build doc n` is the element
  tree the temporary parser `doc` then holds (uids in creation order from `n`).
  `AdvancedTag.appendInnerHTML` is `World.appendInnerHTML` in AHP.Model.Dom.
-/
import AHP.Model.Dom
namespace AHP.Dom

/-- `createElement(tagName)`: `AdvancedTag(tagName.lower())` — detached, no attributes, no content. -/
def createElement (name : Str) (n : Nat) : DN := (mk none none (.el (lower name) [] false []) n).1

/-- `createElementFromHTML(html)`: only the first pass is run (`HTMLParser.feed`); a
    MultipleRootNodeException of the first pass is re-raised; `rootNode.remove()` does nothing on a root,
    so the element keeps the temporary parser as ownerDocument. -/
def createElementFromHTML (doc n : Nat) : Parsed → Except String DN
  | .single r => .ok (mk none (some doc) r n).1
  | .multi _ => .error "MultipleRootNodeException"

/-- the loop of `removeChildren`: the returned list (None where `removeChild` reported None) -/
def locRemoveChildren : List Nat → Meta → List DN → List (Option DN)
  | [], _, _ => []
  | c :: cs, m, bs =>
    match (locRemoveChild c m bs).1 with
    | some e => e.out.head? :: locRemoveChildren cs e.m e.blocks
    | none => none :: locRemoveChildren cs m bs

/-- `createElementsFromHTML(html)`: `[root]`, or — for the invisible wrapper — what
    `rootNode.removeChildren(list(rootNode.children))` returns. -/
def createElementsFromHTML (doc n : Nat) (p : Parsed) : List (Option DN) :=
  match (p.build doc n).1 with
  | .text _ => []
  | .el m bs => if m.name = wrapperName then locRemoveChildren m.children m bs else [some (.el m bs)]

/-- `createBlocksFromHTML(html)` -/
def createBlocksFromHTML (doc n : Nat) (p : Parsed) : List DN := createBlocks (p.build doc n).1

end AHP.Dom
