/-
  AHP.Model.XPathParse — the *text → body elements* step of the XPath engine, as the code has it:

    xpath/parsing.py   parseXPathStrIntoOperations, NEXT_TAG_OPERATION_RE, BRACKETED_SUBSET_RE
    xpath/_body.py     parseBodyStringIntoBodyElements, _parseBodyLevelGroup,
                       _parseFunctionArgsToBodyElements, the `*_RE` expressions in the order of
                       ALL_BODY_ELEMENT_RES (VALUE_GENERATOR_RES + STATIC_VALUES_RES + COMPARISON_RES
                       + OPERATION_RES + BOOLEAN_OPS_RES), BODY_ELEMENT_GROUP_OPEN_RE / _CLOSE_RE,
                       BODY_ELEMENT_GROUP_FUNCTION_NEXT_ARG_RE
    xpath/_axes.py     the alternation TAG_OPERATION_AXES_POSSIBILITIES_REGEX_STR (dict order)

  Output: the *untouched* token structure — `PStep`s with one flat `BE` list per `[…]`.  The library
  folds constants while it tokenizes (`_optimizeStaticValueCalculations` at the end of every level,
  `Concat.createFromMatch`); tokenizing does not depend on the folding, so the library's result is
  `parseExpr` followed by `compileSteps` of AHP.Model.XPath (`none` = the constructor raises, whatever
  the exception class).

  Every regular expression is anchored at the start of the remaining text and is modelled by a
  function that returns what the match consumed; where Python's backtracking matters it is spelled
  out (string literals, the bracket scanner, the axis prefix, `.+ … $`).  ASCII-exact: Python's `\d` and
  `str.lower()` are modelled on ASCII input only (the tie generates ASCII).  White space is exact: the regular
  expressions of xpath/*.py name `[ \t]` (`isSpTab`), the `str.strip()` calls between them (`strip`) remove all of
  `str.isspace()`.

  Fuel: every loop iteration and every nested level consumes at least one character and at most two
  units of fuel; all entry points start with more than twice the length of the text.
-/
import AHP.Model.XPath
namespace AHP.XPath

/-! ### Character classes -/

/-- `[ \t]` -/
def isSpTab (c : Char) : Bool := c = ' ' || c = '\t'
/-- a leading / trailing `[ \t]*` -/
def skipSp (s : Str) : Str := s.dropWhile isSpTab

def isAlpha (c : Char) : Bool := (decide ('a' ≤ c) && decide (c ≤ 'z')) || (decide ('A' ≤ c) && decide (c ≤ 'Z'))
/-- `[\d]` on ASCII -/
def isDigit (c : Char) : Bool := decide ('0' ≤ c) && decide (c ≤ '9')
/-- `[a-zA-Z_]` -/
def isNameStart (c : Char) : Bool := isAlpha c || c = '_'
/-- `[a-zA-Z0-9_]` -/
def isNameChar (c : Char) : Bool := isAlpha c || isDigit c || c = '_'
/-- `[a-zA-Z0-9_\-]` -/
def isAttrChar (c : Char) : Bool := isNameChar c || c = '-'

/-- A word spelled `[wW][oO][rR][dD]` in a regular expression (`[\-]` for a dash): the text must
    start with the (lower-case) word, every letter in either case.  Returns the rest. -/
def wordCI : Str → Str → Option Str
  | [], s => some s
  | _ :: _, [] => none
  | w :: ws, c :: cs => if lowerChar c = w then wordCI ws cs else none

/-- `(?P<restOfBody>.+) … $` at the end of an expression: `.` does not match a line feed and `$`
    also matches just before a final line feed.  The text must be non-empty and free of line feeds
    (apart from a final one, which is left out). -/
def dotPlusEnd (r : Str) : Option Str :=
  let body := if r.getLast? = some '\n' then r.dropLast else r
  if body.isEmpty || body.contains '\n' then none else some body

/-! ### `BRACKETED_SUBSET_RE`

  `^[ \t]*[\[](?P<bracket_inner>((["]([\\]["]|[^"])*["])|([']([\\][']|[^'])*['])|[^\]])*)[\]][ \t]*`

  Python's matcher is a depth-first search that prefers, at every item boundary, a quoted string over
  a single character and more items over fewer; inside a string it prefers `\"` as an escaped pair and
  falls back to "`\` is an ordinary character and the quote closes the string".  A quote is therefore
  *escaped* exactly when the character before it is a backslash.  `scanB` / `scanQ` are that search;
  they return (`bracket_inner`, text after the closing `]`). -/

def consFst (c : Char) : Option (Str × Str) → Option (Str × Str)
  | some (i, t) => some (c :: i, t)
  | none => none

mutual
/-- at an item boundary of the bracket body -/
def scanB : Str → Option (Str × Str)
  | [] => none
  | c :: r =>
    if c = ']' then some ([], r)
    else if c = '"' || c = '\'' then
      match scanQ c false r with          -- a quoted string …
      | some x => some (c :: x.1, x.2)
      | none => consFst c (scanB r)       -- … else the quote is an ordinary character
    else consFst c (scanB r)
/-- inside a string opened by `q`; `bs` = the previous character is a backslash -/
def scanQ (q : Char) : Bool → Str → Option (Str × Str)
  | _, [] => none
  | bs, c :: r =>
    if c = q then
      if bs then
        match scanQ q false r with        -- escaped pair, the string goes on …
        | some x => some (c :: x.1, x.2)
        | none => consFst c (scanB r)     -- … else this quote closes it
      else consFst c (scanB r)
    else consFst c (scanQ q (c = '\\') r)
end

/-- `BRACKETED_SUBSET_RE.match`: (`bracket_inner`, the text after the match). -/
def bracket (s : Str) : Option (Str × Str) :=
  match skipSp s with
  | '[' :: r =>
    match scanB r with
    | some (inner, rest) => some (inner, skipSp rest)
    | none => none
  | _ => none

/-! ### Static values -/

/-- `[q](?P<value>([\\][q]|[^q])*)[q]` after the opening quote: up to the first quote that is not
    preceded by a backslash; when there is none, up to the last one that is. -/
def litQ (q : Char) : Bool → Str → Option (Str × Str)
  | _, [] => none
  | bs, c :: r =>
    if c = q then
      if bs then
        match litQ q false r with
        | some x => some (c :: x.1, x.2)
        | none => some ([], r)
      else some ([], r)
    else consFst c (litQ q (c = '\\') r)

/-- `BEV_SV_STRING_DOUBLE_QUOTE_RE` / `…_SINGLE_QUOTE_RE` (after the leading white space): the value is
    the raw inner text, backslashes included (`BodyElementValue_StaticValue_String` does not unescape). -/
def strTok (q : Char) (t : Str) : Option (Str × Str) :=
  match t with
  | c :: r => if c = q then (match litQ q false r with
                             | some (v, rest) => some (v, skipSp rest)
                             | none => none) else none
  | [] => none

/-- an optional `-` -/
def splitSign : Str → Str × Str
  | [] => ([], [])
  | c :: r => if c = '-' then (['-'], r) else ([], c :: r)

/-- `BEV_SV_NUMBER_RE` value group `([-]){0,1}([\d]*[\.][\d]+)|([\d]+)`: the sign belongs to the first
    alternative only; (`value`, rest). -/
def numTok (t : Str) : Option (Str × Str) :=
  let plain : Option (Str × Str) :=
    if (t.takeWhile isDigit).isEmpty then none else some (t.takeWhile isDigit, skipSp (t.dropWhile isDigit))
  let su := splitSign t
  match su.2.dropWhile isDigit with
  | '.' :: f =>
    if (f.takeWhile isDigit).isEmpty then plain
    else some (su.1 ++ su.2.takeWhile isDigit ++ '.' :: f.takeWhile isDigit, skipSp (f.dropWhile isDigit))
  | _ => plain

/-! ### Value generators without arguments, operators -/

/-- `BEVG_FETCH_ATTRIBUTE_RE`: `[@](?P<attributeName>([*]|[a-zA-Z_][a-zA-Z0-9_\-]*))[ \t]*` -/
def attrTok (t : Str) : Option (Str × Str) :=
  match t with
  | '@' :: r =>
    match r with
    | c :: r' =>
      if c = '*' then some (['*'], skipSp r')
      else if isNameStart c then some (c :: r'.takeWhile isAttrChar, skipSp (r'.dropWhile isAttrChar))
      else none
    | [] => none
  | _ => none

/-- `word[ \t]*[\(][ \t]*[\)][ \t]*` (`text()`, `last()`, `position()`): the rest. -/
def fn0Tok (w : Str) (t : Str) : Option Str :=
  match wordCI w t with
  | some r =>
    match skipSp r with
    | '(' :: r1 =>
      match skipSp r1 with
      | ')' :: r2 => some (skipSp r2)
      | _ => none
    | _ => none
  | none => none

/-- `word[ \t]*[\(][ \t]*(?P<restOfBody>.+))$` (`concat(`, `contains(`, `normalize-space(`): `restOfBody`
    (up to leading white space, which the argument parser strips). -/
def fnOpenTok (w : Str) (t : Str) : Option Str :=
  match wordCI w t with
  | some r =>
    match skipSp r with
    | '(' :: r1 => dotPlusEnd r1
    | _ => none
  | none => none

/-- `VALUE_GENERATOR_RES` entries 1–4 in order. -/
def genTok {N : Type} (t : Str) : Option (BE N × Str) :=
  match attrTok t with
  | some (n, r) => some (.attr n, r)
  | none =>
  match fn0Tok ['t', 'e', 'x', 't'] t with
  | some r => some (.text, r)
  | none =>
  match fn0Tok ['l', 'a', 's', 't'] t with
  | some r => some (.last, r)
  | none =>
  match fn0Tok ['p', 'o', 's', 'i', 't', 'i', 'o', 'n'] t with
  | some r => some (.position, r)
  | none => none

/-- `STATIC_VALUES_RES` in order: `"…"`, `'…'`, number (`float(value)` by `nm.parse`). -/
def staticTok {N : Type} (nm : Num N) (t : Str) : Option (BE N × Str) :=
  match strTok '"' t with
  | some (v, r) => some (.val (.str v), r)
  | none =>
  match strTok '\'' t with
  | some (v, r) => some (.val (.str v), r)
  | none =>
  match numTok t with
  | some (v, r) => (nm.parse v).map (fun x => (.val (.num x), r))
  | none => none

/-- `COMPARISON_RES` in order: `=`, `!=`, `<=`, `<`, `>=`, `>`. -/
def cmpTok (t : Str) : Option (CmpOp × Str) :=
  match t with
  | '=' :: r => some (.eq, skipSp r)
  | '!' :: '=' :: r => some (.ne, skipSp r)
  | '<' :: '=' :: r => some (.le, skipSp r)
  | '<' :: r => some (.lt, skipSp r)
  | '>' :: '=' :: r => some (.ge, skipSp r)
  | '>' :: r => some (.gt, skipSp r)
  | _ => none

/-- the two words of `OPERATION_RES`: `div`, `mod` (no white space needed after them) -/
def arithWords (t : Str) : Option (ArithOp × Str) :=
  match wordCI ['d', 'i', 'v'] t with
  | some r => some (.div, skipSp r)
  | none =>
  match wordCI ['m', 'o', 'd'] t with
  | some r => some (.mod, skipSp r)
  | none => none

/-- `OPERATION_RES` in order: `||`, `+`, `-`, `*`, `div`, `mod`. -/
def arithTok (t : Str) : Option (ArithOp × Str) :=
  match t with
  | '|' :: '|' :: r => some (.concat, skipSp r)
  | '+' :: r => some (.add, skipSp r)
  | '-' :: r => some (.sub, skipSp r)
  | '*' :: r => some (.mul, skipSp r)
  | _ => arithWords t

/-- `[ \t]+` after `and` / `or` -/
def sp1 (r : Str) : Option Str :=
  match r with
  | c :: _ => if isSpTab c then some (skipSp r) else none
  | [] => none

/-- `BOOLEAN_OPS_RES` in order: `and[ \t]+`, `or[ \t]+`. -/
def boolTok (t : Str) : Option (BoolOp × Str) :=
  match (wordCI ['a', 'n', 'd'] t).bind sp1 with
  | some r => some (.and, r)
  | none =>
  match (wordCI ['o', 'r'] t).bind sp1 with
  | some r => some (.or, r)
  | none => none

/-- The rest of `ALL_BODY_ELEMENT_RES` after the value generators. -/
def restTok {N : Type} (nm : Num N) (t : Str) : Option (BE N × Str) :=
  match staticTok nm t with
  | some x => some x
  | none =>
  match cmpTok t with
  | some (o, r) => some (.op (.cmp o), r)
  | none =>
  match arithTok t with
  | some (o, r) => some (.op (.arith o), r)
  | none =>
  match boolTok t with
  | some (o, r) => some (.op (.bool o), r)
  | none => none

/-! ### Levels -/

/-- `BODY_ELEMENT_GROUP_OPEN_RE`: `^([ \t]*[\(](?P<restOfBody>.+)[ \t]*)$` -/
def groupOpen (s : Str) : Option Str :=
  match skipSp s with
  | '(' :: r => dotPlusEnd r
  | _ => none

/-- `BODY_ELEMENT_GROUP_CLOSE_RE`: `^[ \t]*[\)][ \t]*` -/
def groupClose (s : Str) : Option Str :=
  match skipSp s with
  | ')' :: r => some (skipSp r)
  | _ => none

/-- `BODY_ELEMENT_GROUP_FUNCTION_NEXT_ARG_RE`: `^[ \t]*[,][ \t]*` -/
def nextArg (s : Str) : Option Str :=
  match skipSp s with
  | ',' :: r => some (skipSp r)
  | _ => none

/-- The three loops of `_body.py` are textual copies that differ in what they test before the
    common part (group open, then `ALL_BODY_ELEMENT_RES`):
    `top` = `parseBodyStringIntoBodyElements` (nothing), `group` = `_parseBodyLevelGroup` (close),
    `args` = `_parseFunctionArgsToBodyElements` (close, then comma). -/
inductive Mode | top | group | args
  deriving DecidableEq, Repr

/-- The arguments a function call ends up with: the finished groups plus the last one when it is not empty. -/
def finishArgs {N : Type} (cur done : List (BE N)) : List (BE N) :=
  if cur.isEmpty then done else done ++ [.group cur]

/-- `createFromMatch` / `__init__` of the three function classes on the parsed arguments:
    `concat` ≥ 2, `contains` exactly 2, `normalize-space` 0 or 1 (else XPathParseError). -/
def mkConcat {N : Type} (args : List (BE N)) : Option (BE N) :=
  if args.length < 2 then none else some (.concatFn args)
def mkContains {N : Type} : List (BE N) → Option (BE N)
  | [a, b] => some (.containsFn a b)
  | _ => none
def mkNspace {N : Type} : List (BE N) → Option (BE N)
  | [] => some .nspace0
  | [a] => some (.nspace1 a)
  | _ => none

mutual
/-- One round of the common part of the loops at a non-empty text: a parenthesised group, else the
    first of `ALL_BODY_ELEMENT_RES` that matches; (element, remaining text). -/
def item {N : Type} (nm : Num N) : Nat → Str → Option (BE N × Str)
  | 0, _ => none
  | fuel + 1, s =>
    match groupOpen s with
    | some body =>
      match loop nm fuel .group (strip body) [] [] with
      | some (cur, _, rest) => some (.group cur, rest)
      | none => none
    | none =>
    let t := skipSp s
    match genTok t with
    | some x => some x
    | none =>
    match fnOpenTok ['c', 'o', 'n', 'c', 'a', 't'] t with
    | some body =>
      match loop nm fuel .args (strip body) [] [] with
      | some (cur, done, rest) => (mkConcat (finishArgs cur done)).map (·, rest)
      | none => none
    | none =>
    match fnOpenTok ['c', 'o', 'n', 't', 'a', 'i', 'n', 's'] t with
    | some body =>
      match loop nm fuel .args (strip body) [] [] with
      | some (cur, done, rest) => (mkContains (finishArgs cur done)).map (·, rest)
      | none => none
    | none =>
    match fnOpenTok ['n', 'o', 'r', 'm', 'a', 'l', 'i', 'z', 'e', '-', 's', 'p', 'a', 'c', 'e'] t with
    | some body =>
      match loop nm fuel .args (strip body) [] [] with
      | some (cur, done, rest) => (mkNspace (finishArgs cur done)).map (·, rest)
      | none => none
    | none => restTok nm t
/-- `while curString:` of the three loops.  `cur` = the elements of the level (of the current argument),
    `done` = the finished arguments; result (`cur`, `done`, text handed back to the caller). -/
def loop {N : Type} (nm : Num N) : Nat → Mode → Str → List (BE N) → List (BE N) → Option (List (BE N) × List (BE N) × Str)
  | 0, _, _, _, _ => none
  | fuel + 1, mode, s, cur, done =>
    if s.isEmpty then
      (if mode = .top then some (cur, done, []) else none)       -- "Missing close parenthesis"
    else
      match (if mode = .top then none else groupClose s) with
      | some rest => some (cur, done, rest)
      | none =>
      match (if mode = .args then nextArg s else none) with
      | some rest =>
        if cur.isEmpty then none                                   -- "Function call has empty argument"
        else loop nm fuel mode rest [] (done ++ [.group cur])
      | none =>
      match item nm fuel s with
      | some (e, rest) => loop nm fuel mode rest (cur ++ [e]) done
      | none => none                                               -- "Failed to parse body string"
end

/-- `parseBodyStringIntoBodyElements` before its final `_optimizeStaticValueCalculations`. -/
def parseBody {N : Type} (nm : Num N) (s : Str) : Option (List (BE N)) :=
  match loop nm (2 * s.length + 2) .top (strip s) [] [] with
  | some (cur, _, _) => some cur
  | none => none

/-! ### Steps -/

/-- What `(?P<axis>…)` can match: the keys of `TAG_OPERATION_AXES_TO_FIND_TAG_FUNC_GEN` in dict order. -/
inductive AxisTok | parent | ancestor | ancestorOrSelf | descendant | descendantOrSelf | child | self
  deriving DecidableEq, Repr, Inhabited

def AxisTok.word : AxisTok → Str
  | .parent => ['p', 'a', 'r', 'e', 'n', 't']
  | .ancestor => ['a', 'n', 'c', 'e', 's', 't', 'o', 'r']
  | .ancestorOrSelf => ['a', 'n', 'c', 'e', 's', 't', 'o', 'r', '-', 'o', 'r', '-', 's', 'e', 'l', 'f']
  | .descendant => ['d', 'e', 's', 'c', 'e', 'n', 'd', 'a', 'n', 't']
  | .descendantOrSelf => ['d', 'e', 's', 'c', 'e', 'n', 'd', 'a', 'n', 't', '-', 'o', 'r', '-', 's', 'e', 'l', 'f']
  | .child => ['c', 'h', 'i', 'l', 'd']
  | .self => ['s', 'e', 'l', 'f']

def AxisTok.all : List AxisTok :=
  [.parent, .ancestor, .ancestorOrSelf, .descendant, .descendantOrSelf, .child, .self]

/-- The axis of the model; `self` (a function that returns the tag itself, not a list) is outside it. -/
def AxisTok.toAxis : AxisTok → Option Axis
  | .parent => some .parent
  | .ancestor => some .ancestor
  | .ancestorOrSelf => some .ancestorOrSelf
  | .descendant => some .descendant
  | .descendantOrSelf => some .descendantOrSelf
  | .child => some .child
  | .self => none

def AxisTok.ofAxis : Axis → AxisTok
  | .parent => .parent
  | .ancestor => .ancestor
  | .ancestorOrSelf => .ancestorOrSelf
  | .descendant => .descendant
  | .descendantOrSelf => .descendantOrSelf
  | .child => .child

/-- One parsed step: what `parseXPathStrIntoOperations` appends for it (the find-function is
    determined by lead-in, axis, position and name; then one `BodyLevel_Top` per non-empty `[…]`). -/
structure PStep (N : Type) where
  dbl : Bool
  axis : Option AxisTok
  name : Str
  preds : List (List (BE N))

/-- `(?P<tagname>[\*]|([a-zA-Z_][a-zA-Z0-9_]*))`: (tagname, rest) -/
def tagName (u : Str) : Option (Str × Str) :=
  match u with
  | c :: r =>
    if c = '*' then some (['*'], r)
    else if isNameStart c then some (c :: r.takeWhile isNameChar, r.dropWhile isNameChar)
    else none
  | [] => none

/-- `((?P<axis>…)[:][:]){0,1}(?P<tagname>…)` with an axis: the first alternative that is followed by
    `::` and a tag name. -/
def axisName (u : Str) : List AxisTok → Option (AxisTok × Str × Str)
  | [] => none
  | a :: as =>
    match wordCI a.word u with
    | some (':' :: ':' :: r) =>
      match tagName r with
      | some (n, rest) => some (a, n, rest)
      | none => axisName u as
    | _ => axisName u as

/-- `([:][:](?P<suffix>[a-zA-Z][a-zA-Z0-9_]*([\(][ \t]*[\)]){0,1})){0,1}`: is the suffix `node()` in the sense
    of `(suffix.strip().lower()).replace(' ', '') == 'node()'`, and the text after the match. -/
def suffix (r : Str) : Bool × Str :=
  match r with
  | ':' :: ':' :: c :: r1 =>
    if isAlpha c then
      let word := c :: r1.takeWhile isNameChar
      let r2 := r1.dropWhile isNameChar
      match r2 with
      | '(' :: r3 =>
        match skipSp r3 with
        | ')' :: r4 => (lower word = ['n', 'o', 'd', 'e'] && (r3.takeWhile isSpTab).all (· = ' '), r4)
        | _ => (false, r2)
      | _ => (false, r2)
    else (false, r)
  | _ => (false, r)

/-- `^[ \t]*(?P<lead_in>[/]{1,2})`: (is it `//`, rest).  (`[/]{1,2}` never needs to give a slash back: a tag
    name cannot start with one.) -/
def leadIn (s : Str) : Option (Bool × Str) :=
  match skipSp s with
  | '/' :: r =>
    match r with
    | '/' :: r' => some (true, r')
    | _ => some (false, r)
  | _ => none

/-- `(?P<full_tag>…)` up to the tag name: with an axis when one of the alternatives, `::` and a tag name
    follow, else the bare tag name; (axis, tag name, rest). -/
def tagCore (u : Str) : Option (Option AxisTok × Str × Str) :=
  match axisName u AxisTok.all with
  | some (a, n, rest) => some (some a, n, rest)
  | none =>
    match tagName u with
    | some (n, rest) => some (none, n, rest)
    | none => none

/-- `thisTagName` after `.lower()` and the `node()` rule. -/
def finalName (n : Str) (isNode : Bool) : Str :=
  if isNode && lower n = ['c', 'h', 'i', 'l', 'd'] then ['*'] else lower n

/-- `NEXT_TAG_OPERATION_RE.match` and the name handling that follows: (`//`?, axis, tag name, rest). -/
def tagOp (s : Str) : Option (Bool × Option AxisTok × Str × Str) :=
  match leadIn s with
  | none => none
  | some (dbl, r) =>
    match tagCore (skipSp r) with
    | none => none
    | some (ax, n, rest) => some (dbl, ax, finalName n (suffix rest).1, (suffix rest).2)

/-- The bracket handling after a tag operation: while a `[…]` follows and its stripped inner text is not
    empty, one body per bracket; an empty `[]` is consumed and ends the list; (bodies, remaining text). -/
def parsePreds {N : Type} (nm : Num N) : Nat → Str → Option (List (List (BE N)) × Str)
  | 0, _ => none
  | fuel + 1, r =>
    match bracket r with
    | none => some ([], r)
    | some (inner, rest) =>
      if (strip inner).isEmpty then some ([], strip rest)
      else
        match parseBody nm (strip inner), parsePreds nm fuel (strip rest) with
        | some l, some (ls, r') => some (l :: ls, r')
        | _, _ => none

/-- The `while keepGoing` loop on a non-empty `remainingStr`. -/
def parseSteps {N : Type} (nm : Num N) : Nat → Str → Option (List (PStep N))
  | 0, _ => none
  | fuel + 1, s =>
    match tagOp s with
    | none => none                                  -- "Could not parse xpath string"
    | some (dbl, ax, name, r) =>
      match parsePreds nm (r.length + 1) (strip r) with
      | none => none
      | some (ps, r') =>
        let st : PStep N := { dbl := dbl, axis := ax, name := name, preds := ps }
        if r'.isEmpty then some [st]
        else (parseSteps nm fuel r').map (st :: ·)

/-- `parseXPathStrIntoOperations` without the constant folding: `none` = XPathParseError. -/
def parseExpr {N : Type} (nm : Num N) (s : Str) : Option (List (PStep N)) :=
  if (strip s).isEmpty then some [] else parseSteps nm (s.length + 1) (strip s)

/-! ### Into the evaluator's types -/

def PStep.toStep {N : Type} (s : PStep N) : Option (Step N) :=
  match s.axis with
  | none => some { dbl := s.dbl, axis := none, name := s.name, preds := s.preds }
  | some a => (a.toAxis).map (fun ax => { dbl := s.dbl, axis := some ax, name := s.name, preds := s.preds })

def PStep.ofStep {N : Type} (s : Step N) : PStep N :=
  { dbl := s.dbl, axis := s.axis.map AxisTok.ofAxis, name := s.name, preds := s.preds }

/-- All steps within the model's axes (`none` when a `self::` step occurs). -/
def toSteps {N : Type} : List (PStep N) → Option (List (Step N))
  | [] => some []
  | s :: ss =>
    match s.toStep, toSteps ss with
    | some s', some ss' => some (s' :: ss')
    | _, _ => none

/-- `XPathExpression(text)`: tokenize, then fold constants; `none` = the constructor raises. -/
def compileText {N : Type} (nm : Num N) (s : Str) : Option (List (Step N)) :=
  ((parseExpr nm s).bind toSteps).bind (compileSteps nm)

end AHP.XPath
