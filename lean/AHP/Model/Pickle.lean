/-
  AHP.Model.Pickle — the code behind C17 (pickled / cloned documents) and the document state C16 observes.

  * `Attrs`   : `SpecialAttributesDict` as the code has it — the raw insertion-ordered dict, the
                authoritative `_classNames` list and the style map of `tag.style`; `class`/`style` keys are
                materialised *lazily* by `_handleClassAttr` inside `items()/keys()/__iter__/__repr__`.
  * `DN`      : an element with the redundant fields `Tags.py` keeps (`blocks`, `children`, `text`,
                `parentNode`, `ownerDocument`, `isSelfClosing`) plus two identities: `oid` (the Python object,
                allocated in creation order) and `uid` (the uuid, which unpickling *copies*).
  * `getstate` / `load` : `AdvancedTag.__getstate__` / pickle + `__setstate__` (re-construction through
                `__init__` + `appendBlock`).
  * `Parser`  : the fields of `AdvancedHTMLParser` / `IndexedAdvancedHTMLParser` that matter here, with
                `__getstate__`/`__setstate__`.
  * `clone`   : `cloneNode`, `__copy__`, `__deepcopy__`;  `isTagEqual`.
  * edits     : the mutators the correspondence stream applies to one side after unpickling.
-/
import AHP.Model.Basic
import AHP.Gen.Tables
namespace AHP.Pk
open AHP

/-! ### Python dict as an insertion-ordered association list -/

def dget (k : Str) : List (Str × α) → Option α
  | [] => none
  | (k', v) :: r => if k' = k then some v else dget k r

/-- `d[k] = v`: an existing key keeps its position, a new key goes last. -/
def dset (k : Str) (v : α) : List (Str × α) → List (Str × α)
  | [] => [(k, v)]
  | (k', v') :: r => if k' = k then (k, v) :: r else (k', v') :: dset k v r

/-- `del d[k]` (silently nothing when absent — every call site swallows the `KeyError`). -/
def ddel (k : Str) : List (Str × α) → List (Str × α)
  | [] => []
  | (k', v') :: r => if k' = k then r else (k', v') :: ddel k r

def dkeys (d : List (Str × α)) : List Str := d.map Prod.fst
def dhas (k : Str) (d : List (Str × α)) : Bool := (dkeys d).contains k

/-! ### Tables and string helpers -/

def sClass : Str := str "class"
def sStyle : Str := str "style"

/-- `constants.TAG_ITEM_BINARY_ATTRIBUTES` (regenerated from the source on every run). -/
def binaryAttrs : List Str := Gen.binaryAttributes.map str

/-- `constants.TAG_ITEM_BINARY_ATTRIBUTES_STRING_ATTR`. -/
def boolStrAttrs : List Str := Gen.binaryStringAttributes.map str

def voidTags : List Str := Gen.voidTags.map str
def invisibleRoot : Str := str Gen.invisibleRootTag

def isAlpha (c : Char) : Bool := ('a' ≤ c && c ≤ 'z') || ('A' ≤ c && c ≤ 'Z')
def isDigit (c : Char) : Bool := '0' ≤ c && c ≤ '9'
def nameChar (c : Char) : Bool := isAlpha c || isDigit c || c = '-' || c = '_'

/-- `Tags.isValidAttributeName`, ASCII. -/
def validAttrName : Str → Bool
  | [] => false
  | c :: cs => (isAlpha c || c = '_') && (c :: cs).all nameChar

/-- `WORDS_ONLY_RE.sub(' ', s)`: every run of two or more spaces becomes one space. -/
def collapseSp : Str → Str
  | [] => []
  | c :: r =>
    if c = ' ' then
      match r with
      | [] => [c]
      | c2 :: _ => if c2 = ' ' then collapseSp r else c :: collapseSp r
    else c :: collapseSp r

/-- `utils.stripWordsOnly`. -/
def stripWordsOnly (s : Str) : Str := collapseSp (strip s)

/-- `__setattr__('className', v)`: `[x for x in stripWordsOnly(v).split(' ') if x]`. -/
def classTokens (v : Str) : List Str := (splitChar ' ' (stripWordsOnly v)).filter (fun w => !w.isEmpty)

/-- `str(DOMTokenList(_classNames))`. -/
def className (cls : List Str) : Str := joinWith [' '] cls

/-- `utils.escapeQuotes`. -/
def escQ : Str → Str
  | [] => []
  | c :: r => if c = '"' then str "&quot;" ++ escQ r else c :: escQ r

/-- `conversions.convertToBooleanString`. -/
def convBoolStr : Option Str → Str
  | none => str "false"
  | some s => let l := lower s; if l = str "false" || l = str "0" then str "false" else str "true"

/-- split an item of a style string at its first `:` (`item.index(':')`; `none` = `ValueError`). -/
def splitColon : Str → Option (Str × Str)
  | [] => none
  | c :: r => if c = ':' then some ([], r) else
    match splitColon r with
    | none => none
    | some (a, b) => some (c :: a, b)

/-- `StyleAttribute.styleToDict`. -/
def styleToDict (s : Str) : List (Str × Str) :=
  (splitChar ';' (strip s)).foldl
    (fun d item => match splitColon item with
      | none => d
      | some (n, v) => dset (lower (strip n)) (strip v) d) []

/-- `StyleAttribute._asStr`. -/
def styleStr (sty : List (Str × Str)) : Str :=
  joinWith (str "; ") (sty.map (fun p => p.1 ++ str ": " ++ p.2))

/-! ### The attribute store -/

/-- What the raw dict holds under a key: `None`, a string, or the `StyleAttribute` object (every read of
    which resolves to the element's current style). -/
inductive DVal where
  | none
  | str (s : Str)
  | style
  deriving DecidableEq, Repr, Inhabited

def DVal.ofOpt : Option Str → DVal
  | .none => .none
  | .some s => .str s

structure Attrs where
  dict : List (Str × DVal)
  cls  : List Str
  sty  : List (Str × Str)
  deriving DecidableEq, Repr, Inhabited

namespace Attrs

def empty : Attrs := ⟨[], [], []⟩

/-- `StyleAttribute._ensureHtmlAttribute` on the raw dict. -/
def ensureStyle (sty : List (Str × Str)) (d : List (Str × DVal)) : List (Str × DVal) :=
  if sty.isEmpty then ddel sStyle d else dset sStyle .style d

/-- `SpecialAttributesDict._handleClassAttr`: the lazy synchronisation every iterating reader performs. -/
def handle (a : Attrs) : Attrs :=
  let d1 := if a.cls.isEmpty then ddel sClass a.dict else dset sClass (.str (className a.cls)) a.dict
  { a with dict := ensureStyle a.sty d1 }

/-- the value a reader sees for a raw dict entry (`tostr(value)`). -/
def render (a : Attrs) : DVal → Option Str
  | .none => .none
  | .str s => some s
  | .style => some (styleStr a.sty)

/-- `getAttributesList()` (after the `items()` it calls has synchronised). -/
def attrsList (a : Attrs) : List (Str × Option Str) :=
  (handle a).dict.map (fun p => (p.1, render a p.2))

/-- `SpecialAttributesDict.__setitem__` (string / `None` values).  A missing value is the empty style
    (fix 5f68e85) resp. no class names; the `style` branch returns after the setter has kept the key present
    exactly while the style is non-empty (fix 77f2c48).  `none` = the call raises (never, kept for the callers). -/
def setitem (a : Attrs) (key0 : Str) (v : Option Str) : Option Attrs :=
  let key := lower key0
  if key = sStyle then
    let s : Str := match v with | .none => [] | .some s => s
    let sty1 := styleToDict s                  -- StyleAttribute(value, tag): its __init__ ensures
    let d1 := ensureStyle sty1 a.dict
    let sty2 := styleToDict (styleStr sty1)    -- tag.style = …  copies it once more through its string
    let d2 := ensureStyle sty2 d1              --   (the copy's __init__)
    let d3 := ensureStyle sty2 d2              --   self.style._ensureHtmlAttribute()
    some { a with sty := sty2, dict := d3 }
  else if key = sClass then
    some { a with cls := classTokens (match v with | .none => [] | .some s => s) }
  else if boolStrAttrs.contains key then
    some { a with dict := dset key (.str (convBoolStr v)) a.dict }
  else some { a with dict := dset key (DVal.ofOpt v) a.dict }

/-- the attribute loop of `AdvancedTag.__init__`. -/
def initGo (a : Attrs) : List (Str × Option Str) → Option Attrs
  | [] => some a
  | (k, v) :: r =>
    if validAttrName (lower k) then
      match setitem a (lower k) v with
      | .none => .none
      | .some a' => initGo a' r
    else initGo a r

def init (l : List (Str × Option Str)) : Option Attrs := initGo empty l

/-- `SpecialAttributesDict.__delitem__` through `removeAttribute`. -/
def delitem (a : Attrs) (key0 : Str) : Attrs :=
  let key := lower key0
  if key = sStyle then
    -- tag.style = '' : a fresh empty StyleAttribute; both `_ensureHtmlAttribute` calls delete the key
    { a with sty := [], dict := ddel sStyle a.dict }
  else if key = sClass then { a with cls := [] }
  else { a with dict := ddel key a.dict }

/-- `AdvancedTag.addClass` for one token (`stripWordsOnly` applied, no inner space). -/
def addClass (a : Attrs) (tok : Str) : Attrs :=
  if tok.isEmpty || a.cls.contains tok then a else { a with cls := a.cls ++ [tok] }

/-- one `name="value"` / bare-name piece of `getStartTag`. -/
def attrPiece (a : Attrs) (k : Str) : DVal → Str
  | .none => k
  | .str s => if !s.isEmpty || !binaryAttrs.contains k then k ++ str "=\"" ++ escQ s ++ str "\"" else k
  | .style => k ++ str "=\"" ++ escQ (styleStr a.sty) ++ str "\""

def pieces (a : Attrs) : List Str := (handle a).dict.map (fun p => attrPiece a p.1 p.2)

/-- `getStartTag` (`_indent` is empty on every tree the parser or the public constructors build). -/
def startTag (name : Str) (a : Attrs) (sc : Bool) : Str :=
  let ps := pieces a
  let attrString := if ps.isEmpty then [] else ' ' :: joinWith [' '] ps
  str "<" ++ name ++ attrString ++ (if sc then str " />" else str " >")

/-- `_attributes.get(k)` for a plain key (not `class`/`style`): the raw value or `None`. -/
def getPlain (a : Attrs) (k : Str) : Option Str :=
  match dget k a.dict with
  | some (.str s) => some s
  | _ => .none

/-- `tag.getAttribute(k)` as the index functions use it.  Indexes on `class` / `style` (which `getAttribute`
    answers with the class string / the style object) are not modelled: such an element is simply not indexed. -/
def getIdx (a : Attrs) (k : Str) : Option Str :=
  if k = sClass || k = sStyle then .none else getPlain a k

/-- what `self._attributes.get(key)` returns inside `isTagEqual`, as a comparable value:
    `class` → the class string, `style` → the style map, else the rendered raw value. -/
inductive GVal where
  | none
  | str (s : Str)
  | sty (m : List (Str × Str))
  deriving Repr

def getForEq (a : Attrs) (k : Str) : GVal :=
  if k = sClass then .str (className a.cls)
  else if k = sStyle then .sty a.sty
  else match dget k (handle a).dict with
    | some (.str s) => if boolStrAttrs.contains k then .str (convBoolStr (some s)) else .str s
    | some .style => .sty a.sty
    | some .none => if boolStrAttrs.contains k then .str (convBoolStr .none) else .none
    | .none => .none

/-- `StyleAttribute.__eq__`: same key set, same value per key (order-insensitive). -/
def styEq (m1 m2 : List (Str × Str)) : Bool :=
  (dkeys m1).all (fun k => (dkeys m2).contains k) && (dkeys m2).all (fun k => (dkeys m1).contains k)
  && (dkeys m1).all (fun k => dget k m1 == dget k m2)

def GVal.eq : GVal → GVal → Bool
  | .none, .none => true
  | .str a, .str b => a == b
  | .sty a, .sty b => styEq a b
  | _, _ => false

end Attrs

/-! ### Elements with the cached fields the code keeps -/

inductive DN where
  | text (s : Str)
  | el (oid uid : Nat) (name : Str) (attrs : Attrs) (sc : Bool) (blocks : List DN) (children : List Nat)
       (txt : Str) (parent : Option Nat) (owner : Option Nat)
  deriving Repr, Inhabited

namespace DN

def oid : DN → Nat
  | .text _ => 0
  | .el o .. => o

def isEl : DN → Bool
  | .text _ => false
  | .el .. => true

/-- the oids of the element entries of a block list -/
def elemIds : List DN → List Nat
  | [] => []
  | .text _ :: bs => elemIds bs
  | .el o .. :: bs => o :: elemIds bs

/-- concatenation of the text entries of a block list -/
def textOf : List DN → Str
  | [] => []
  | .text s :: bs => s ++ textOf bs
  | .el .. :: bs => textOf bs

mutual
/-- `outerHTML` (a text block renders as itself) -/
def html : DN → Str
  | .text s => s
  | .el _ _ name attrs sc blocks _ _ _ _ =>
    Attrs.startTag name attrs sc ++ (if sc then [] else htmlL blocks) ++ (if sc then [] else str "</" ++ name ++ str ">")
def htmlL : List DN → Str
  | [] => []
  | b :: bs => html b ++ htmlL bs
end

/-- `innerHTML` -/
def inner : DN → Str
  | .text _ => []
  | .el _ _ _ _ sc blocks _ _ _ _ => if sc then [] else htmlL blocks

mutual
/-- number of elements -/
def size : DN → Nat
  | .text _ => 0
  | .el _ _ _ _ _ blocks _ _ _ _ => 1 + sizeL blocks
def sizeL : List DN → Nat
  | [] => 0
  | b :: bs => size b + sizeL bs
end

mutual
/-- all elements in document order (`getAllNodes`) -/
def elems : DN → List DN
  | .text _ => []
  | .el o u n a sc blocks ch t p ow => .el o u n a sc blocks ch t p ow :: elemsL blocks
def elemsL : List DN → List DN
  | [] => []
  | b :: bs => elems b ++ elemsL bs
end

mutual
def oids : DN → List Nat
  | .text _ => []
  | .el o _ _ _ _ blocks _ _ _ _ => o :: oidsL blocks
def oidsL : List DN → List Nat
  | [] => []
  | b :: bs => oids b ++ oidsL bs
end

mutual
def uids : DN → List Nat
  | .text _ => []
  | .el _ u _ _ _ blocks _ _ _ _ => u :: uidsL blocks
def uidsL : List DN → List Nat
  | [] => []
  | b :: bs => uids b ++ uidsL bs
end

/-! #### construction and the two appenders `__setstate__` rebuilds with -/

/-- `AdvancedTag.__init__(tagName, attrList, isSelfClosing, ownerDocument)`; `none` = raises. -/
def mk (oid uid : Nat) (name : Str) (attrList : List (Str × Option Str)) (sc : Bool) (owner : Option Nat) : Option DN :=
  match Attrs.init attrList with
  | .none => .none
  | .some a =>
    -- the void test is made on the name as passed, the stored name is lower-cased
    some (.el oid uid (lower name) a (if !sc && voidTags.contains name then true else sc) [.text []] [] [] .none owner)

/-- `appendText`: `text += t; isSelfClosing = False; blocks.append(t)`. -/
def appendText (s : Str) : DN → DN
  | .text x => .text x
  | .el o u n a _ blocks ch t p ow => .el o u n a false (blocks ++ [.text s]) ch (t ++ s) p ow

mutual
/-- `for subChild in child.getAllChildNodes(): subChild.ownerDocument = …` together with the child's own. -/
def reown (ow : Option Nat) : DN → DN
  | .text x => .text x
  | .el o u n a sc blocks ch t p _ => .el o u n a sc (reownL ow blocks) ch t p ow
def reownL (ow : Option Nat) : List DN → List DN
  | [] => []
  | b :: bs => reown ow b :: reownL ow bs
end

def setParent (p : Option Nat) : DN → DN
  | .text x => .text x
  | .el o u n a sc blocks ch t _ ow => .el o u n a sc blocks ch t p ow

/-- `appendChild`: parent link, owner propagated below, `isSelfClosing = False`, both lists appended. -/
def appendChild (c : DN) : DN → DN
  | .text x => .text x
  | .el o u n a _ blocks ch t p ow =>
    .el o u n a false (blocks ++ [reown ow (setParent (some o) c)]) (ch ++ [c.oid]) t p ow

/-- `appendBlock`: by the block's type. -/
def appendBlock (p : DN) (b : DN) : DN :=
  match b with
  | .text s => appendText s p
  | c => appendChild c p

def setSc (v : Bool) : DN → DN
  | .text x => .text x
  | .el o u n a _ blocks ch t p ow => .el o u n a v blocks ch t p ow

/-- what `__setstate__` assigns directly after `__init__`: uid, owner, `blocks = []`. -/
def setStateFields (uid : Nat) (ow : Option Nat) : DN → DN
  | .text x => .text x
  | .el o _ n a sc _ ch t p _ => .el o uid n a sc [] ch t p ow

end DN

/-! ### Pickling an element tree -/

/-- The pickled form: per element the `__getstate__` dict (`ownerDocument` is a reference that the
    unpickler resolves through its memo), text blocks as themselves. -/
inductive PS where
  | text (s : Str)
  | el (name : Str) (attrs : List (Str × Option Str)) (sc : Bool) (uid : Nat) (owner : Option Nat) (blocks : List PS)
  deriving Repr, Inhabited

mutual
/-- `AdvancedTag.__getstate__`, applied recursively by pickle to the element blocks. -/
def getstate : DN → PS
  | .text s => .text s
  | .el _ u n a sc blocks _ _ _ ow => .el n (Attrs.attrsList a) sc u ow (getstateL blocks)
def getstateL : List DN → List PS
  | [] => []
  | b :: bs => getstate b :: getstateL bs
end

mutual
/-- `getAttributesList()` inside `__getstate__` synchronises `class`/`style` in the *original*. -/
def materialise : DN → DN
  | .text s => .text s
  | .el o u n a sc blocks ch t p ow => .el o u n (Attrs.handle a) sc (materialiseL blocks) ch t p ow
def materialiseL : List DN → List DN
  | [] => []
  | b :: bs => materialise b :: materialiseL bs
end

mutual
/-- Unpickling: the object is created (fresh `oid`), its blocks are unpickled, then `__setstate__` runs
    `__init__`, copies uid and owner, clears `blocks` and re-appends every block through `appendBlock`;
    finally the self-closing flag of the state is restored (the appenders clear it).
    `ρ` resolves an `ownerDocument` reference (pickle memo); `none` = an exception escapes. -/
def load (ρ : Option Nat → Option Nat) : PS → Nat → Option (DN × Nat)
  | .text s, n => some (.text s, n)
  | .el name attrs sc uid owner blocks, n =>
    match loadL ρ blocks (n + 1) with
    | .none => .none
    | .some (kids, n') =>
      match DN.mk n uid name attrs sc .none with
      | .none => .none
      | .some e0 =>
        some (DN.setSc sc (kids.foldl DN.appendBlock (DN.setStateFields uid (ρ owner) e0)), n')
def loadL (ρ : Option Nat → Option Nat) : List PS → Nat → Option (List DN × Nat)
  | [], n => some ([], n)
  | b :: bs, n =>
    match load ρ b n with
    | .none => .none
    | .some (b', n1) =>
      match loadL ρ bs n1 with
      | .none => .none
      | .some (bs', n2) => some (b' :: bs', n2)
end

/-- `pickle.loads(pickle.dumps(t))` for a detached tree. -/
def roundTrip (ρ : Option Nat → Option Nat) (t : DN) (n : Nat) : Option (DN × Nat) := load ρ (getstate t) n

/-! ### cloneNode / copy / deepcopy and tag equality -/

/-- `cloneNode`, `__copy__`, `__deepcopy__`: `self.__class__(self.tagName, self.getAttributesList(), self.isSelfClosing)`. -/
def clone (oid uid : Nat) : DN → Option DN
  | .text _ => .none
  | .el _ _ n a sc _ _ _ _ _ => DN.mk oid uid n (Attrs.attrsList a) sc .none

/-- `isTagEqual`. -/
def isTagEqual : DN → DN → Bool
  | .el _ _ n1 a1 _ _ _ _ _ _, .el _ _ n2 a2 _ _ _ _ _ _ =>
    let k1 := dkeys (Attrs.handle a1).dict
    let k2 := dkeys (Attrs.handle a2).dict
    n1 == n2 && k1.all (fun k => k2.contains k) && k2.all (fun k => k1.contains k)
      && k1.all (fun k => (Attrs.getForEq a1 k).eq (Attrs.getForEq a2 k))
  | _, _ => false

/-- `==` : same type and same uid. -/
def tagEq : DN → DN → Bool
  | .el _ u1 .., .el _ u2 .. => u1 == u2
  | _, _ => false

/-! ### Edits applied to one side (by object) -/

mutual
/-- apply `f` to the element whose object id is `t` -/
def mapAt (t : Nat) (f : DN → DN) : DN → DN
  | .text x => .text x
  | .el o u n a sc blocks ch tx p ow =>
    if o = t then f (.el o u n a sc blocks ch tx p ow)
    else .el o u n a sc (mapAtL t f blocks) ch tx p ow
def mapAtL (t : Nat) (f : DN → DN) : List DN → List DN
  | [] => []
  | b :: bs => mapAt t f b :: mapAtL t f bs
end

def updAttrs (f : Attrs → Attrs) : DN → DN
  | .text x => .text x
  | .el o u n a sc blocks ch t p ow => .el o u n (f a) sc blocks ch t p ow

/-- `setAttribute(k, v)`: `KeyError` on an invalid name (nothing changes), else `_attributes[k] = v`. -/
def setAttribute (k v : Str) (e : DN) : DN :=
  if validAttrName k then
    updAttrs (fun a => match Attrs.setitem a k (some v) with | some a' => a' | .none => a) e
  else e

def removeAttribute (k : Str) : DN → DN := updAttrs (fun a => Attrs.delitem a k)
def addClass (tok : Str) : DN → DN := updAttrs (fun a => Attrs.addClass a tok)

/-- remove the first element block equal (`==`, i.e. same uid) to the child, `list.remove` style -/
def removeFirstUid (u : Nat) : List DN → List DN
  | [] => []
  | .text s :: bs => .text s :: removeFirstUid u bs
  | .el o u' n a sc bl ch t p ow :: bs =>
    if u' = u then bs else .el o u' n a sc bl ch t p ow :: removeFirstUid u bs

def findChild (i : Nat) (blocks : List DN) : Option DN := (blocks.filter DN.isEl)[i]?

def uidOf : DN → Nat
  | .text _ => 0
  | .el _ u .. => u

/-- `removeChild(children[i])` on this element: `children.remove(child)` (object references: the first entry
    equal to the child) and `blocks.remove(child)` (first block `==` the child, i.e. same uid).  The removed
    child is dropped here (it becomes a detached tree with parent and owner cleared). -/
def removeChildAt (i : Nat) : DN → DN
  | .text x => .text x
  | .el o u n a sc blocks ch t p ow =>
    match findChild i blocks with
    | .none => .el o u n a sc blocks ch t p ow
    | some c =>
      .el o u n a sc (removeFirstUid (uidOf c) blocks) (ch.erase c.oid) t p ow

inductive Edit where
  | appendText (s : Str)
  | appendChild (name : Str)
  | setAttribute (k v : Str)
  | removeAttribute (k : Str)
  | addClass (tok : Str)
  | removeChild (i : Nat)
  deriving Repr

/-- one edit at the element `t`; `oid`/`uid` are the fresh identities a created element gets. -/
def applyEdit (t : Nat) (oid uid : Nat) (e : Edit) (d : DN) : DN :=
  match e with
  | .appendText s => mapAt t (DN.appendText s) d
  | .appendChild name =>
    match DN.mk oid uid name [] false .none with
    | some c => mapAt t (DN.appendChild c) d
    | .none => d
  | .setAttribute k v => mapAt t (setAttribute k v) d
  | .removeAttribute k => mapAt t (removeAttribute k) d
  | .addClass tok => mapAt t (addClass tok) d
  | .removeChild i => mapAt t (removeChildAt i) d

/-! ### Parsers -/

structure Index where
  ids : Bool
  names : Bool
  classes : Bool
  tags : Bool
  idMap : List (Str × Nat)
  nameMap : List (Str × List Nat)
  classMap : List (Str × List Nat)
  tagMap : List (Str × List Nat)
  attrMaps : List (Str × List (Str × List Nat))     -- `_otherAttributeIndexes` (addIndexOnAttribute), in insertion order
  deriving Repr, Inhabited

structure Parser where
  oid : Nat
  root : Option DN
  doctype : Option Str
  hasReset : Bool          -- `'reset' in self.__dict__` (the hook `parseStr` calls first)
  index : Option Index     -- `IndexedAdvancedHTMLParser` only
  deriving Repr, Inhabited

def dappend (k : Str) (x : Nat) (m : List (Str × List Nat)) : List (Str × List Nat) :=
  match dget k m with
  | some l => dset k (l ++ [x]) m
  | .none => dset k [x] m

/-- `_indexTag` for one element. -/
def indexOne (ix : Index) : DN → Index
  | .text _ => ix
  | .el o _ n a _ _ _ _ _ _ =>
    let ix1 := if ix.ids then
        (match Attrs.getIdx a (str "id") with
         | some v => if v.isEmpty then ix else { ix with idMap := dset v o ix.idMap }
         | .none => ix) else ix
    let ix2 := if ix1.names then
        (match Attrs.getIdx a (str "name") with
         | some v => if v.isEmpty then ix1 else { ix1 with nameMap := dappend v o ix1.nameMap }
         | .none => ix1) else ix1
    let ix3 := if ix2.classes then { ix2 with classMap := a.cls.foldl (fun m c => dappend c o m) ix2.classMap } else ix2
    let ix4 := if ix3.tags then { ix3 with tagMap := dappend n o ix3.tagMap } else ix3
    -- `_otherIndexFunction` per indexed attribute: `tag.getAttribute(name)` when it is not None
    { ix4 with attrMaps := ix4.attrMaps.map (fun p =>
        match Attrs.getIdx a p.1 with
        | some v => (p.1, dappend v o p.2)
        | .none => p) }

/-- the index after a parse: every element indexed in creation (document) order. -/
def indexDoc (ids names classes tags : Bool) (attrNames : List Str) (root : DN) : Index :=
  (DN.elems root).foldl indexOne ⟨ids, names, classes, tags, [], [], [], [], attrNames.map (fun k => (k, []))⟩

/-- the oid an object reference resolves to after unpickling (pickle memo: old object ↦ new object) -/
def remap (m : List (Nat × Nat)) (r : Nat) : Nat :=
  match m.lookup r with
  | some r' => r'
  | .none => r

def Index.remap (m : List (Nat × Nat)) (ix : Index) : Index :=
  { ix with idMap := ix.idMap.map (fun p => (p.1, Pk.remap m p.2)),
            nameMap := ix.nameMap.map (fun p => (p.1, p.2.map (Pk.remap m))),
            classMap := ix.classMap.map (fun p => (p.1, p.2.map (Pk.remap m))),
            tagMap := ix.tagMap.map (fun p => (p.1, p.2.map (Pk.remap m))),
            attrMaps := ix.attrMaps.map (fun q => (q.1, q.2.map (fun p => (p.1, p.2.map (Pk.remap m))))) }

/-- `AdvancedHTMLParser.__getstate__` as an observer of the original: a copy of `__dict__` without
    `reset`; the live dict keeps its hook. -/
def Parser.afterGetstate (p : Parser) : Parser :=
  { p with root := p.root.map materialise }

/-- `pickle.loads(pickle.dumps(parser))`: a new parser object `n`, the root unpickled with every
    `ownerDocument` reference resolved to the new parser, references remapped, `reset` restored by
    `__setstate__`. -/
def Parser.roundTrip (p : Parser) (n : Nat) : Option (Parser × Nat) :=
  let ρ : Option Nat → Option Nat := fun o => if o = some p.oid then some n else o
  match p.root with
  | .none => some ({ p with oid := n, hasReset := true }, n + 1)
  | some r =>
    match load ρ (getstate r) (n + 1) with
    | .none => .none
    | some (r', n') =>
      let m := (DN.oids r).zip (DN.oids r')
      some ({ oid := n, root := some r', doctype := p.doctype, hasReset := true,
              index := p.index.map (Index.remap m) }, n')

/-- `getHTML()`: doctype line, then the root (its inner HTML when it is the invisible wrapper);
    `none` = `ValueError` (nothing parsed). -/
def Parser.html (p : Parser) : Option Str :=
  match p.root with
  | .none => .none
  | some r =>
    let dt := match p.doctype with
      | some d => if d.isEmpty then [] else str "<!" ++ d ++ str ">\n"
      | .none => []
    match r with
    | .el _ _ name _ _ _ _ _ _ _ => some (dt ++ (if name = invisibleRoot then DN.inner r else DN.html r))
    | .text _ => .none

end AHP.Pk
