/-
  AHP.Model.XPathSpec — the *specification* side of C14: predicate syntax trees with three
  precedence levels and a recursive, precedence-respecting reference evaluator; step semantics as
  relations over `parent`; `flatten`, the flat body-element list the tokenizer is expected to produce
  for a syntax tree.  Import-free so that the driver can run it next to the model.
-/
import AHP.Model.XPath
namespace AHP.XPath

/-- Predicate syntax.  A binary node carries an operator of class 0 (arithmetic / `||`), 1 (comparison)
    or 2 (`and`/`or`); `WF` says that the tree is what a precedence grammar with these three levels and
    left-associative operators produces (anything else needs a `group`). -/
inductive P (N : Type) where
  | lit (v : Val N)
  | attr (name : Str)
  | text
  | last
  | position
  | concat (args : List (P N))
  | contains (a b : P N)
  | nspace0
  | nspace1 (a : P N)
  | group (p : P N)
  | bin (o : Op) (l r : P N)
  deriving Inhabited

mutual
/-- `WF k p`: `p` is an expression of level ≤ `k` (atoms are level 0 without operator). `k = 3`: any. -/
def P.wf {N : Type} : Nat → P N → Bool
  | k, .bin o l r => o.cls < k && P.wf (o.cls + 1) l && P.wf o.cls r
  | _, .concat args => P.wfList args
  | _, .contains a b => P.wf 3 a && P.wf 3 b
  | _, .nspace1 a => P.wf 3 a
  | _, .group p => P.wf 3 p
  | _, _ => true
def P.wfList {N : Type} : List (P N) → Bool
  | [] => true
  | p :: ps => P.wf 3 p && P.wfList ps
end

def Val.isNull {N : Type} : Val N → Bool
  | .null => true
  | _ => false

mutual
/-- no literal is Null (the grammar has number and string literals only) -/
def P.noNull {N : Type} : P N → Bool
  | .lit v => !v.isNull
  | .concat args => P.noNullList args
  | .contains a b => P.noNull a && P.noNull b
  | .nspace1 a => P.noNull a
  | .group p => P.noNull p
  | .bin _ l r => P.noNull l && P.noNull r
  | _ => true
def P.noNullList {N : Type} : List (P N) → Bool
  | [] => true
  | p :: ps => P.noNull p && P.noNullList ps
end

mutual
/-- The flat body-element list of a syntax tree: in-order, groups and arguments nested. -/
def flatten {N : Type} : P N → List (BE N)
  | .lit v => [.val v]
  | .attr n => [.attr n]
  | .text => [.text]
  | .last => [.last]
  | .position => [.position]
  | .concat args => [.concatFn (flattenArgs args)]
  | .contains a b => [.containsFn (.group (flatten a)) (.group (flatten b))]
  | .nspace0 => [.nspace0]
  | .nspace1 a => [.nspace1 (.group (flatten a))]
  | .group p => [.group (flatten p)]
  | .bin o l r => flatten l ++ .op o :: flatten r
def flattenArgs {N : Type} : List (P N) → List (BE N)
  | [] => []
  | p :: ps => .group (flatten p) :: flattenArgs ps
end

mutual
/-- Reference evaluation: operands first, then the operator — nothing else. -/
def evalP {N : Type} (nm : Num N) (c : Ctx) : P N → Option (Val N)
  | .lit v => some v
  | .attr name =>
    if name.contains '*' then none
    else match lookupAttr c.attrs (lower name) with
      | none => some .null
      | some v => some (.str v)
  | .text => some (.str c.text)
  | .last => some (.num (nm.ofNat c.last))
  | .position => some (.num (nm.ofNat c.pos))
  | .concat args => concatVal (evalArgs nm c args)
  | .contains a b => containsVal nm (evalP nm c a) (evalP nm c b)
  | .nspace0 => some (.str (strip c.text))
  | .nspace1 a => nspaceVal (evalP nm c a)
  | .group p => evalP nm c p
  | .bin o l r =>
    match evalP nm c l, evalP nm c r with
    | some x, some y => applyOp nm o x y
    | _, _ => none
def evalArgs {N : Type} (nm : Num N) (c : Ctx) : List (P N) → Option (List (Val N))
  | [] => some []
  | p :: ps =>
    match evalP nm c p, evalArgs nm c ps with
    | some v, some vs => some (v :: vs)
    | _, _ => none
end

/-! ### Steps, as the property words them -/

structure SStep (N : Type) where
  dbl : Bool
  axis : Option Axis
  name : Str
  preds : List (P N)

/-- `j` is a descendant of `i` iff `i` is among the ancestors of `j`; in document order. -/
def specDesc (d : Doc) (i : Nat) : List Nat :=
  (List.range d.length).filter (fun j => (d.anc j).contains i)

def specSelf (d : Doc) (name : Str) (i : Nat) : List Nat := if nameOk d name i then [i] else []

/-- One step applied to one element: axis and name test (a step without explicit axis is `child`, or
    `descendant` after `//`; the *first* step of an expression additionally admits the element itself). -/
def specAxis {N : Type} (d : Doc) (first : Bool) (s : SStep N) (i : Nat) : List Nat :=
  let t := nameOk d s.name
  match s.axis with
  | some .child => (d.children i).filter t
  | some .descendant => (specDesc d i).filter t
  | some .descendantOrSelf => specSelf d s.name i ++ (specDesc d i).filter t
  | some .parent => (d.parent i).toList.filter t
  | some .ancestor => (d.anc i).filter t
  | some .ancestorOrSelf => specSelf d s.name i ++ (d.anc i).filter t
  | none =>
    (if first then specSelf d s.name i else []) ++
      (if s.dbl then (specDesc d i).filter t else (d.children i).filter t)

/-- Is the tag kept by a predicate? (`none` = the evaluation raises) -/
def specKeep {N : Type} (nm : Num N) (d : Doc) (p : P N) (i : Nat) : Option Bool :=
  (evalP nm (d.ctx i) p).bind (keepTag nm d i)

def specFilter {N : Type} (nm : Num N) (d : Doc) (p : P N) : List Nat → Option (List Nat)
  | [] => some []
  | i :: rest =>
    match specKeep nm d p i, specFilter nm d p rest with
    | some b, some r => some (if b then i :: r else r)
    | _, _ => none

def specPreds {N : Type} (nm : Num N) (d : Doc) : List (P N) → List Nat → Option (List Nat)
  | [], cur => some cur
  | p :: ps, cur =>
    match specFilter nm d p cur with
    | none => none
    | some [] => some []
    | some cur' => specPreds nm d ps cur'

def specSteps {N : Type} (nm : Num N) (d : Doc) : Bool → List (SStep N) → List Nat → Option (List Nat)
  | _, [], cur => some cur
  | first, s :: ss, cur =>
    match dedup (cur.flatMap (specAxis d first s)) with
    | [] => some []
    | cur1 =>
      match specPreds nm d s.preds cur1 with
      | none => none
      | some [] => some []
      | some cur2 => specSteps nm d false ss cur2

/-- The denotation of an expression on a start collection. -/
def specEval {N : Type} (nm : Num N) (d : Doc) (steps : List (SStep N)) (start : List Nat) : Option (List Nat) :=
  specSteps nm d true steps (dedup start)

/-- The uncompiled flat form of an expression (what the tokenizers are expected to deliver). -/
def flattenSteps {N : Type} (steps : List (SStep N)) : List (Step N) :=
  steps.map (fun s => { dbl := s.dbl, axis := s.axis, name := s.name, preds := s.preds.map flatten })

/-! ### The value-level clauses of the property, written from its text

  `evalP`, `specKeep` and `specAxis` above share their leaf functions (`applyOp`, `keepTag`, `Doc.ctx`, `nameOk`) with the
  model.  The definitions below do not: each is a direct reading of one clause of the property, in terms of the
  document table and the natural numbers only.  Lemmas/XPathValues.lean relates them to the model's functions. -/

/-- "an absent attribute": the element carries no attribute of that name (names are case-insensitive and kept
    in lower case) -/
def Ctx.lacks (c : Ctx) (name : Str) : Prop := ∀ v, (lower name, v) ∉ c.attrs

def Doc.lacksAttr (d : Doc) (i : Nat) (name : Str) : Prop := ∀ v, (lower name, v) ∉ (d.getD i default).attrs

/-- "both sides are numeric": the value is a number, or a string that reads as one (`float(s)` succeeds — an
    attribute value such as `"10"`), or a truth value (`float(True) == 1.0`); with the number it stands for -/
inductive IsNumeric {N : Type} (nm : Num N) : Val N → N → Prop
  | num (x : N) : IsNumeric nm (.num x) x
  | str (s : Str) (x : N) : nm.parse s = some x → IsNumeric nm (.str s) x
  | bool (b : Bool) : IsNumeric nm (.bool b) (nm.ofNat (if b then 1 else 0))

/-- the relation a comparison operator stands for, on numbers -/
def numRel {N : Type} (nm : Num N) : CmpOp → N → N → Bool
  | .eq, x, y => nm.eq x y
  | .ne, x, y => !nm.eq x y
  | .lt, x, y => nm.lt x y
  | .le, x, y => nm.le x y
  | .gt, x, y => nm.lt y x
  | .ge, x, y => nm.le y x

/-- … and on natural numbers, with the order of the natural numbers -/
def natRel : CmpOp → Nat → Nat → Bool
  | .eq, a, b => decide (a = b)
  | .ne, a, b => decide (a ≠ b)
  | .lt, a, b => decide (a < b)
  | .le, a, b => decide (a ≤ b)
  | .gt, a, b => decide (b < a)
  | .ge, a, b => decide (b ≤ a)

/-- "the n-th among their same-named siblings": the position of element `i`, counted from 1, among the children
    of its parent that carry its tag name — one more than the number of *earlier* rows of the table with the same
    parent and the same name; an element without parent is the first (and only) one. -/
def specPos (d : Doc) (i : Nat) : Nat :=
  match d.parent i with
  | none => 1
  | some p => ((List.range i).filter (fun j => decide (d.parent j = some p) && decide (d.name j = d.name i))).length + 1

/-- the number of children of the parent of `i` with its tag name (`last()`) -/
def specLast (d : Doc) (i : Nat) : Nat :=
  match d.parent i with
  | none => 1
  | some p => ((List.range d.length).filter (fun j => decide (d.parent j = some p) && decide (d.name j = d.name i))).length

/-- element `i` is the `n`-th among its same-named siblings -/
def specNth (d : Doc) (i n : Nat) : Prop := specPos d i = n

instance (d : Doc) (i n : Nat) : Decidable (specNth d i n) := inferInstanceAs (Decidable (specPos d i = n))

end AHP.XPath
