/-
  AHP.Model.XPathRender — the *surface syntax* of XPath expressions (what is written: number literals are
  digit strings, tag names may be in upper case) and a canonical renderer to text; the inverse direction
  of AHP.Model.XPathParse.  Import-free so that the driver can run `parseExpr (renderExpr e)` next to the
  library.

  `S N` is `P N` (AHP.Model.XPathSpec) with literals as written: `num l x` is the numeral `l` together with
  the number it denotes (`S.wf` demands `nm.parse l.text = some x`, i.e. `float(text) = x`).
-/
import AHP.Model.XPathSpec
import AHP.Model.XPathParse
namespace AHP.XPath

/-- `'0'`…`'9'` -/
def digitChar (d : Fin 10) : Char := Char.ofNat (48 + d.val)

/-- A number literal as `BEV_SV_NUMBER_RE` reads it: `digits`, or `[-]digits.digits` (the integer part may
    be empty when a fraction follows; a sign is only read together with a fraction). -/
structure NumLit where
  neg : Bool
  ip : List (Fin 10)
  fp : Option (List (Fin 10))
  deriving Repr, Inhabited

def NumLit.text (l : NumLit) : Str :=
  (if l.neg then ['-'] else []) ++ l.ip.map digitChar ++
    (match l.fp with
     | some f => '.' :: f.map digitChar
     | none => [])

def NumLit.wf (l : NumLit) : Bool :=
  match l.fp with
  | some f => !f.isEmpty
  | none => !l.ip.isEmpty && !l.neg

/-- Surface syntax of a predicate. -/
inductive S (N : Type) where
  | num (l : NumLit) (x : N)
  | str (s : Str)
  | attr (name : Str)
  | text
  | last
  | position
  | concat (args : List (S N))
  | contains (a b : S N)
  | nspace0
  | nspace1 (a : S N)
  | group (p : S N)
  | bin (o : Op) (l r : S N)
  deriving Inhabited

mutual
/-- The abstract syntax tree of a surface tree. -/
def S.toP {N : Type} : S N → P N
  | .num _ x => .lit (.num x)
  | .str s => .lit (.str s)
  | .attr n => .attr n
  | .text => .text
  | .last => .last
  | .position => .position
  | .concat args => .concat (S.toPs args)
  | .contains a b => .contains a.toP b.toP
  | .nspace0 => .nspace0
  | .nspace1 a => .nspace1 a.toP
  | .group p => .group p.toP
  | .bin o l r => .bin o l.toP r.toP
def S.toPs {N : Type} : List (S N) → List (P N)
  | [] => []
  | p :: ps => p.toP :: S.toPs ps
end

/-- The quote a string literal is written with: `"` unless the string contains one. -/
def quoteOf (s : Str) : Char := if s.contains '"' then '\'' else '"'

/-- A string that can be written as a literal at all: it does not contain both kinds of quote, does
    not end in a backslash (the tokenizer would read `\"` as an escaped quote) and has no line feed
    (`.+` of the group / function expressions does not cross one).  The value is taken verbatim: there
    is no unescaping in `BodyElementValue_StaticValue_String`. -/
def strOk (s : Str) : Bool :=
  !s.contains (quoteOf s) && !s.contains '\n' && s.getLast? != some '\\'

/-- `[*]|[a-zA-Z_][a-zA-Z0-9_\-]*` -/
def attrNameOk : Str → Bool
  | [] => false
  | c :: r => (c = '*' && r.isEmpty) || (isNameStart c && r.all isAttrChar)

/-- `[\*]|[a-zA-Z_][a-zA-Z0-9_]*` -/
def tagNameOk : Str → Bool
  | [] => false
  | c :: r => (c = '*' && r.isEmpty) || (isNameStart c && r.all isNameChar)

mutual
/-- What can be written: numerals that denote their number, writable strings, names of the right shape,
    `concat` with at least two arguments.  (Operator precedence is *not* a condition here: the
    tokenizer delivers the in-order list of any tree; `P.wf` matters for evaluation only.) -/
def S.wf {N : Type} (nm : Num N) : S N → Prop
  | .num l x => l.wf = true ∧ nm.parse l.text = some x
  | .str s => strOk s = true
  | .attr n => attrNameOk n = true
  | .concat args => 2 ≤ args.length ∧ S.wfs nm args
  | .contains a b => S.wf nm a ∧ S.wf nm b
  | .nspace1 a => S.wf nm a
  | .group p => S.wf nm p
  | .bin _ l r => S.wf nm l ∧ S.wf nm r
  | _ => True
def S.wfs {N : Type} (nm : Num N) : List (S N) → Prop
  | [] => True
  | p :: ps => S.wf nm p ∧ S.wfs nm ps
end

def opText : Op → Str
  | .arith .concat => ['|', '|']
  | .arith .add => ['+']
  | .arith .sub => ['-']
  | .arith .mul => ['*']
  | .arith .div => ['d', 'i', 'v']
  | .arith .mod => ['m', 'o', 'd']
  | .cmp .eq => ['=']
  | .cmp .ne => ['!', '=']
  | .cmp .lt => ['<']
  | .cmp .le => ['<', '=']
  | .cmp .gt => ['>']
  | .cmp .ge => ['>', '=']
  | .bool .and => ['a', 'n', 'd']
  | .bool .or => ['o', 'r']

mutual
/-- Canonical text of a predicate: one space on either side of a binary operator, `, ` between
    arguments, nothing else. -/
def renderS {N : Type} : S N → Str
  | .num l _ => l.text
  | .str s => quoteOf s :: (s ++ [quoteOf s])
  | .attr n => '@' :: n
  | .text => ['t', 'e', 'x', 't', '(', ')']
  | .last => ['l', 'a', 's', 't', '(', ')']
  | .position => ['p', 'o', 's', 'i', 't', 'i', 'o', 'n', '(', ')']
  | .concat args => ['c', 'o', 'n', 'c', 'a', 't', '('] ++ (renderArgs args ++ [')'])
  | .contains a b => ['c', 'o', 'n', 't', 'a', 'i', 'n', 's', '('] ++ (renderS a ++ (',' :: ' ' :: (renderS b ++ [')'])))
  | .nspace0 => ['n', 'o', 'r', 'm', 'a', 'l', 'i', 'z', 'e', '-', 's', 'p', 'a', 'c', 'e', '(', ')']
  | .nspace1 a => ['n', 'o', 'r', 'm', 'a', 'l', 'i', 'z', 'e', '-', 's', 'p', 'a', 'c', 'e', '('] ++ (renderS a ++ [')'])
  | .group p => '(' :: (renderS p ++ [')'])
  | .bin o l r => renderS l ++ (' ' :: (opText o ++ (' ' :: renderS r)))
/-- arguments separated by `, ` -/
def renderArgs {N : Type} : List (S N) → Str
  | [] => []
  | p :: ps => renderS p ++ (if ps.isEmpty then [] else ',' :: ' ' :: renderArgs ps)
end

/-! ### Steps -/

/-- A step as written (the tag name in any letter case). -/
structure SurfStep (N : Type) where
  dbl : Bool
  axis : Option Axis
  name : Str
  preds : List (S N)

/-- The abstract step: the name test is lower-cased. -/
def SurfStep.toSStep {N : Type} (s : SurfStep N) : SStep N :=
  { dbl := s.dbl, axis := s.axis, name := lower s.name, preds := S.toPs s.preds }

def SurfStep.wf {N : Type} (nm : Num N) (s : SurfStep N) : Prop :=
  tagNameOk s.name = true ∧ S.wfs nm s.preds

def axisText : Axis → Str
  | .child => ['c', 'h', 'i', 'l', 'd', ':', ':']
  | .descendant => ['d', 'e', 's', 'c', 'e', 'n', 'd', 'a', 'n', 't', ':', ':']
  | .descendantOrSelf => ['d', 'e', 's', 'c', 'e', 'n', 'd', 'a', 'n', 't', '-', 'o', 'r', '-', 's', 'e', 'l', 'f', ':', ':']
  | .parent => ['p', 'a', 'r', 'e', 'n', 't', ':', ':']
  | .ancestor => ['a', 'n', 'c', 'e', 's', 't', 'o', 'r', ':', ':']
  | .ancestorOrSelf => ['a', 'n', 'c', 'e', 's', 't', 'o', 'r', '-', 'o', 'r', '-', 's', 'e', 'l', 'f', ':', ':']

def axisPrefix : Option Axis → Str
  | some a => axisText a
  | none => []

def renderPreds {N : Type} : List (S N) → Str
  | [] => []
  | p :: ps => '[' :: (renderS p ++ (']' :: renderPreds ps))

def renderStep {N : Type} (s : SurfStep N) : Str :=
  (if s.dbl then ['/', '/'] else ['/']) ++
    (axisPrefix s.axis ++ (s.name ++ renderPreds s.preds))

/-- Canonical text of an expression. -/
def renderExpr {N : Type} : List (SurfStep N) → Str
  | [] => []
  | s :: ss => renderStep s ++ renderExpr ss

end AHP.XPath
