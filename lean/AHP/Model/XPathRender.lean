/-
  AHP.Model.XPathRender — the *surface syntax* of XPath expressions (what is written: number literals are
  digit strings, tag names may be in upper case) and a renderer to text, parametric in the *layout*
  (`Style`: optional white space at every site the regular expressions allow it, letter case of the words,
  quote of string literals); the inverse direction of AHP.Model.XPathParse.  Import-free so that the driver can run `parseExpr (renderExpr e)` next to the
  library.

  `S N` is `P N` (AHP.Model.XPathSpec) with literals as written: `num l x` is the numeral `l` together with
  the number it denotes (`S.wf` demands `nm.parse l.text = some x`, i.e. `float(text) = x`).
-/
import AHP.Model.XPathSpec
import AHP.Model.XPathParse
namespace AHP.XPath

/-- `'0'`…`'9'` -/
def digitChar (d : Fin 10) : Char := Char.ofNat (48 + d.val)

/-- A number literal as `BEV_SV_NUMBER_RE` reads it: `digits`, or `[-]digits.digits` (the integer part may
    be empty when a fraction follows; a sign is only read together with a fraction). -/
structure NumLit where
  neg : Bool
  ip : List (Fin 10)
  fp : Option (List (Fin 10))
  deriving Repr, Inhabited

def NumLit.text (l : NumLit) : Str :=
  (if l.neg then ['-'] else []) ++ l.ip.map digitChar ++
    (match l.fp with
     | some f => '.' :: f.map digitChar
     | none => [])

def NumLit.wf (l : NumLit) : Bool :=
  match l.fp with
  | some f => !f.isEmpty
  | none => !l.ip.isEmpty && !l.neg

/-- Surface syntax of a predicate. -/
inductive S (N : Type) where
  | num (l : NumLit) (x : N)
  | str (s : Str)
  | attr (name : Str)
  | text
  | last
  | position
  | concat (args : List (S N))
  | contains (a b : S N)
  | nspace0
  | nspace1 (a : S N)
  | group (p : S N)
  | bin (o : Op) (l r : S N)
  deriving Inhabited

mutual
/-- The abstract syntax tree of a surface tree. -/
def S.toP {N : Type} : S N → P N
  | .num _ x => .lit (.num x)
  | .str s => .lit (.str s)
  | .attr n => .attr n
  | .text => .text
  | .last => .last
  | .position => .position
  | .concat args => .concat (S.toPs args)
  | .contains a b => .contains a.toP b.toP
  | .nspace0 => .nspace0
  | .nspace1 a => .nspace1 a.toP
  | .group p => .group p.toP
  | .bin o l r => .bin o l.toP r.toP
def S.toPs {N : Type} : List (S N) → List (P N)
  | [] => []
  | p :: ps => p.toP :: S.toPs ps
end

/-! ### Layout: everything the regular expressions leave to the writer -/

/-- The places where `[ \t]*` (or `[ \t]+`) may be written. -/
inductive Site
  | opL | opR            -- before / after a binary operator
  | fnName               -- between a function name and its `(`
  | open | close         -- after the `(` / before the `)` of a group or a call (`open` also inside an empty `( )`)
  | commaL | commaR      -- before / after the comma that follows an argument
  | start | stop         -- before the first lead-in / after the last step
  | lead                 -- after a lead-in
  | brL | brIn | brOut   -- before `[`, after `[`, before `]`
  | stepEnd              -- after a step that is followed by another one
  deriving DecidableEq, Repr

/-- A layout: for every node of the expression (addressed by its path: child indices, innermost first)
    the white space at each of its sites, the spelling of its word (function name, word operator, axis)
    and the quote of its string literal.  Every `Style` is admissible: of the white space only the spaces
    and tabs are used, a spelling that is not a case variant of the word is replaced by the word, a
    mandatory separator that is missing is written as one space, a quote that occurs in the string is
    not used. -/
structure Style where
  ws : Site → List Nat → Str
  word : List Nat → Str → Str
  single : List Nat → Bool

/-- `[ \t]*` at a site -/
def Style.sp (st : Style) (k : Site) (π : List Nat) : Str := (st.ws k π).filter isSpTab

/-- `[wW][oO][rR][dD]`: a spelling of the word, every letter in either case -/
def Style.spell (st : Style) (π : List Nat) (w : Str) : Str :=
  if (st.word π w).map lowerChar = w then st.word π w else w

/-- `[ \t]+` where the grammar needs a separator -/
def sepOf (need : Bool) (w : Str) : Str := if need && w.isEmpty then [' '] else w

/-- One space on either side of binary operators and after commas, lower-case words, `"` preferred. -/
def Style.canon : Style where
  ws := fun k _ => match k with
    | .opL => [' ']
    | .opR => [' ']
    | .commaR => [' ']
    | _ => []
  word := fun _ w => w
  single := fun _ => false

/-- The quote a string literal is written with: the one the string does not contain; the preferred one
    when it contains neither. -/
def quoteWith (single : Bool) (s : Str) : Char :=
  if s.contains '"' then '\'' else if s.contains '\'' then '"' else if single then '\'' else '"'

/-- A string that can be written as a literal at all: it does not contain both kinds of quote, does
    not end in a backslash (the tokenizer would read `\"` as an escaped quote) and has no line feed
    (`.+` of the group / function expressions does not cross one).  The value is taken verbatim: there
    is no unescaping in `BodyElementValue_StaticValue_String`. -/
def strOk (s : Str) : Bool :=
  !(s.contains '"' && s.contains '\'') && !s.contains '\n' && s.getLast? != some '\\'

/-- `[*]|[a-zA-Z_][a-zA-Z0-9_\-]*` -/
def attrNameOk : Str → Bool
  | [] => false
  | c :: r => (c = '*' && r.isEmpty) || (isNameStart c && r.all isAttrChar)

/-- `[\*]|[a-zA-Z_][a-zA-Z0-9_]*` -/
def tagNameOk : Str → Bool
  | [] => false
  | c :: r => (c = '*' && r.isEmpty) || (isNameStart c && r.all isNameChar)

mutual
/-- What can be written: numerals that denote their number, writable strings, names of the right shape,
    `concat` with at least two arguments.  (Operator precedence is *not* a condition here: the
    tokenizer delivers the in-order list of any tree; `P.wf` matters for evaluation only.) -/
def S.wf {N : Type} (nm : Num N) : S N → Prop
  | .num l x => l.wf = true ∧ nm.parse l.text = some x
  | .str s => strOk s = true
  | .attr n => attrNameOk n = true
  | .concat args => 2 ≤ args.length ∧ S.wfs nm args
  | .contains a b => S.wf nm a ∧ S.wf nm b
  | .nspace1 a => S.wf nm a
  | .group p => S.wf nm p
  | .bin _ l r => S.wf nm l ∧ S.wf nm r
  | _ => True
def S.wfs {N : Type} (nm : Num N) : List (S N) → Prop
  | [] => True
  | p :: ps => S.wf nm p ∧ S.wfs nm ps
end

def opText : Op → Str
  | .arith .concat => ['|', '|']
  | .arith .add => ['+']
  | .arith .sub => ['-']
  | .arith .mul => ['*']
  | .arith .div => ['d', 'i', 'v']
  | .arith .mod => ['m', 'o', 'd']
  | .cmp .eq => ['=']
  | .cmp .ne => ['!', '=']
  | .cmp .lt => ['<']
  | .cmp .le => ['<', '=']
  | .cmp .gt => ['>']
  | .cmp .ge => ['>', '=']
  | .bool .and => ['a', 'n', 'd']
  | .bool .or => ['o', 'r']

/-- Operators that need white space in front: the words (`@n div` would read `ndiv` as part of the
    name only without it) and `-` (`@n-1` is the attribute `n-1`). -/
def needL : Op → Bool
  | .arith .sub => true
  | .arith .div => true
  | .arith .mod => true
  | .bool _ => true
  | _ => false

/-- Operators that need white space behind: `and` / `or` (`[ \t]+` in their expressions) and `-`
    (`1 -.5` would read `-.5` as a literal). -/
def needR : Op → Bool
  | .arith .sub => true
  | .bool _ => true
  | _ => false

/-- the operators that are words (spelled in either letter case); the others are written as they are -/
def isWordOp : Op → Bool
  | .arith .div => true
  | .arith .mod => true
  | .bool _ => true
  | _ => false

/-- an operator as written -/
def Style.spellOp (st : Style) (π : List Nat) (o : Op) : Str :=
  if isWordOp o then st.spell π (opText o) else opText o

def wText : Str := ['t', 'e', 'x', 't']
def wLast : Str := ['l', 'a', 's', 't']
def wPosition : Str := ['p', 'o', 's', 'i', 't', 'i', 'o', 'n']
def wConcat : Str := ['c', 'o', 'n', 'c', 'a', 't']
def wContains : Str := ['c', 'o', 'n', 't', 'a', 'i', 'n', 's']
def wNspace : Str := ['n', 'o', 'r', 'm', 'a', 'l', 'i', 'z', 'e', '-', 's', 'p', 'a', 'c', 'e']

mutual
/-- Text of a predicate in a given layout.  `π` = the path of the node. -/
def renderS {N : Type} (st : Style) : List Nat → S N → Str
  | _, .num l _ => l.text
  | π, .str s => quoteWith (st.single π) s :: (s ++ [quoteWith (st.single π) s])
  | _, .attr n => '@' :: n
  | π, .text => st.spell π wText ++ (st.sp .fnName π ++ ('(' :: (st.sp .open π ++ [')'])))
  | π, .last => st.spell π wLast ++ (st.sp .fnName π ++ ('(' :: (st.sp .open π ++ [')'])))
  | π, .position => st.spell π wPosition ++ (st.sp .fnName π ++ ('(' :: (st.sp .open π ++ [')'])))
  | π, .nspace0 => st.spell π wNspace ++ (st.sp .fnName π ++ ('(' :: (st.sp .open π ++ [')'])))
  | π, .concat args =>
    st.spell π wConcat ++ (st.sp .fnName π ++ ('(' :: (st.sp .open π ++ (renderArgs st π 0 args ++ (st.sp .close π ++ [')'])))))
  | π, .contains a b =>
    st.spell π wContains ++ (st.sp .fnName π ++ ('(' :: (st.sp .open π ++
      ((renderS st (0 :: π) a ++ (st.sp .commaL (0 :: π) ++ (',' :: (st.sp .commaR (0 :: π) ++ renderS st (1 :: π) b))))
        ++ (st.sp .close π ++ [')'])))))
  | π, .nspace1 a =>
    st.spell π wNspace ++ (st.sp .fnName π ++ ('(' :: (st.sp .open π ++ (renderS st (0 :: π) a ++ (st.sp .close π ++ [')'])))))
  | π, .group p => '(' :: (st.sp .open π ++ (renderS st (0 :: π) p ++ (st.sp .close π ++ [')'])))
  | π, .bin o l r =>
    renderS st (0 :: π) l ++ (sepOf (needL o) (st.sp .opL π) ++ (st.spellOp π o ++
      (sepOf (needR o) (st.sp .opR π) ++ renderS st (1 :: π) r)))
/-- the arguments of a call from the `k`-th on, with their commas -/
def renderArgs {N : Type} (st : Style) (π : List Nat) : Nat → List (S N) → Str
  | _, [] => []
  | k, p :: ps =>
    renderS st (k :: π) p ++
      (if ps.isEmpty then [] else st.sp .commaL (k :: π) ++ (',' :: (st.sp .commaR (k :: π) ++ renderArgs st π (k + 1) ps)))
end

/-! ### Steps -/

/-- A step as written (the tag name in any letter case). -/
structure SurfStep (N : Type) where
  dbl : Bool
  axis : Option Axis
  name : Str
  preds : List (S N)

/-- The abstract step: the name test is lower-cased. -/
def SurfStep.toSStep {N : Type} (s : SurfStep N) : SStep N :=
  { dbl := s.dbl, axis := s.axis, name := lower s.name, preds := S.toPs s.preds }

def SurfStep.wf {N : Type} (nm : Num N) (s : SurfStep N) : Prop :=
  tagNameOk s.name = true ∧ S.wfs nm s.preds

def axisWord : Axis → Str
  | .child => ['c', 'h', 'i', 'l', 'd']
  | .descendant => ['d', 'e', 's', 'c', 'e', 'n', 'd', 'a', 'n', 't']
  | .descendantOrSelf => ['d', 'e', 's', 'c', 'e', 'n', 'd', 'a', 'n', 't', '-', 'o', 'r', '-', 's', 'e', 'l', 'f']
  | .parent => ['p', 'a', 'r', 'e', 'n', 't']
  | .ancestor => ['a', 'n', 'c', 'e', 's', 't', 'o', 'r']
  | .ancestorOrSelf => ['a', 'n', 'c', 'e', 's', 't', 'o', 'r', '-', 'o', 'r', '-', 's', 'e', 'l', 'f']

/-- `axis::` in the spelling of the layout, or nothing -/
def axisPrefix (st : Style) (π : List Nat) : Option Axis → Str
  | some a => st.spell π (axisWord a) ++ [':', ':']
  | none => []

/-- the predicates of step `i` from the `j`-th on -/
def renderPreds {N : Type} (st : Style) (i : Nat) : Nat → List (S N) → Str
  | _, [] => []
  | j, p :: ps =>
    st.sp .brL [j, i] ++ ('[' :: (st.sp .brIn [j, i] ++ (renderS st [j, i] p ++ (st.sp .brOut [j, i] ++ (']' :: renderPreds st i (j + 1) ps)))))

def renderStep {N : Type} (st : Style) (i : Nat) (s : SurfStep N) : Str :=
  (if s.dbl then ['/', '/'] else ['/']) ++
    (st.sp .lead [i] ++ (axisPrefix st [i] s.axis ++ (s.name ++ renderPreds st i 0 s.preds)))

/-- the steps from the `i`-th on -/
def renderSteps {N : Type} (st : Style) : Nat → List (SurfStep N) → Str
  | _, [] => []
  | i, s :: ss => renderStep st i s ++ (if ss.isEmpty then [] else st.sp .stepEnd [i] ++ renderSteps st (i + 1) ss)

/-- Text of an expression in a given layout. -/
def renderExpr {N : Type} (st : Style) (ss : List (SurfStep N)) : Str :=
  st.sp .start [] ++ (renderSteps st 0 ss ++ st.sp .stop [])

end AHP.XPath
