/-
  AHP.Model.PyAst — the Python SUBSET used by the pure leaf functions of the library (conversions.py, the
  `_special_value_*` helpers, utils.escapeQuotes), as data, and a total big-step interpreter for it.

  `harness/ahpcheck/translate_code.py` dumps the `ast` of those functions into `AHP/Gen/Code.lean` as values of `Fun`
  (a dumb, fail-closed dump: one constructor per Python node); the meaning of the dump is given HERE, where it can be
  read.  `Props/C19Code.lean` proves, for every argument value, that interpreting the dumped code gives what the
  hand-written model (`Model/Conv.lean`) gives — so an edit of the Python function breaks a proof obligation for ALL
  inputs.  This file is the trusted piece of that tie.  What it assumes:

    * values: the `PyV` of the hand model (None, str, int, bool, DOMTokenList, an ancestor element, an opaque object),
      tuples of those, module-level singleton objects of feature-less classes (`EMPTY_IS_INVALID`), exception classes
      and instances (by class name, as `Gen.Inv.raise` does), other classes (only as the result of `x.__class__`), and
      an element `em` = the hand model's element state `Conv.Elem`, whose `tagName`, `getAttribute(name[, default])` and
      `hasAttribute(name)` ARE the hand model's (`Elem.tag`, `Elem.getAttribute genTables`, `Elem.hasAttribute`: Tags.py
      stays hand-modelled) with the tables regenerated from the source;
    * primitives are those of the hand model: `int(x)` = `Conv.pyInt parseInt` (`parseInt` = Python's `int()` on text,
      a parameter), `bool(x)` = `Conv.truthy`, `tostr(x)`/`str(x)` = `Conv.tostr`, `hasattr(x,'lower')` = `Conv.hasLower`,
      `s.lower()` = `AHP.lower` (ASCII), `s.replace(a, b)` = `replaceAll` (below);
    * calls bind positional arguments, then keyword arguments by name, then defaults; an unknown keyword, a parameter given
      twice, a missing or a surplus argument is a `TypeError`;
    * `==` between model values is `pyEqV` (numbers compare across int/bool; an opaque object equals only itself);
      `is` is decided only when one side is a unique object (None, True/False, a singleton, a class) and refuses otherwise;
      `<`/`>`/`<=`/`>=` only between numbers, `TypeError` otherwise (text ordering is refused);
    * exceptions are the enum `PyErr` of the hand model (`raise X` = `excOf` of the class name); `except:` catches
      everything, `except T:` catches `T`, and `IndexSizeErrorException` as a `ValueError` (its base class); every
      exception is an `Exception`;
    * a function body sees the parameters and its own assignments (`var`), and the functions defined EARLIER in the module
      (`callIn`: no recursion, no forward reference — the translator fails closed on both); defaults are evaluated at
      definition time in the empty environment;
    * anything the interpreter does not model evaluates to the error `PyErr.other "unsupported:…"`, never to a value.

  Extension for stateful and string-processing leaf functions (`xpath/_cache.py`, `Tags.isValidAttributeName`; the ties
  are `Props/C15Code.lean`, `Props/C08Code.lean`).  Further assumptions:

    * further values: Python lists and dicts of model values (`list`, `dict`: a dict is an insertion-ordered association
      list whose keys are hashable model values — None, text, numbers — compared with `==`), a `threading.Lock` (`lock held`),
      an exception object bound by `except T as name` (`caught`), and ONE kind of object with attributes: `obj fields`, the
      `self` of a method (a record of fields each holding a model value, a list, a dict or a lock);
    * mutation exists at statement level only, and only through `self`: `self.f.m(args)` as an expression statement with
      `m` one of `append`, `remove` (raising `ValueError`), `acquire`, `release`; `self.f = e`; `self.f[k] = v`;
      `del self.f[k]` (raising `KeyError`).  A mutating method in expression position is `unsupported`.  Values are copied
      (no heap): so that this is Python's meaning, a list/dict may be bound to a variable, stored in a field or iterated
      only when no other name can reach the same object — the right-hand side must CREATE it (a slice), or the guard
      `aliasOK` makes the statement `unsupported`; the translator refuses every use of `self` other than `self.<name>`;
    * a lock is a boolean: `acquire` of a held lock (a deadlock in one thread) and `release` of a free one are errors;
    * `while` runs on the fuel `Ctx.fuel` (per loop entry); running out of it is `Res.abort`, which no handler catches
      and which ends the call with an `unsupported` error — the theorems show a bound that suffices; `for` iterates over
      the items the iterable has when the loop starts (text: its characters; list/tuple: items; dict: keys);
    * module-level integer constants are read at call time: `Expr.global` looks them up in `Ctx.globals` (parameters of
      the theorems); a method of `self` that is not dumped (`getKeyForExpressionStr`, a static method around sha1) is a
      parameter too: `Ctx.selfMeth`;
    * `+ - *` between numbers only; `e[i]` on text/list/tuple (negative indices as Python; `IndexError`) and dict
      (`KeyError`); `e[:n]`, `e[n:]` are the hand model's `Cache.sliceTo/sliceFrom` (Python's clamping rules);
    * `str.isalpha()/isalnum()` are ASCII-exact (`a-z A-Z`, and `0-9`), as the hand models of
      `Tags.isValidAttributeName` are: Python's are Unicode-aware, so the tie is exact on ASCII names only (C08 says so);
    * local lists and dicts (`SpecialAttributes.py`: `camelCaseToDashName`, `styleToDict`) change at statement level too:
      `x.append(v)` / `x.remove(v)` as an expression statement (`Stmt.varCall`), `x[k] = v` (`Stmt.setItemVar`).  Such a value
      has ONE name (guard `aliasOK`: it must come from an expression that creates it — a slice, `[]`, `{}`, `list(x)` when the
      module has no function `list`, `text.split(sep)`), and `for` over a variable holding a list checks after every
      iteration that the variable still holds the list it started with (else `Res.abort`): Python iterates over the live list;
    * `list(x)`, `str.strip()` (all of `str.isspace()`, the shared `strip`), `str.split(c)` / `str.index(c)` for one character,
      `str.isupper()` (ASCII), `sep.join(list of texts)`.

  Extension for a class derived from `list` with fields and methods that call each other (`Tags.TagCollection`; the tie is
  `Props/C18Code.lean`).  Further assumptions:

    * an object of such a class is `obj fields` too: the list it IS sits under the reserved name `listPart` (no Python
      attribute can be called `[list]`); `list.__init__(self)`, `list.append(self, x)`, `list.remove(self, x)` (statements:
      `Stmt.baseCall`) act on it, `self[:]` (`Expr.sliceAll`) and `list(self)` read it (new lists).  The receiver is taken to be
      an instance of EXACTLY that class (a subclass could override the methods), and the class to leave item access,
      iteration and attribute assignment to `list` / `object` (the translator checks it);
    * an element of a collection is the value `PyV.ancestor u`: an `AdvancedTag` identified by a number — here its uid, as in
      the hand model (`Model/Coll.lean`).  `x.uid` and `x.getUid()` are that number (`int`), `==` between two elements (what
      `list.remove` and `in` use) is equality of the numbers (`pyEqV`): `AdvancedTag.__eq__` compares the uids
      (`Ident.Elem.eq` of the hand model), for two objects of the same class.  The translator checks that `getUid` and `__eq__`
      have exactly those bodies; that uids are unique per element (uuid4) is outside;
    * `set`: a duplicate-free list of hashable model values (`Val.set`, `Field.set`); `set()`, `x in s`, `s.add(x)`,
      `s.remove(x)` (`KeyError` when absent; statements on a field of `self`);
    * the methods of the class are in `Ctx.meths` by name, as functions from the receiver's fields and the arguments to the
      fields afterwards and the result.  `methIn` builds that table from the dump in DEPENDENCY order: a method sees the
      methods before it only (no recursion; a name outside the table is an `AttributeError`, never a value).  Three ways to
      call: `x.m(args)` as a statement (`Stmt.varCall` on a variable holding an object: the variable holds what the method
      left, also when it raises); the bound method `x.m` as a value (`Expr.boundMeth`, `Val.bound x m`: it NAMES the variable —
      Python's bound method holds the object, which is the same as long as the variable is not rebound: the translator checks
      that it is bound exactly once, before), called in an expression (`callBound`: the method must leave the object as it is,
      or the call is `unsupported`); `C(args)` (`Expr.construct`: `__init__` on a new object without fields; it must return
      `None`).  Arguments are copied in: a method that changed (or rebound) a parameter holding a mutable object is
      refused (`callMeth`, guard `argsKept`), as is a bound method passed as an argument or returned;
    * a field of the receiver with the name of a method would hide it in Python: such a call is `unsupported`.

  Extension for `SpecialAttributes.StyleAttribute` (the tie is `Props/C10Code.lean`).  Further assumptions:

    * the class overrides dot access; `self.f` is the plain attribute for the names in its `RESERVED_ATTRIBUTES` only, and the
      translator refuses any other `self.f` in a dumped method — so `obj fields` is the meaning here too;
    * `x = self.f` (`Stmt.alias`) gives the object in the field a second name: `Val.ref o f` NAMES the field; reading `x`
      (`Expr.avar`) reads the field as it is then, `x[k] = v` / `del x[k]` (`Stmt.setItemRef/delItemRef`) change the dict in the
      field.  That is Python's meaning as long as the field itself is not assigned meanwhile: the translator checks that the
      function does not assign it and that `x` is bound once, at the top level, before its uses;
    * `[e for a, b in d.items()]` (`Expr.compItems`): `e` is evaluated for the pairs of the dict in order, `a` and `b` bound in
      an environment of their own (they do not leak; the translator checks they are used nowhere else);
    * `a + b` on two texts is concatenation; `c in text` for a one-character text `c`; `text.startswith(prefix)`;
    * `object.__getattribute__(self, n)` (`Expr.objAttr`) is the field named by the text `n` (a method or class attribute
      of that name is NOT found: `AttributeError`); `object.__setattr__(self, n, v)` is `Expr.outside`: not modelled, an error;
    * `self._ensureHtmlAttribute()` is a parameter (`Ctx.selfMeth`): it writes the attribute store of the tag the style
      belongs to, not the style object (the translator checks its exact body).

  Extension for the parsers' tag handlers (`Parser.AdvancedHTMLParser.handle_endtag`, `Validator.ValidatingAdvancedHTMLParser.
  handle_endtag` / `handle_starttag`; the ties are `Props/C02Code.lean`, `Props/C13Code.lean`).  Further assumptions:

    * the receiver is `obj fields` (the translator checks that the class defines no `__getattr__` / `__getattribute__` /
      `__setattr__` and that no class-level name hides a field the method uses); `x = self.f` (`Stmt.alias`) may also stand directly
      inside a `try:` at the top level of the body; `x.pop()` through such a second name is `Stmt.refCall` (`list.pop()`: the list
      without its last item, `IndexError` on an empty list);
    * the items of the list of open elements are elements identified by a number (`PyV.ancestor u`); `l[i].a` (`Expr.elemAttr`:
      the translator emits it for an attribute of a subscript of the aliased list, for the attribute names it is told) is
      `Ctx.elemAttr u a`, a parameter: the methods only read it;
    * `range(n)` is the tuple of the numbers `0 … n-1`; the translator accepts it as the iterable of a `for` only;
    * `[e for x in l]` (`Expr.compFor`) over a list: `e` for the items in order, `x` bound in an environment of its own;
    * `x op= e` on a local variable is dumped as `x = x op e` (`+ - *` give numbers and texts only here: no in-place variant);
    * instantiating a library exception class gives `excInst` of its name, the arguments evaluated and dropped: the constructors
      of `exceptions.py` are taken to return normally;
    * `Val.pairs`: a Python list of 2-tuples of model values (the attribute list of `handle_starttag`); `for (a, b) in x`
      (`Stmt.forPair`) binds both names per item and checks after every iteration that the iterable, evaluated again, still is
      that list (a variable holding it; `d.items()` of a dict in a field: the pairs of the dict); a plain `for` over it yields the
      2-tuples;
    * `'literal' % (a, b)` / `'literal' % a` (`Expr.format`) with `%s` directives only: `pyFormat` (`str()` of each argument);
    * `isinstance(x, C)` (`Expr.isInstance`) on a model value: its class (`typeName`) IS `C` — an element is an `AdvancedTag`
      (subclasses are not told apart); `text.endswith(suffix)`;
    * `return Base.m(self, args)` (`Stmt.retBase`) is `Ctx.baseMeth m`, a parameter like `Ctx.meths`: what the base class's method
      does to the object and returns (the translator checks the single base class and where it is imported from).
-/
import AHP.Model.Basic
import AHP.Model.Conv
import AHP.Model.Cache
namespace AHP.PyAst
open AHP AHP.Gen AHP.Conv

/-! ### values -/

deriving instance DecidableEq for AHP.Conv.Elem
-- so that a concrete run of the interpreter can be compared with its expected result by `decide`
deriving instance DecidableEq for Except

/-- What a field of `self` can hold. -/
inductive Field where
  | py (v : PyV)                   -- a model value
  | list (vs : List PyV)           -- a Python list of model values
  | dict (kvs : List (PyV × PyV))  -- a dict: insertion-ordered association list
  | lock (held : Bool)             -- a threading.Lock
  | set (vs : List PyV)            -- a set of hashable model values (no duplicates; kept in insertion order)
  deriving DecidableEq, Repr, Inhabited

inductive Val where
  | py (v : PyV)                   -- a value of the hand model
  | tuple (vs : List PyV)          -- a tuple (or list) of such values
  | singleton (name : String)      -- the module-level instance of a feature-less class (EMPTY_IS_INVALID, NOT_PROVIDED)
  | excType (name : String)        -- an exception class
  | excInst (name : String)        -- an instance of that exception class
  | cls (name : String)            -- any other class
  | elem (e : Elem)                -- an element (AdvancedTag), as the hand model's element state
  | list (vs : List PyV)           -- a Python list
  | dict (kvs : List (PyV × PyV))  -- a Python dict (insertion ordered)
  | lock (held : Bool)             -- a threading.Lock
  | caught (e : PyErr)             -- the exception object bound by `except T as name`
  | obj (fields : List (String × Field))   -- `self`: an object with attributes
  | set (vs : List PyV)            -- a Python set of hashable model values
  | bound (o m : String)           -- the bound method `o.m` of the object that the local variable `o` holds
  | ref (o f : String)             -- a second name of the object in the field `f` of the object that the variable `o` holds
  | pairs (kvs : List (PyV × PyV)) -- a Python list of 2-tuples of model values (the attribute list a parser callback receives)
  deriving DecidableEq, Repr, Inhabited

def Field.toVal : Field → Val
  | .py v => .py v
  | .list vs => .list vs
  | .dict kvs => .dict kvs
  | .lock h => .lock h
  | .set vs => .set vs

def Val.toField : Val → Option Field
  | .py v => some (.py v)
  | .list vs => some (.list vs)
  | .dict kvs => some (.dict kvs)
  | .lock h => some (.lock h)
  | .set vs => some (.set vs)
  | _ => none

/-- Objects that can change after they were made (so that two names for one of them matter). -/
def Val.mutable : Val → Bool
  | .list _ => true
  | .dict _ => true
  | .lock _ => true
  | .obj _ => true
  | .set _ => true
  | .pairs _ => true
  | _ => false

def unsupported (what : String) : PyErr := .other ("unsupported:" ++ what)

/-- `bool(x)` -/
def Val.truthy : Val → Bool
  | .py v => Conv.truthy v
  | .tuple vs => !vs.isEmpty
  | .list vs => !vs.isEmpty
  | .dict kvs => !kvs.isEmpty
  | .set vs => !vs.isEmpty
  | .pairs kvs => !kvs.isEmpty
  | _ => true

/-- `a == b` on model values. -/
def pyEqV : PyV → PyV → Bool
  | .none, .none => true
  | .str a, .str b => a = b
  | .int a, .int b => a = b
  | .bool a, .bool b => a = b
  | .int a, .bool b => a = (if b then 1 else 0)
  | .bool a, .int b => (if a then 1 else 0) = b
  | .tokens a, .tokens b => a = b
  | .ancestor i, .ancestor j => i = j
  | .opaque a, .opaque b => a = b
  | _, _ => false

/-- `a == b`; objects of different kinds are never equal; exception instances have identity only (refused). -/
def pyEq (x y : Val) : Except PyErr Bool :=
  match x with
  | .py a => (match y with | .py b => .ok (pyEqV a b) | _ => .ok false)
  | .tuple a => (match y with
      | .tuple b => .ok (a.length = b.length && (a.zip b).all (fun p => pyEqV p.1 p.2))
      | _ => .ok false)
  | .singleton a => (match y with | .singleton b => .ok (a = b) | _ => .ok false)
  | .excType a => (match y with | .excType b => .ok (a = b) | _ => .ok false)
  | .cls a => (match y with | .cls b => .ok (a = b) | _ => .ok false)
  | .excInst _ => (match y with | .excInst _ => .error (unsupported "==") | _ => .ok false)
  | .elem _ => (match y with | .elem _ => .error (unsupported "==") | _ => .ok false)
  | .list a => (match y with
      | .list b => .ok (a.length = b.length && (a.zip b).all (fun p => pyEqV p.1 p.2))
      | _ => .ok false)
  | .dict _ => (match y with | .dict _ => .error (unsupported "==") | _ => .ok false)
  | .lock _ => (match y with | .lock _ => .error (unsupported "==") | _ => .ok false)
  | .caught _ => (match y with | .caught _ => .error (unsupported "==") | _ => .ok false)
  | .obj _ => (match y with | .obj _ => .error (unsupported "==") | _ => .ok false)
  | .set _ => (match y with | .set _ => .error (unsupported "==") | _ => .ok false)
  | .bound _ _ => (match y with | .bound _ _ => .error (unsupported "==") | _ => .ok false)
  | .ref _ _ => .error (unsupported "==")
  | .pairs _ => .error (unsupported "==")

/-- Objects of which there is exactly one: `is` is then structural equality of the representation. -/
def Val.unique : Val → Bool
  | .py .none => true
  | .py (.bool _) => true
  | .singleton _ => true
  | .excType _ => true
  | .cls _ => true
  | _ => false

/-- `a is b` -/
def pyIs (x y : Val) : Except PyErr Bool :=
  if x.unique || y.unique then .ok (x = y) else .error (unsupported "is")

def numOf : Val → Option Int
  | .py (.int n) => some n
  | .py (.bool b) => some (if b then 1 else 0)
  | _ => none

def isText : Val → Bool
  | .py (.str _) => true
  | _ => false

/-- `a < b` and friends: numbers only (`TypeError` otherwise; the ordering of two texts is refused). -/
def pyOrd (rel : Int → Int → Bool) (x y : Val) : Except PyErr Bool :=
  match numOf x with
  | some a =>
    (match numOf y with
     | some b => .ok (rel a b)
     | none => .error .typeError)
  | none => if isText x && isText y then .error (unsupported "<") else .error .typeError

/-- Values that can be dict keys here: `None`, text, numbers (hash and `==` agree on them). -/
def hashable : PyV → Bool
  | .none => true
  | .str _ => true
  | .int _ => true
  | .bool _ => true
  | _ => false

/-- membership in a set (of hashable values): some member equal to `v` -/
def sMem (vs : List PyV) (v : PyV) : Bool := vs.any (fun e => pyEqV v e)

/-- `s.add(v)` -/
def sAdd (vs : List PyV) (v : PyV) : List PyV := if sMem vs v then vs else vs ++ [v]

/-- `s.remove(v)`: without the member equal to `v` (there is at most one in a set); `none` when there is none (`KeyError`). -/
def sRemove (v : PyV) : List PyV → Option (List PyV)
  | [] => none
  | a :: r => if pyEqV v a then some r else (match sRemove v r with | some r' => some (a :: r') | none => none)

/-- `x in c`: `c` a tuple or list (any element equal to `x`), or a dict / set (any key / member equal to the hashable `x`). -/
def pyIn (x c : Val) : Except PyErr Bool :=
  match c with
  | .tuple vs => (match x with
      | .py a => .ok (vs.any (fun e => pyEqV a e))
      | .excInst _ => .error (unsupported "in")
      | .elem _ => .error (unsupported "in")
      | _ => .ok false)
  | .list vs => (match x with
      | .py a => .ok (vs.any (fun e => pyEqV a e))
      | _ => .error (unsupported "in"))
  | .dict kvs => (match x with
      | .py a => if hashable a then .ok (kvs.any (fun e => pyEqV a e.1)) else .error (unsupported "in")
      | _ => .error (unsupported "in"))
  | .set vs => (match x with
      | .py a => if hashable a then .ok (sMem vs a) else .error (unsupported "in")
      | _ => .error (unsupported "in"))
  | .py (.str s) => (match x with
      | .py (.str [c]) => .ok (s.contains c)
      | .py (.str _) => .error (unsupported "in: a text of another length than one in a text")
      | _ => .error .typeError)
  | _ => .error (unsupported "in")

inductive CmpOp where
  | eq | ne | lt | gt | le | ge | is | isNot | isIn | notIn
  deriving DecidableEq, Repr, Inhabited

def bnot (r : Except PyErr Bool) : Except PyErr Bool :=
  match r with | .ok b => .ok (!b) | .error e => .error e

def compareB (op : CmpOp) (x y : Val) : Except PyErr Bool :=
  match op with
  | .eq => pyEq x y
  | .ne => bnot (pyEq x y)
  | .lt => pyOrd (fun a b => decide (a < b)) x y
  | .gt => pyOrd (fun a b => decide (a > b)) x y
  | .le => pyOrd (fun a b => decide (a ≤ b)) x y
  | .ge => pyOrd (fun a b => decide (a ≥ b)) x y
  | .is => pyIs x y
  | .isNot => bnot (pyIs x y)
  | .isIn => pyIn x y
  | .notIn => bnot (pyIn x y)

def pyCompare (op : CmpOp) (x y : Val) : Except PyErr Val :=
  match compareB op x y with | .ok b => .ok (.py (.bool b)) | .error e => .error e

/-- `type(v).__name__` for a model value. -/
def typeName : PyV → String
  | .none => "NoneType"
  | .str _ => "str"
  | .int _ => "int"
  | .bool _ => "bool"
  | .tokens _ => "DOMTokenList"
  | .ancestor _ => "AdvancedTag"
  | .opaque w => w

/-- The class name of an exception of the hand model's enum (`excOf (errName e) = e` for the four named ones). -/
def errName : PyErr → String
  | .valueError => "ValueError"
  | .typeError => "TypeError"
  | .keyError => "KeyError"
  | .indexSizeError => "IndexSizeErrorException"
  | .other n => n

/-- `x.a` — `__class__` of anything, a field of `self`, `tagName` of an element. -/
def getAttr (x : Val) (a : String) : Except PyErr Val :=
  if a = "__class__" then
    match x with
    | .py v => .ok (.cls (typeName v))
    | .tuple _ => .ok (.cls "tuple")
    | .singleton n => .ok (.cls (n ++ ".__class__"))
    | .excInst n => .ok (.excType n)
    | .excType _ => .ok (.cls "type")
    | .cls _ => .ok (.cls "type")
    | .elem _ => .ok (.cls "AdvancedTag")
    | .list _ => .ok (.cls "list")
    | .dict _ => .ok (.cls "dict")
    | .lock _ => .ok (.cls "lock")
    | .caught e => .ok (.excType (errName e))
    | .obj _ => .ok (.cls "object")
    | .set _ => .ok (.cls "set")
    | .bound _ _ => .ok (.cls "method")
    | .ref _ _ => .error (unsupported "attribute of an alias")
    | .pairs _ => .ok (.cls "list")
  else
    match x with
    | .obj fs => (match fs.lookup a with | some fv => .ok fv.toVal | none => .error (.other "AttributeError"))
    | _ =>
      if a = "tagName" then
        match x with
        | .elem e => .ok (.py (.str e.tag.toList))
        | _ => .error (unsupported "attribute tagName")
      else if a = "uid" then
        match x with
        | .py (.ancestor u) => .ok (.py (.int u))
        | _ => .error (unsupported "attribute uid")
      else .error (unsupported ("attribute " ++ a))

/-- `s.replace(a, b)` for a non-empty `a` (left to right, non-overlapping), with fuel = length of `s`. -/
def replaceFuel (a b : Str) : Nat → Str → Str
  | 0, s => s
  | fuel + 1, s =>
    match s with
    | [] => []
    | c :: r => if a.isPrefixOf (c :: r) then b ++ replaceFuel a b fuel ((c :: r).drop a.length)
                else c :: replaceFuel a b fuel r

def replaceAll (a b s : Str) : Str := replaceFuel a b (s.length + 1) s

/-! ASCII character classes: what `str.isalpha()` / `str.isalnum()` are taken to be (exact on ASCII text only). -/
def asciiAlpha (c : Char) : Bool := ('a' ≤ c && c ≤ 'z') || ('A' ≤ c && c ≤ 'Z')
def asciiDigit (c : Char) : Bool := '0' ≤ c && c ≤ '9'
def asciiAlnum (c : Char) : Bool := asciiAlpha c || asciiDigit c
def asciiUpper (c : Char) : Bool := 'A' ≤ c && c ≤ 'Z'
def asciiLower (c : Char) : Bool := 'a' ≤ c && c ≤ 'z'

/-- the items of a list when all of them are texts (`sep.join(items)` raises `TypeError` otherwise) -/
def strItems : List PyV → Option (List Str)
  | [] => some []
  | .str w :: r => (match strItems r with | some ws => some (w :: ws) | none => none)
  | _ :: _ => none

/-! ### dicts: insertion-ordered association lists, keys compared with `==` -/

def dGet : List (PyV × PyV) → PyV → Option PyV
  | [], _ => none
  | (k', v) :: rest, k => if pyEqV k' k then some v else dGet rest k

/-- `d[k] = v`: an existing key keeps its position (and its first spelling). -/
def dSet : List (PyV × PyV) → PyV → PyV → List (PyV × PyV)
  | [], k, v => [(k, v)]
  | (k', v') :: rest, k, v => if pyEqV k' k then (k', v) :: rest else (k', v') :: dSet rest k v

/-- `del d[k]` once the key is known to be there. -/
def dDel (d : List (PyV × PyV)) (k : PyV) : List (PyV × PyV) := d.filter (fun p => !pyEqV p.1 k)

/-- `l.remove(x)`: the list without its first item equal to `x`; `none` when there is none (`ValueError`). -/
def removeFirst (x : PyV) : List PyV → Option (List PyV)
  | [] => none
  | a :: r => if pyEqV a x then some r else (match removeFirst x r with | some r' => some (a :: r') | none => none)

/-- `x.m(args)` without effect on `x` — `str.lower()`, `str.replace(old, new)` with a non-empty `old`, `str.isalpha()`,
`str.isalnum()` (ASCII); `dict.get(key[, default])`; `em.getAttribute(name[, default])`, `em.hasAttribute(name)` (the hand
model's, over the generated tables).  The mutating methods of lists and locks exist as statements only (`mutCall`). -/
def callMethod (x : Val) (m : String) (args : List Val) : Except PyErr Val :=
  match x with
  | .py (.str s) =>
    if m = "lower" then
      (match args with
       | [] => .ok (.py (.str (lower s)))
       | _ => .error .typeError)
    else if m = "isalpha" then
      (match args with
       | [] => .ok (.py (.bool (!s.isEmpty && s.all asciiAlpha)))
       | _ => .error .typeError)
    else if m = "isalnum" then
      (match args with
       | [] => .ok (.py (.bool (!s.isEmpty && s.all asciiAlnum)))
       | _ => .error .typeError)
    else if m = "strip" then
      (match args with
       | [] => .ok (.py (.str (strip s)))
       | _ => .error (unsupported "strip with an argument"))
    else if m = "isupper" then
      (match args with
       | [] => .ok (.py (.bool (s.any asciiUpper && s.all (fun c => !asciiLower c))))
       | _ => .error .typeError)
    else if m = "split" then
      (match args with
       | [.py (.str [c])] => .ok (.list ((splitChar c s).map .str))
       | _ => .error (unsupported "split on something else than one character"))
    else if m = "index" then
      (match args with
       | [.py (.str [c])] => if c ∈ s then .ok (.py (.int (s.idxOf c))) else .error .valueError
       | _ => .error (unsupported "index of something else than one character"))
    else if m = "join" then
      (match args with
       | [.list vs] => (match strItems vs with | some ws => .ok (.py (.str (joinWith s ws))) | none => .error .typeError)
       | [.tuple vs] => (match strItems vs with | some ws => .ok (.py (.str (joinWith s ws))) | none => .error .typeError)
       | _ => .error (unsupported "join of something else than a list"))
    else if m = "startswith" then
      (match args with
       | [.py (.str a)] => .ok (.py (.bool (a.isPrefixOf s)))
       | _ => .error (unsupported "startswith of something else than a text"))
    else if m = "endswith" then
      (match args with
       | [.py (.str a)] => .ok (.py (.bool (a.isSuffixOf s)))
       | _ => .error (unsupported "endswith of something else than a text"))
    else if m = "replace" then
      (match args with
       | [.py (.str a), .py (.str b)] =>
         if a = [] then .error (unsupported "replace of the empty string") else .ok (.py (.str (replaceAll a b s)))
       | _ => .error .typeError)
    else .error (unsupported ("method " ++ m))
  | .elem e =>
    if m = "getAttribute" then
      (match args with
       | [.py (.str n)] => .ok (.py (e.getAttribute genTables (String.ofList n) .none))
       | [.py (.str n), .py d] => .ok (.py (e.getAttribute genTables (String.ofList n) d))
       | _ => .error (unsupported "getAttribute"))
    else if m = "hasAttribute" then
      (match args with
       | [.py (.str n)] => .ok (.py (.bool (e.hasAttribute (String.ofList n))))
       | _ => .error (unsupported "hasAttribute"))
    else .error (unsupported ("method " ++ m))
  | .dict kvs =>
    if m = "get" then
      (match args with
       | [.py k] => if hashable k then .ok (.py ((dGet kvs k).getD .none)) else .error (unsupported "dict key")
       | [.py k, .py d] => if hashable k then .ok (.py ((dGet kvs k).getD d)) else .error (unsupported "dict key")
       | _ => .error (unsupported "dict.get"))
    else if m = "items" then
      (match args with
       | [] => .ok (.pairs kvs)
       | _ => .error .typeError)
    else .error (unsupported ("method " ++ m))
  | .py (.ancestor u) =>
    if m = "getUid" then
      (match args with
       | [] => .ok (.py (.int u))
       | _ => .error .typeError)
    else .error (.other "AttributeError")
  | .list _ => .error (unsupported ("method " ++ m ++ " of a list in an expression"))
  | .set _ => .error (unsupported ("method " ++ m ++ " of a set in an expression"))
  | .lock _ => .error (unsupported ("method " ++ m ++ " of a lock in an expression"))
  | .obj _ => .error (unsupported ("method " ++ m ++ " of an object"))
  | _ => .error (.other "AttributeError")

/-- `self.f.m(args)` as a statement: the new content of the field.  `list.append(x)`, `list.remove(x)` (`ValueError` when
no item equals `x`), `lock.acquire()` (a held lock: this thread would wait for ever), `lock.release()` (a free lock:
`RuntimeError`). -/
def mutCall (fv : Field) (m : String) (args : List Val) : Except PyErr Field :=
  match fv with
  | .list vs =>
    if m = "append" then
      (match args with
       | [.py v] => .ok (.list (vs ++ [v]))
       | [_] => .error (unsupported "list of objects")
       | _ => .error .typeError)
    else if m = "remove" then
      (match args with
       | [.py v] => (match removeFirst v vs with | some vs' => .ok (.list vs') | none => .error .valueError)
       | [_] => .error (unsupported "list of objects")
       | _ => .error .typeError)
    else if m = "pop" then
      (match args with
       | [] => if vs.isEmpty then .error (.other "IndexError") else .ok (.list vs.dropLast)
       | _ => .error (unsupported "pop with an argument"))
    else .error (unsupported ("statement method " ++ m))
  | .lock h =>
    if m = "acquire" then
      (match args with
       | [] => if h then .error (unsupported "acquire of a held lock") else .ok (.lock true)
       | _ => .error (unsupported "acquire with arguments"))
    else if m = "release" then
      (match args with
       | [] => if h then .ok (.lock false) else .error (.other "RuntimeError")
       | _ => .error .typeError)
    else .error (unsupported ("statement method " ++ m))
  | .set vs =>
    if m = "add" then
      (match args with
       | [.py v] => if hashable v then .ok (.set (sAdd vs v)) else .error (unsupported "set member")
       | [_] => .error (unsupported "set of objects")
       | _ => .error .typeError)
    else if m = "remove" then
      (match args with
       | [.py v] =>
         if hashable v then (match sRemove v vs with | some vs' => .ok (.set vs') | none => .error .keyError)
         else .error (unsupported "set member")
       | [_] => .error (unsupported "set of objects")
       | _ => .error .typeError)
    else .error (unsupported ("statement method " ++ m))
  | _ => .error (unsupported ("statement method " ++ m))

/-- The name under which an object of a class derived from `list` keeps the list it IS (no Python attribute has that name). -/
def listPart : String := "[list]"

/-- `list.m(o, args)` as a statement, for an object `o` of a class derived from `list`: the new content of its list part
(`cur`: the present one).  `list.__init__(o)` makes it the empty list; `append` / `remove` are the list's own. -/
def baseCall (cur : Option Field) (m : String) (args : List Val) : Except PyErr Field :=
  if m = "__init__" then
    (match args with
     | [] => .ok (.list [])
     | _ => .error (unsupported "list.__init__ with arguments"))
  else
    match cur with
    | some (.list vs) => if m = "append" || m = "remove" then mutCall (.list vs) m args else .error (unsupported ("list." ++ m))
    | _ => .error (unsupported "not a list object")

/-- `fmt % args` for a format text whose only directives are `%s` (`str()` of the argument): too few / too many arguments
are a `TypeError`; any other directive is refused. -/
def pyFormat : Str → List PyV → Except PyErr Str
  | [], vs => if vs.isEmpty then .ok [] else .error .typeError
  | c :: r, vs =>
    if c = '%' then
      (match r with
       | d :: r' =>
         if d = 's' then
           (match vs with
            | v :: vs' => (match pyFormat r' vs' with | .ok t => .ok (tostr v ++ t) | .error e => .error e)
            | [] => .error .typeError)
         else .error (unsupported "format directive other than %s")
       | [] => .error .valueError)
    else (match pyFormat r vs with | .ok t => .ok (c :: t) | .error e => .error e)

/-- the arguments of a format: model values only -/
def pyVals : List Val → Option (List PyV)
  | [] => some []
  | .py v :: r => (match pyVals r with | some vs => some (v :: vs) | none => none)
  | _ :: _ => none

inductive BinOp where
  | add | sub | mul
  deriving DecidableEq, Repr, Inhabited

/-- `a + b`, `a - b`, `a * b` between numbers; `a + b` between texts (concatenation); anything else is refused. -/
def pyBinop (op : BinOp) (x y : Val) : Except PyErr Val :=
  match numOf x with
  | some a =>
    (match numOf y with
     | some b => .ok (.py (.int (match op with | .add => a + b | .sub => a - b | .mul => a * b)))
     | none => .error (unsupported "arithmetic on something else than numbers"))
  | none =>
    (match op, x, y with
     | .add, .py (.str a), .py (.str b) => .ok (.py (.str (a ++ b)))
     | _, _, _ => .error (unsupported "arithmetic on something else than numbers"))

/-- Item `i` of a sequence, negative `i` counting from the end; `none`: `IndexError`. -/
def seqItem (l : List α) (i : Int) : Option α :=
  let n : Int := l.length
  let j : Int := if i < 0 then i + n else i
  if j < 0 then none else l[j.toNat]?

/-- `x[i]` -/
def pyIndex (x i : Val) : Except PyErr Val :=
  match x with
  | .py (.str s) =>
    (match i with
     | .py (.int n) => (match seqItem s n with | some c => .ok (.py (.str [c])) | none => .error (.other "IndexError"))
     | _ => .error (unsupported "index"))
  | .list vs =>
    (match i with
     | .py (.int n) => (match seqItem vs n with | some v => .ok (.py v) | none => .error (.other "IndexError"))
     | _ => .error (unsupported "index"))
  | .tuple vs =>
    (match i with
     | .py (.int n) => (match seqItem vs n with | some v => .ok (.py v) | none => .error (.other "IndexError"))
     | _ => .error (unsupported "index"))
  | .dict kvs =>
    (match i with
     | .py k => if hashable k then (match dGet kvs k with | some v => .ok (.py v) | none => .error .keyError)
                else .error (unsupported "dict key")
     | _ => .error (unsupported "dict key"))
  | _ => .error (unsupported "index")

/-- `x[:n]` (`front = true`) and `x[n:]` for an integer `n`: Python's rules, as `Cache.sliceTo` / `Cache.sliceFrom`. -/
def pySlice (front : Bool) (x n : Val) : Except PyErr Val :=
  match n with
  | .py (.int k) =>
    (match x with
     | .list vs => .ok (.list (if front then Cache.sliceTo vs k else Cache.sliceFrom vs k))
     | .tuple vs => .ok (.tuple (if front then Cache.sliceTo vs k else Cache.sliceFrom vs k))
     | .py (.str s) => .ok (.py (.str (if front then Cache.sliceTo s k else Cache.sliceFrom s k)))
     | _ => .error (unsupported "slice"))
  | _ => .error (unsupported "slice bound")

/-- `x[:]`: a new list with the items of a list, or of the list that an object of a class derived from `list` is. -/
def pySliceAll (x : Val) : Except PyErr Val :=
  match x with
  | .list vs => .ok (.list vs)
  | .tuple vs => .ok (.tuple vs)
  | .py (.str s) => .ok (.py (.str s))
  | .obj fs => (match fs.lookup listPart with | some (.list vs) => .ok (.list vs) | _ => .error (unsupported "slice"))
  | _ => .error (unsupported "slice")

/-- `len(x)` -/
def pyLen : Val → Except PyErr Val
  | .py (.str s) => .ok (.py (.int s.length))
  | .py (.tokens ws) => .ok (.py (.int ws.length))
  | .list vs => .ok (.py (.int vs.length))
  | .tuple vs => .ok (.py (.int vs.length))
  | .dict kvs => .ok (.py (.int kvs.length))
  | .set vs => .ok (.py (.int vs.length))
  | .pairs kvs => .ok (.py (.int kvs.length))
  | .py .none => .error .typeError
  | .py (.int _) => .error .typeError
  | .py (.bool _) => .error .typeError
  | _ => .error (unsupported "len")

/-- `f(args)` for a value `f`: instantiating an exception class. -/
def callValue (f : Val) (_args : List Val) : Except PyErr Val :=
  match f with
  | .excType n => .ok (.excInst n)
  | .cls _ => .error (unsupported "instantiation")
  | _ => .error .typeError

/-- `issubclass(a, b)` where `b` is an exception class. -/
def pyIsSubclass (a b : Val) : Except PyErr Val :=
  match b with
  | .excType m =>
    (match a with
     | .excType n =>
       if m = "Exception" || m = "BaseException" || n = m then .ok (.py (.bool true))
       else .error (unsupported "issubclass")
     | .cls _ => .ok (.py (.bool false))
     | _ => .error .typeError)
  | _ => .error (unsupported "issubclass")

/-- The builtins (and `utils.tostr`) that occur. -/
def builtin (parseInt : Str → Except PyErr Int) (f : String) (args : List Val) : Except PyErr Val :=
  if f = "int" then
    match args with
    | [.py v] => (match pyInt parseInt v with | .ok n => .ok (.py (.int n)) | .error e => .error e)
    | [_] => .error .typeError
    | _ => .error (unsupported "int arity")
  else if f = "bool" then
    match args with
    | [x] => .ok (.py (.bool x.truthy))
    | _ => .error (unsupported "bool arity")
  else if f = "tostr" || f = "str" then
    match args with
    | [.py v] => .ok (.py (.str (tostr v)))
    | _ => .error (unsupported "str")
  else if f = "hasattr" then
    match args with
    | [x, .py (.str a)] =>
      if a = "lower".toList then .ok (.py (.bool (match x with | .py v => hasLower v | _ => false)))
      else .error (unsupported "hasattr")
    | _ => .error (unsupported "hasattr")
  else if f = "issubclass" then
    match args with
    | [a, b] => pyIsSubclass a b
    | _ => .error .typeError
  else if f = "len" then
    match args with
    | [x] => pyLen x
    | _ => .error .typeError
  else if f = "list" then
    match args with
    | [] => .ok (.list [])
    | [.py (.str s)] => .ok (.list (s.map (fun c => .str [c])))
    | [.list vs] => .ok (.list vs)
    | [.tuple vs] => .ok (.list vs)
    | [.obj fs] => (match fs.lookup listPart with | some (.list vs) => .ok (.list vs) | _ => .error (unsupported "list"))
    | _ => .error (unsupported "list")
  else if f = "range" then
    match args with
    | [.py (.int n)] => .ok (.tuple ((List.range n.toNat).map (fun i => .int (Int.ofNat i))))
    | _ => .error (unsupported "range of something else than one integer")
  else .error (.other "NameError")

/-! ### syntax -/

inductive Expr where
  | const (l : Lit)                                     -- None / 'text' / 12 / True
  | var (x : String)                                    -- a parameter or local variable
  | singleton (x : String)                              -- a module-level singleton object, by name
  | excClass (x : String)                               -- a (builtin or imported) exception class, by name
  | tuple (es : List Expr)                              -- (a, b, …)
  | cmp (op : CmpOp) (a b : Expr)                       -- a == b, a in b, a is not b, …
  | not (a : Expr)
  | and (a b : Expr)
  | or (a b : Expr)
  | call (f : String) (args : List Expr)                -- f(args): a builtin or a function of the module
  | callk (f : String) (args : List Expr) (kws : List String) (kwvals : List Expr)
                                                        -- f(args, k1=v1, …): `kws` and `kwvals` have the same length
  | callv (f : Expr) (args : List Expr)                 -- (f)(args): calling a value
  | attr (e : Expr) (a : String)                        -- e.a
  | meth (e : Expr) (m : String) (args : List Expr)     -- e.m(args)
  | global (x : String)                                 -- a module-level integer constant, read at call time
  | binop (op : BinOp) (a b : Expr)                     -- a + b, a - b, a * b
  | index (e i : Expr)                                  -- e[i]
  | sliceTo (e n : Expr)                                -- e[:n]
  | sliceFrom (e n : Expr)                              -- e[n:]
  | newList                                             -- []
  | newDict                                             -- {}
  | newLock                                             -- threading.Lock()
  | newSet                                              -- set()
  | sliceAll (e : Expr)                                 -- e[:]
  | construct (cls : String) (args : List Expr)         -- C(args) for the class C whose methods are in `Ctx.meths`
  | boundMeth (o m : String)                            -- o.m as a value, o a local variable, m a method of the class
  | avar (x : String)                                   -- a local variable that is a second name of a field of `self`
  | compItems (k v : String) (elt d : Expr)             -- [elt for k, v in d.items()]
  | objAttr (o : String) (n : Expr)                     -- object.__getattribute__(o, n): the plain attribute named by `n`
  | outside (what : String)                             -- a call the interpreter does not model: evaluates to an error
  | elemAttr (e : Expr) (a : String)                    -- e.a, e an item of a list of elements (`l[i].a`): `Ctx.elemAttr`
  | compFor (x : String) (elt it : Expr)                -- [elt for x in it]
  | format (fmt : Str) (args : List Expr)               -- 'fmt' % (args), 'fmt' % arg: the format text is a literal
  | isInstance (e : Expr) (cls : String)                -- isinstance(e, C) for a class C named in the source
  deriving Repr, Inhabited

/-- Does the expression CREATE the list it evaluates to (so that no other name reaches the same object)? -/
def Expr.makesNew : Expr → Bool
  | .sliceTo .. => true
  | .sliceFrom .. => true
  | .newList => true
  | .newDict => true
  | .newLock => true
  | .newSet => true
  | .sliceAll _ => true
  | .construct _ _ => true          -- (a constructor that kept one of its mutable arguments is refused: `callMeth`)
  | .compItems .. => true
  | .compFor .. => true
  | .call f _ => f = "list"         -- the builtin `list(x)` (the guard `aliasOK` checks that no function of the module hides it)
  | .meth _ m _ => m = "split"      -- `text.split(sep)` (a method of `self` never returns a mutable object: `eval`)
  | _ => false

/-- Is the expression a plain local variable? -/
def Expr.isVar : Expr → Bool
  | .var _ => true
  | _ => false

mutual
inductive Stmt where
  | pass
  | assign (x : String) (e : Expr)                      -- x = e
  | expr (e : Expr)                                     -- e
  | ret (e : Expr)                                      -- return e
  | raise (e : Expr)                                    -- raise e
  | ifS (c : Expr) (thenB elseB : List Stmt)            -- if c: … else: …      (elif = an `ifS` in `elseB`)
  | tryS (body : List Stmt) (handlers : List Handler)   -- try: … except …: …
  | whileS (c : Expr) (body : List Stmt)                -- while c: …                 (no `else`)
  | forS (x : String) (it : Expr) (body : List Stmt)    -- for x in it: …             (no `else`)
  | brk                                                 -- break
  | cont                                                -- continue
  | fieldCall (o f m : String) (args : List Expr)       -- o.f.m(args) as a statement (`o` is `self`)
  | setAttr (o f : String) (e : Expr)                   -- o.f = e
  | setItem (o f : String) (k v : Expr)                 -- o.f[k] = v
  | delItem (o f : String) (k : Expr)                   -- del o.f[k]
  | varCall (x m : String) (args : List Expr)           -- x.m(args) as a statement, x a local variable (a list)
  | setItemVar (x : String) (k v : Expr)                -- x[k] = v, x a local variable (a dict)
  | baseCall (o m : String) (args : List Expr)          -- list.m(o, args) as a statement (`o` is `self`, its class derives from list)
  | alias (x o f : String)                              -- x = o.f, making x a second name of the object in the field
  | setItemRef (x : String) (k v : Expr)                -- x[k] = v, x such a second name (of a dict)
  | delItemRef (x : String) (k : Expr)                  -- del x[k], x such a second name (of a dict)
  | refCall (x m : String) (args : List Expr)           -- x.m(args) as a statement, x such a second name (of a list: `pop`, …)
  | forPair (a b : String) (it : Expr) (body : List Stmt)   -- for (a, b) in it: …, `it` giving a list of 2-tuples
  | retBase (o m : String) (args : List Expr)           -- return Base.m(o, args): the method `m` of the base class (`Ctx.baseMeth`)
inductive Handler where
  | mk (type : Option String) (body : List Stmt)        -- `except:` (none) / `except T:` (some T)
  | mkAs (type : String) (name : String) (body : List Stmt)   -- `except T as name:`
end

structure Fun where
  name : String
  params : List (String × Option Expr)                  -- parameter, default
  body : List Stmt

/-! ### semantics -/

abbrev Env := List (String × Val)

/-- How a statement (list) ends. -/
inductive Res where
  | next                     -- fell through to the next statement
  | ret (v : Val)            -- `return v`
  | exc (e : PyErr)          -- an exception is propagating
  | brk                      -- `break` looking for its loop
  | cont                     -- `continue` looking for its loop
  | abort (what : String)    -- the interpreter gives up (a `while` out of fuel): no handler catches this
  deriving Repr, Inhabited

/-- `while c: body` with `fuel` iterations at most (then `abort`). -/
def whileLoop (cond : Env → Except PyErr Val) (body : Env → Env × Res) : Nat → Env → Env × Res
  | 0, env => (env, .abort "while: out of fuel")
  | fuel + 1, env =>
    match cond env with
    | .error e => (env, .exc e)
    | .ok v =>
      if v.truthy then
        (match body env with
         | (env', .next) => whileLoop cond body fuel env'
         | (env', .cont) => whileLoop cond body fuel env'
         | (env', .brk) => (env', .next)
         | r => r)
      else (env, .next)

/-- `for x in items: body`, `bind` being the assignment to the loop variable.  `same env'` says that the list iterated over
still is what it was when the loop started (Python iterates over the live list: this interpreter over the items it had at the
start, which is the same thing as long as `same` holds whenever the next item is fetched); otherwise the interpreter gives up. -/
def forLoop (bind : Env → Val → Env) (body : Env → Env × Res) (same : Env → Bool) : List Val → Env → Env × Res
  | [], env => (env, .next)
  | v :: vs, env =>
    match body (bind env v) with
    | (env', .next) => if same env' then forLoop bind body same vs env' else (env', .abort "for: the list iterated over was changed")
    | (env', .cont) => if same env' then forLoop bind body same vs env' else (env', .abort "for: the list iterated over was changed")
    | (env', .brk) => (env', .next)
    | r => r

/-- What a `for` loop iterates over: the characters of a text, the items of a list or tuple, the keys of a dict. -/
def iterItems : Val → Option (List Val)
  | .py (.str s) => some (s.map (fun c => .py (.str [c])))
  | .py (.tokens ws) => some (ws.map (fun w => .py (.str w)))
  | .list vs => some (vs.map .py)
  | .tuple vs => some (vs.map .py)
  | .dict kvs => some (kvs.map (fun p => .py p.1))
  | .pairs kvs => some (kvs.map (fun p => .tuple [p.1, p.2]))
  | _ => none

/-- What a method of the class does, given the fields of the receiver and the arguments: the fields afterwards (`none`: the
receiver's variable no longer holds an object) and the result of the call. -/
abbrev MethSem := List (String × Field) → List Val → Option (List (String × Field)) × Except PyErr Val

structure Ctx where
  parseInt : Str → Except PyErr Int
  /-- the functions of the module that are visible: positional arguments, keyword arguments -/
  funs : String → Option (List Val → List (String × Val) → Except PyErr Val)
  /-- iterations granted to each `while` loop -/
  fuel : Nat := 0
  /-- module-level constants, read at call time -/
  globals : String → Option Val := fun _ => none
  /-- methods of `self` that are not dumped (static methods around primitives), by name -/
  selfMeth : String → Option (List Val → Except PyErr Val) := fun _ => none
  /-- the class whose dumped methods are in `meths` (its name is its constructor) -/
  cls : String := ""
  /-- the dumped methods of that class that are visible (`methIn`: those EARLIER in the dependency order), by name -/
  meths : String → Option MethSem := fun _ => none
  /-- the attributes of the elements (by number) that the code reads from items of a list of elements: parameters -/
  elemAttr : Nat → String → Option Val := fun _ _ => none
  /-- methods of the base class called as `Base.m(self, args)`: parameters (what they do to the object, what they return) -/
  baseMeth : String → Option MethSem := fun _ => none

/-- `x = v` in an association list (the local variables; the fields of an object): an existing binding is replaced where
it is, a new one is added at the end. -/
def assocSet {α : Type} : List (String × α) → String → α → List (String × α)
  | [], x, v => [(x, v)]
  | (y, w) :: r, x, v => if y = x then (x, v) :: r else (y, w) :: assocSet r x v

/-- May the value `v` of the expression `e` get a further name?  Not when it is a mutable object that `e` did not create
(`list(x)` creates one when `list` is the builtin, i.e. no function of the module has that name). -/
def aliasOK (cx : Ctx) (e : Expr) (v : Val) : Bool :=
  !v.mutable || (e.makesNew && (match e with | .call f _ => (cx.funs f).isNone | _ => true))

/-- The field `o.f`. -/
def getField (env : Env) (o f : String) : Except PyErr Field :=
  match env.lookup o with
  | some (.obj fs) => (match fs.lookup f with | some fv => .ok fv | none => .error (.other "AttributeError"))
  | some _ => .error (unsupported "attribute of something else than self")
  | none => .error (.other "UnboundLocalError")

/-- `o.f = fv` (creating the field when it is new). -/
def putField (env : Env) (o f : String) (fv : Field) : Env × Bool :=
  match env.lookup o with
  | some (.obj fs) => (assocSet env o (.obj (assocSet fs f fv)), true)
  | _ => (env, false)

def toTuple : List Val → Except PyErr Val
  | vs => if vs.all (fun v => match v with | .py _ => true | _ => false)
          then .ok (.tuple (vs.filterMap (fun v => match v with | .py p => some p | _ => none)))
          else .error (unsupported "tuple of objects")

/-- the values of a comprehension, in order; the first error wins; the items must be model values -/
def collectPy : List (Except PyErr Val) → Except PyErr (List PyV)
  | [] => .ok []
  | .error e :: _ => .error e
  | .ok (.py v) :: r => (match collectPy r with | .ok vs => .ok (v :: vs) | .error e => .error e)
  | .ok _ :: _ => .error (unsupported "list of objects")

/-- `d[k] = v` for the dict in the field `o.f` -/
def setItemAt (env : Env) (o f : String) (kv vv : Val) : Env × Res :=
  match getField env o f with
  | .error err => (env, .exc err)
  | .ok (.dict kvs) =>
    (match kv, vv with
     | .py k', .py v' =>
       if hashable k' then ((putField env o f (.dict (dSet kvs k' v'))).1, .next)
       else (env, .exc (unsupported "dict key"))
     | _, _ => (env, .exc (unsupported "dict of objects")))
  | .ok _ => (env, .exc (unsupported "item assignment"))

/-- `del d[k]` for the dict in the field `o.f` (`KeyError` when absent) -/
def delItemAt (env : Env) (o f : String) (kv : Val) : Env × Res :=
  match getField env o f with
  | .error err => (env, .exc err)
  | .ok (.dict kvs) =>
    (match kv with
     | .py k' =>
       if hashable k' then
         (match dGet kvs k' with
          | some _ => ((putField env o f (.dict (dDel kvs k'))).1, .next)
          | none => (env, .exc .keyError))
       else (env, .exc (unsupported "dict key"))
     | _ => (env, .exc (unsupported "dict key")))
  | .ok _ => (env, .exc (unsupported "item deletion"))

def Val.isBound : Val → Bool
  | .bound _ _ => true
  | _ => false

/-- `C(args)`: a new object (no fields yet) on which the dumped `__init__` runs; `__init__` must return `None`. -/
def construct (cx : Ctx) (c : String) (vs : List Val) : Except PyErr Val :=
  if c = cx.cls then
    if vs.any Val.isBound then .error (unsupported "a bound method as an argument") else
    match cx.meths "__init__" with
    | some g =>
      (match g [] vs with
       | (some fs, .ok (.py .none)) => .ok (.obj fs)
       | (some _, .ok _) => .error .typeError
       | (none, .ok _) => .error (unsupported "constructor")
       | (_, .error e) => .error e)
    | none => .error (unsupported "constructor")
  else .error (.other "NameError")

/-- Calling the bound method `o.m` in an EXPRESSION: the method runs on the object the variable `o` holds NOW; it must leave
the object as it is (a change would be lost) and must not return a mutable object (it could be a part of the receiver). -/
def callBound (cx : Ctx) (env : Env) (o m : String) (vs : List Val) : Except PyErr Val :=
  match env.lookup o with
  | some (.obj fs) =>
    if vs.any Val.isBound then .error (unsupported "a bound method as an argument") else
    (match cx.meths m with
     | some g =>
       (match g fs vs with
        | (some fs', r) =>
          if fs' = fs then
            (match r with
             | .ok v => if v.mutable then .error (unsupported "a method returning a mutable object in an expression") else .ok v
             | .error e => .error e)
          else .error (unsupported "a method called in an expression changed its object")
        | (none, _) => .error (unsupported "a method lost its object"))
     | none => .error (.other "AttributeError"))
  | _ => .error (unsupported "bound method of something else than an object")

/-- `x.m(args)` as a STATEMENT, `x` holding an object with the fields `fs`: the dumped method `m` runs on it and the variable
holds what the method left (also when the method raises: what it did before is done). -/
def objCall (cx : Ctx) (env : Env) (x : String) (fs : List (String × Field)) (m : String) (vs : List Val) : Env × Res :=
  if (fs.lookup m).isSome then (env, .exc (unsupported "an attribute that hides a method"))
  else if vs.any Val.isBound then (env, .exc (unsupported "a bound method as an argument"))
  else
    match cx.meths m with
    | none => (env, .exc (.other "AttributeError"))
    | some g =>
      (match g fs vs with
       | (some fs', .ok _) => (assocSet env x (.obj fs'), .next)
       | (some fs', .error e) => (assocSet env x (.obj fs'), .exc e)
       | (none, _) => (env, .abort "a method lost its object"))

mutual
def eval (cx : Ctx) (env : Env) : Expr → Except PyErr Val
  | .const l => .ok (.py l.toPy)
  | .var x => (match env.lookup x with | some v => .ok v | none => .error (.other "UnboundLocalError"))
  | .singleton x => .ok (.singleton x)
  | .excClass x => .ok (.excType x)
  | .tuple es => (match evalList cx env es with | .ok vs => toTuple vs | .error e => .error e)
  | .cmp op a b =>
    (match eval cx env a with
     | .error e => .error e
     | .ok x => (match eval cx env b with | .error e => .error e | .ok y => pyCompare op x y))
  | .not a => (match eval cx env a with | .error e => .error e | .ok x => .ok (.py (.bool (!x.truthy))))
  | .and a b => (match eval cx env a with | .error e => .error e | .ok x => if x.truthy then eval cx env b else .ok x)
  | .or a b => (match eval cx env a with | .error e => .error e | .ok x => if x.truthy then .ok x else eval cx env b)
  | .call f args =>
    (match evalList cx env args with
     | .error e => .error e
     | .ok vs => (match cx.funs f with | some g => g vs [] | none => builtin cx.parseInt f vs))
  | .callk f args kws kwvals =>
    (match evalList cx env args with
     | .error e => .error e
     | .ok vs =>
       (match evalList cx env kwvals with
        | .error e => .error e
        | .ok kvs =>
          if kws.length = kvs.length then
            (match cx.funs f with
             | some g => g vs (kws.zip kvs)
             | none => .error (unsupported "keyword arguments of a builtin"))
          else .error (unsupported "malformed call")))
  | .callv f args =>
    (match eval cx env f with
     | .error e => .error e
     | .ok fv =>
       (match evalList cx env args with
        | .error e => .error e
        | .ok vs => (match fv with | .bound o m => callBound cx env o m vs | _ => callValue fv vs)))
  | .attr e a => (match eval cx env e with | .error err => .error err | .ok x => getAttr x a)
  | .meth e m args =>
    (match eval cx env e with
     | .error err => .error err
     | .ok x =>
       (match evalList cx env args with
        | .error err => .error err
        | .ok vs =>
          (match x with
           | .obj _ =>
             (match cx.selfMeth m with
              | some g =>
                (match g vs with
                 | .ok r => if r.mutable then .error (unsupported "a method of self returning a mutable object") else .ok r
                 | .error err => .error err)
              | none => .error (.other "AttributeError"))
           | _ => callMethod x m vs)))
  | .global x => (match cx.globals x with | some v => .ok v | none => .error (.other "NameError"))
  | .binop op a b =>
    (match eval cx env a with
     | .error e => .error e
     | .ok x => (match eval cx env b with | .error e => .error e | .ok y => pyBinop op x y))
  | .index e i =>
    (match eval cx env e with
     | .error err => .error err
     | .ok x => (match eval cx env i with | .error err => .error err | .ok y => pyIndex x y))
  | .sliceTo e n =>
    (match eval cx env e with
     | .error err => .error err
     | .ok x => (match eval cx env n with | .error err => .error err | .ok y => pySlice true x y))
  | .sliceFrom e n =>
    (match eval cx env e with
     | .error err => .error err
     | .ok x => (match eval cx env n with | .error err => .error err | .ok y => pySlice false x y))
  | .newList => .ok (.list [])
  | .newDict => .ok (.dict [])
  | .newLock => .ok (.lock false)
  | .newSet => .ok (.set [])
  | .sliceAll e => (match eval cx env e with | .error err => .error err | .ok x => pySliceAll x)
  | .construct c args => (match evalList cx env args with | .error err => .error err | .ok vs => construct cx c vs)
  | .boundMeth o m =>
    (match env.lookup o with
     | some (.obj fs) =>
       if (cx.meths m).isSome && (fs.lookup m).isNone then .ok (.bound o m) else .error (.other "AttributeError")
     | some _ => .error (unsupported "bound method of something else than an object")
     | none => .error (.other "UnboundLocalError"))
  | .avar x =>
    (match env.lookup x with
     | some (.ref o f) => (match getField env o f with | .ok fv => .ok fv.toVal | .error err => .error err)
     | some _ => .error (unsupported "a variable that is not a second name of a field")
     | none => .error (.other "UnboundLocalError"))
  | .compItems k v elt d =>
    (match eval cx env d with
     | .error err => .error err
     | .ok (.dict kvs) =>
       (match collectPy (kvs.map (fun p => eval cx (assocSet (assocSet env k (.py p.1)) v (.py p.2)) elt)) with
        | .ok vs => .ok (.list vs)
        | .error err => .error err)
     | .ok _ => .error (unsupported "comprehension over something else than the items of a dict"))
  | .objAttr o n =>
    (match eval cx env n with
     | .error err => .error err
     | .ok (.py (.str a)) =>
       (match env.lookup o with
        | some (.obj fs) => getAttr (.obj fs) (String.ofList a)
        | _ => .error (unsupported "object.__getattribute__ of something else than self"))
     | .ok _ => .error .typeError)
  | .outside what => .error (unsupported what)
  | .elemAttr e a =>
    (match eval cx env e with
     | .error err => .error err
     | .ok (.py (.ancestor u)) => (match cx.elemAttr u a with | some v => .ok v | none => .error (.other "AttributeError"))
     | .ok _ => .error (unsupported "attribute of an item that is not an element"))
  | .compFor x elt it =>
    (match eval cx env it with
     | .error err => .error err
     | .ok (.list vs) =>
       (match collectPy (vs.map (fun v => eval cx (assocSet env x (.py v)) elt)) with
        | .ok rs => .ok (.list rs)
        | .error err => .error err)
     | .ok _ => .error (unsupported "comprehension over something else than a list"))
  | .format fmt args =>
    (match evalList cx env args with
     | .error err => .error err
     | .ok vs =>
       (match pyVals vs with
        | some ps => (match pyFormat fmt ps with | .ok t => .ok (.py (.str t)) | .error err => .error err)
        | none => .error (unsupported "format of an object")))
  | .isInstance e c =>
    (match eval cx env e with
     | .error err => .error err
     | .ok (.py v) => .ok (.py (.bool (typeName v = c)))
     | .ok _ => .error (unsupported "isinstance of an object"))
def evalList (cx : Ctx) (env : Env) : List Expr → Except PyErr (List Val)
  | [] => .ok []
  | e :: es =>
    (match eval cx env e with
     | .error err => .error err
     | .ok v => (match evalList cx env es with | .error err => .error err | .ok vs => .ok (v :: vs)))
end

/-- `raise v` -/
def raiseOf : Val → PyErr
  | .excInst n => excOf n
  | .excType n => excOf n
  | .caught e => e
  | _ => .typeError

/-- Is the propagating exception an instance of the class named `T`? -/
def errIsA (e : PyErr) (T : String) : Bool :=
  T = "Exception" || T = "BaseException" || excOf T = e || (e = .indexSizeError && T = "ValueError")

def catches (ty : Option String) (e : PyErr) : Bool :=
  match ty with | none => true | some T => errIsA e T

mutual
def execS (cx : Ctx) (env : Env) : Stmt → Env × Res
  | .pass => (env, .next)
  | .assign x e =>
    (match eval cx env e with
     | .ok v => if aliasOK cx e v then (assocSet env x v, .next) else (env, .exc (unsupported "a second name for a mutable object"))
     | .error err => (env, .exc err))
  | .expr e => (match eval cx env e with | .ok _ => (env, .next) | .error err => (env, .exc err))
  | .ret e => (match eval cx env e with | .ok v => (env, .ret v) | .error err => (env, .exc err))
  | .raise e => (match eval cx env e with | .ok v => (env, .exc (raiseOf v)) | .error err => (env, .exc err))
  | .ifS c t f =>
    (match eval cx env c with
     | .ok v => if v.truthy then execL cx env t else execL cx env f
     | .error err => (env, .exc err))
  | .tryS body hs =>
    (match execL cx env body with
     | (env', .exc err) => execH cx env' err hs
     | r => r)
  | .whileS c body => whileLoop (fun env => eval cx env c) (fun env => execL cx env body) cx.fuel env
  | .forS x it body =>
    (match eval cx env it with
     | .error err => (env, .exc err)
     | .ok v =>
       (match iterItems v with
        | none => (env, .exc .typeError)
        | some items =>
          if !v.mutable || it.isVar || it.makesNew then
            forLoop (fun env v => assocSet env x v) (fun env => execL cx env body)
              (fun env' => !v.mutable || !it.isVar || decide (eval cx env' it = .ok v)) items env
          else (env, .exc (unsupported "iteration over a field that the loop could change"))))
  | .brk => (env, .brk)
  | .cont => (env, .cont)
  | .fieldCall o f m args =>
    (match evalList cx env args with
     | .error err => (env, .exc err)
     | .ok vs =>
       (match getField env o f with
        | .error err => (env, .exc err)
        | .ok fv =>
          (match mutCall fv m vs with
           | .error err => (env, .exc err)
           | .ok fv' => ((putField env o f fv').1, .next))))
  | .setAttr o f e =>
    (match eval cx env e with
     | .error err => (env, .exc err)
     | .ok v =>
       (match v.toField with
        | none => (env, .exc (unsupported "field value"))
        | some fv =>
          if aliasOK cx e v then
            (match putField env o f fv with
             | (env', true) => (env', .next)
             | (_, false) => (env, .exc (unsupported "attribute of something else than self")))
          else (env, .exc (unsupported "a second name for a mutable object"))))
  | .setItem o f k v =>
    (match eval cx env v with
     | .error err => (env, .exc err)
     | .ok vv =>
       (match eval cx env k with
        | .error err => (env, .exc err)
        | .ok kv =>
          (match getField env o f with
           | .error err => (env, .exc err)
           | .ok (.dict kvs) =>
             (match kv, vv with
              | .py k', .py v' =>
                if hashable k' then ((putField env o f (.dict (dSet kvs k' v'))).1, .next)
                else (env, .exc (unsupported "dict key"))
              | _, _ => (env, .exc (unsupported "dict of objects")))
           | .ok _ => (env, .exc (unsupported "item assignment")))))
  | .delItem o f k =>
    (match eval cx env k with
     | .error err => (env, .exc err)
     | .ok kv =>
       (match getField env o f with
        | .error err => (env, .exc err)
        | .ok (.dict kvs) =>
          (match kv with
           | .py k' =>
             if hashable k' then
               (match dGet kvs k' with
                | some _ => ((putField env o f (.dict (dDel kvs k'))).1, .next)
                | none => (env, .exc .keyError))
             else (env, .exc (unsupported "dict key"))
           | _ => (env, .exc (unsupported "dict key")))
        | .ok _ => (env, .exc (unsupported "item deletion"))))
  | .varCall x m args =>
    (match evalList cx env args with
     | .error err => (env, .exc err)
     | .ok vs =>
       (match env.lookup x with
        | none => (env, .exc (.other "UnboundLocalError"))
        | some (.obj fs) => objCall cx env x fs m vs
        | some xv =>
          (match xv.toField with
           | none => (env, .exc (unsupported "statement method of an object"))
           | some fv =>
             (match mutCall fv m vs with
              | .error err => (env, .exc err)
              | .ok fv' => (assocSet env x fv'.toVal, .next)))))
  | .setItemVar x k v =>
    (match eval cx env v with
     | .error err => (env, .exc err)
     | .ok vv =>
       (match eval cx env k with
        | .error err => (env, .exc err)
        | .ok kv =>
          (match env.lookup x with
           | none => (env, .exc (.other "UnboundLocalError"))
           | some (.dict kvs) =>
             (match kv, vv with
              | .py k', .py v' =>
                if hashable k' then (assocSet env x (.dict (dSet kvs k' v')), .next)
                else (env, .exc (unsupported "dict key"))
              | _, _ => (env, .exc (unsupported "dict of objects")))
           | some _ => (env, .exc (unsupported "item assignment")))))
  | .baseCall o m args =>
    (match evalList cx env args with
     | .error err => (env, .exc err)
     | .ok vs =>
       (match env.lookup o with
        | some (.obj fs) =>
          (match baseCall (fs.lookup listPart) m vs with
           | .error err => (env, .exc err)
           | .ok fv' => ((putField env o listPart fv').1, .next))
        | some _ => (env, .exc (unsupported "list method of something else than self"))
        | none => (env, .exc (.other "UnboundLocalError"))))
  | .alias x o f =>
    (match getField env o f with
     | .error err => (env, .exc err)
     | .ok _ => (assocSet env x (.ref o f), .next))
  | .setItemRef x k v =>
    (match eval cx env v with
     | .error err => (env, .exc err)
     | .ok vv =>
       (match eval cx env k with
        | .error err => (env, .exc err)
        | .ok kv =>
          (match env.lookup x with
           | some (.ref o f) => setItemAt env o f kv vv
           | some _ => (env, .exc (unsupported "a variable that is not a second name of a field"))
           | none => (env, .exc (.other "UnboundLocalError")))))
  | .delItemRef x k =>
    (match eval cx env k with
     | .error err => (env, .exc err)
     | .ok kv =>
       (match env.lookup x with
        | some (.ref o f) => delItemAt env o f kv
        | some _ => (env, .exc (unsupported "a variable that is not a second name of a field"))
        | none => (env, .exc (.other "UnboundLocalError"))))
  | .refCall x m args =>
    (match evalList cx env args with
     | .error err => (env, .exc err)
     | .ok vs =>
       (match env.lookup x with
        | some (.ref o f) =>
          (match getField env o f with
           | .error err => (env, .exc err)
           | .ok fv =>
             (match mutCall fv m vs with
              | .error err => (env, .exc err)
              | .ok fv' => ((putField env o f fv').1, .next)))
        | some _ => (env, .exc (unsupported "a variable that is not a second name of a field"))
        | none => (env, .exc (.other "UnboundLocalError"))))
  | .forPair a b it body =>
    (match eval cx env it with
     | .error err => (env, .exc err)
     | .ok (.pairs kvs) =>
       forLoop (fun env v => match v with | .tuple [x, y] => assocSet (assocSet env a (.py x)) b (.py y) | _ => env)
         (fun env => execL cx env body) (fun env' => decide (eval cx env' it = .ok (.pairs kvs)))
         (kvs.map (fun p => .tuple [p.1, p.2])) env
     | .ok _ => (env, .exc (unsupported "unpacking iteration over something else than a list of pairs")))
  | .retBase o m args =>
    (match evalList cx env args with
     | .error err => (env, .exc err)
     | .ok vs =>
       (match env.lookup o with
        | some (.obj fs) =>
          (match cx.baseMeth m with
           | none => (env, .exc (.other "AttributeError"))
           | some g =>
             (match g fs vs with
              | (some fs', .ok v) => (assocSet env o (.obj fs'), .ret v)
              | (some fs', .error e) => (assocSet env o (.obj fs'), .exc e)
              | (none, _) => (env, .abort "a method lost its object")))
        | some _ => (env, .exc (unsupported "base method of something else than self"))
        | none => (env, .exc (.other "UnboundLocalError"))))
def execL (cx : Ctx) (env : Env) : List Stmt → Env × Res
  | [] => (env, .next)
  | s :: ss =>
    (match execS cx env s with
     | (env', .next) => execL cx env' ss
     | r => r)
def execH (cx : Ctx) (env : Env) (err : PyErr) : List Handler → Env × Res
  | [] => (env, .exc err)
  | .mk ty body :: hs => if catches ty err then execL cx env body else execH cx env err hs
  | .mkAs ty name body :: hs =>
    if catches (some ty) err then execL cx (assocSet env name (.caught err)) body else execH cx env err hs
end

/-- Positional arguments, then keyword arguments by name, then the defaults (evaluated in the empty environment).
`none`: a `TypeError` of the call (missing / surplus argument, unknown keyword, parameter given twice). -/
def bindArgs (cx : Ctx) : List (String × Option Expr) → List Val → List (String × Val) → Option (Except PyErr Env)
  | [], [], kws => if kws.isEmpty then some (.ok []) else none
  | [], _ :: _, _ => none
  | (x, _) :: ps, v :: vs, kws =>
    if (kws.lookup x).isSome then none
    else
      (match bindArgs cx ps vs kws with
       | some (.ok env) => some (.ok ((x, v) :: env))
       | r => r)
  | (x, d) :: ps, [], kws =>
    (match kws.lookup x with
     | some v =>
       (match bindArgs cx ps [] (kws.filter (fun p => p.1 != x)) with
        | some (.ok env) => some (.ok ((x, v) :: env))
        | r => r)
     | none =>
       (match d with
        | none => none
        | some d =>
          (match eval cx [] d with
           | .error e => some (.error e)
           | .ok v =>
             (match bindArgs cx ps [] kws with
              | some (.ok env) => some (.ok ((x, v) :: env))
              | r => r))))

/-- The result of a call from the way its body ended. -/
def resultOf : Res → Except PyErr Val
  | .next => .ok (.py .none)
  | .ret v => .ok v
  | .exc e => .error e
  | .brk => .error (unsupported "break outside a loop")
  | .cont => .error (unsupported "continue outside a loop")
  | .abort w => .error (unsupported w)

/-- Call the function with positional and keyword arguments. Falling off the end returns `None`. -/
def runKw (cx : Ctx) (f : Fun) (args : List Val) (kws : List (String × Val)) : Except PyErr Val :=
  match bindArgs cx f.params args kws with
  | none => .error .typeError
  | some (.error e) => .error e
  | some (.ok env) =>
    resultOf (execL cx env f.body).2

/-- Call the function with positional arguments. -/
def run (cx : Ctx) (f : Fun) (args : List Val) : Except PyErr Val := runKw cx f args []

/-- Call a method on the object `self` (bound to the first parameter): the object afterwards (`none`: the parameter no
longer holds an object) and the result of the call. -/
def runMeth (cx : Ctx) (f : Fun) (self : List (String × Field)) (args : List Val) :
    Option (List (String × Field)) × Except PyErr Val :=
  match bindArgs cx f.params (.obj self :: args) [] with
  | none => (some self, .error .typeError)
  | some (.error e) => (some self, .error e)
  | some (.ok env) =>
    let r := execL cx env f.body
    ((match f.params with
      | (s, _) :: _ => (match r.1.lookup s with | some (.obj fs) => some fs | _ => none)
      | [] => none),
     resultOf r.2)

/-- Do the parameters that received a mutable object still hold it, unchanged, in the environment `env` the call ended
with?  (Arguments are copied in: a callee that changed one would not be seen by the caller.) -/
def argsKept : List (String × Option Expr) → List Val → Env → Bool
  | (x, _) :: ps, v :: vs, env => (!v.mutable || decide (env.lookup x = some v)) && argsKept ps vs env
  | _, _, _ => true

/-- What the method table holds: `runMeth`, refused when the method changed (or rebound) a mutable argument, or returns a
bound method (it names a variable of the callee). -/
def callMeth (cx : Ctx) (f : Fun) (self : List (String × Field)) (args : List Val) :
    Option (List (String × Field)) × Except PyErr Val :=
  match bindArgs cx f.params (.obj self :: args) [] with
  | some (.ok env) =>
    if argsKept (f.params.drop 1) args (execL cx env f.body).1 then
      (match runMeth cx f self args with
       | (s', .ok v) => if v.isBound then (s', .error (unsupported "a bound method as a result")) else (s', .ok v)
       | r => r)
    else ((runMeth cx f self args).1, .error (unsupported "a method changed a mutable argument"))
  | _ => runMeth cx f self args

/-- The dumped methods of a class given LATEST IN THE DEPENDENCY ORDER FIRST: a method sees the methods before it
(`base`: everything else the methods run in). -/
def methIn (base : Ctx) : List Fun → String → Option MethSem
  | [], _ => none
  | f :: earlier, name =>
    if f.name = name then some (callMeth { base with meths := methIn base earlier } f)
    else methIn base earlier name

/-- Look a function up in a module given LATEST DEFINITION FIRST: its body sees the definitions before it. -/
def callIn (parseInt : Str → Except PyErr Int) :
    List Fun → String → Option (List Val → List (String × Val) → Except PyErr Val)
  | [], _ => none
  | f :: earlier, name =>
    if f.name = name then some (runKw { parseInt := parseInt, funs := callIn parseInt earlier } f)
    else callIn parseInt earlier name

/-- Call the function `name` of the module `defs` (definitions in source order). -/
def runModule (parseInt : Str → Except PyErr Int) (defs : List Fun) (name : String) (args : List Val) : Except PyErr Val :=
  match callIn parseInt defs.reverse name with
  | some g => g args []
  | none => .error (.other "NameError")

/-! ### the arguments of the hand model as values -/

def ofInv : Inv → Val
  | .val l => .py l.toPy
  | .raise e => .excType e

def ofEmp : Emp → Val
  | .val l => .py l.toPy
  | .invalid => .singleton "EMPTY_IS_INVALID"

def ofOptInt : Option Int → Val
  | none => .py .none
  | some n => .py (.int n)

def ofMembers (ms : List String) : Val := .tuple (ms.map (fun m => .str m.toList))

def liftPy (r : Except PyErr PyV) : Except PyErr Val :=
  match r with | .ok v => .ok (.py v) | .error e => .error e

end AHP.PyAst
