/-
  AHP.Model.PyAst — the Python SUBSET used by the pure leaf functions of the library (conversions.py, the
  `_special_value_*` helpers, utils.escapeQuotes), as data, and a total big-step interpreter for it.

  `harness/ahpcheck/translate_code.py` dumps the `ast` of those functions into `AHP/Gen/Code.lean` as values of `Fun`
  (a dumb, fail-closed dump: one constructor per Python node); the meaning of the dump is given HERE, where it can be
  read.  `Props/C19Code.lean` proves, for every argument value, that interpreting the dumped code gives what the
  hand-written model (`Model/Conv.lean`) gives — so an edit of the Python function breaks a proof obligation for ALL
  inputs.  This file is the trusted piece of that tie.  What it assumes:

    * values: the `PyV` of the hand model (None, str, int, bool, DOMTokenList, an ancestor element, an opaque object),
      tuples of those, module-level singleton objects of feature-less classes (`EMPTY_IS_INVALID`), exception classes
      and instances (by class name, as `Gen.Inv.raise` does), other classes (only as the result of `x.__class__`), and
      an element `em` = the hand model's element state `Conv.Elem`, whose `tagName`, `getAttribute(name[, default])` and
      `hasAttribute(name)` ARE the hand model's (`Elem.tag`, `Elem.getAttribute genTables`, `Elem.hasAttribute`: Tags.py
      stays hand-modelled) with the tables regenerated from the source;
    * primitives are those of the hand model: `int(x)` = `Conv.pyInt parseInt` (`parseInt` = Python's `int()` on text,
      a parameter), `bool(x)` = `Conv.truthy`, `tostr(x)`/`str(x)` = `Conv.tostr`, `hasattr(x,'lower')` = `Conv.hasLower`,
      `s.lower()` = `AHP.lower` (ASCII), `s.replace(a, b)` = `replaceAll` (below);
    * calls bind positional arguments, then keyword arguments by name, then defaults; an unknown keyword, a parameter given
      twice, a missing or a surplus argument is a `TypeError`;
    * `==` between model values is `pyEqV` (numbers compare across int/bool; an opaque object equals only itself);
      `is` is decided only when one side is a unique object (None, True/False, a singleton, a class) and refuses otherwise;
      `<`/`>`/`<=`/`>=` only between numbers, `TypeError` otherwise (text ordering is refused);
    * exceptions are the enum `PyErr` of the hand model (`raise X` = `excOf` of the class name); `except:` catches
      everything, `except T:` catches `T`, and `IndexSizeErrorException` as a `ValueError` (its base class); every
      exception is an `Exception`;
    * a function body sees the parameters and its own assignments (`var`), and the functions defined EARLIER in the module
      (`callIn`: no recursion, no forward reference — the translator fails closed on both); defaults are evaluated at
      definition time in the empty environment;
    * anything the interpreter does not model evaluates to the error `PyErr.other "unsupported:…"`, never to a value.
-/
import AHP.Model.Basic
import AHP.Model.Conv
namespace AHP.PyAst
open AHP AHP.Gen AHP.Conv

/-! ### values -/

deriving instance DecidableEq for AHP.Conv.Elem

inductive Val where
  | py (v : PyV)                   -- a value of the hand model
  | tuple (vs : List PyV)          -- a tuple (or list) of such values
  | singleton (name : String)      -- the module-level instance of a feature-less class (EMPTY_IS_INVALID, NOT_PROVIDED)
  | excType (name : String)        -- an exception class
  | excInst (name : String)        -- an instance of that exception class
  | cls (name : String)            -- any other class
  | elem (e : Elem)                -- an element (AdvancedTag), as the hand model's element state
  deriving DecidableEq, Repr, Inhabited

def unsupported (what : String) : PyErr := .other ("unsupported:" ++ what)

/-- `bool(x)` -/
def Val.truthy : Val → Bool
  | .py v => Conv.truthy v
  | .tuple vs => !vs.isEmpty
  | _ => true

/-- `a == b` on model values. -/
def pyEqV : PyV → PyV → Bool
  | .none, .none => true
  | .str a, .str b => a = b
  | .int a, .int b => a = b
  | .bool a, .bool b => a = b
  | .int a, .bool b => a = (if b then 1 else 0)
  | .bool a, .int b => (if a then 1 else 0) = b
  | .tokens a, .tokens b => a = b
  | .ancestor i, .ancestor j => i = j
  | .opaque a, .opaque b => a = b
  | _, _ => false

/-- `a == b`; objects of different kinds are never equal; exception instances have identity only (refused). -/
def pyEq (x y : Val) : Except PyErr Bool :=
  match x with
  | .py a => (match y with | .py b => .ok (pyEqV a b) | _ => .ok false)
  | .tuple a => (match y with
      | .tuple b => .ok (a.length = b.length && (a.zip b).all (fun p => pyEqV p.1 p.2))
      | _ => .ok false)
  | .singleton a => (match y with | .singleton b => .ok (a = b) | _ => .ok false)
  | .excType a => (match y with | .excType b => .ok (a = b) | _ => .ok false)
  | .cls a => (match y with | .cls b => .ok (a = b) | _ => .ok false)
  | .excInst _ => (match y with | .excInst _ => .error (unsupported "==") | _ => .ok false)
  | .elem _ => (match y with | .elem _ => .error (unsupported "==") | _ => .ok false)

/-- Objects of which there is exactly one: `is` is then structural equality of the representation. -/
def Val.unique : Val → Bool
  | .py .none => true
  | .py (.bool _) => true
  | .singleton _ => true
  | .excType _ => true
  | .cls _ => true
  | _ => false

/-- `a is b` -/
def pyIs (x y : Val) : Except PyErr Bool :=
  if x.unique || y.unique then .ok (x = y) else .error (unsupported "is")

def numOf : Val → Option Int
  | .py (.int n) => some n
  | .py (.bool b) => some (if b then 1 else 0)
  | _ => none

def isText : Val → Bool
  | .py (.str _) => true
  | _ => false

/-- `a < b` and friends: numbers only (`TypeError` otherwise; the ordering of two texts is refused). -/
def pyOrd (rel : Int → Int → Bool) (x y : Val) : Except PyErr Bool :=
  match numOf x with
  | some a =>
    (match numOf y with
     | some b => .ok (rel a b)
     | none => .error .typeError)
  | none => if isText x && isText y then .error (unsupported "<") else .error .typeError

/-- `x in c`: `c` a tuple (any element equal to `x`). -/
def pyIn (x c : Val) : Except PyErr Bool :=
  match c with
  | .tuple vs => (match x with
      | .py a => .ok (vs.any (fun e => pyEqV a e))
      | .excInst _ => .error (unsupported "in")
      | .elem _ => .error (unsupported "in")
      | _ => .ok false)
  | _ => .error (unsupported "in")

inductive CmpOp where
  | eq | ne | lt | gt | le | ge | is | isNot | isIn | notIn
  deriving DecidableEq, Repr, Inhabited

def bnot (r : Except PyErr Bool) : Except PyErr Bool :=
  match r with | .ok b => .ok (!b) | .error e => .error e

def compareB (op : CmpOp) (x y : Val) : Except PyErr Bool :=
  match op with
  | .eq => pyEq x y
  | .ne => bnot (pyEq x y)
  | .lt => pyOrd (fun a b => decide (a < b)) x y
  | .gt => pyOrd (fun a b => decide (a > b)) x y
  | .le => pyOrd (fun a b => decide (a ≤ b)) x y
  | .ge => pyOrd (fun a b => decide (a ≥ b)) x y
  | .is => pyIs x y
  | .isNot => bnot (pyIs x y)
  | .isIn => pyIn x y
  | .notIn => bnot (pyIn x y)

def pyCompare (op : CmpOp) (x y : Val) : Except PyErr Val :=
  match compareB op x y with | .ok b => .ok (.py (.bool b)) | .error e => .error e

/-- `type(v).__name__` for a model value. -/
def typeName : PyV → String
  | .none => "NoneType"
  | .str _ => "str"
  | .int _ => "int"
  | .bool _ => "bool"
  | .tokens _ => "DOMTokenList"
  | .ancestor _ => "AdvancedTag"
  | .opaque w => w

/-- `x.a` — `__class__` of anything, `tagName` of an element. -/
def getAttr (x : Val) (a : String) : Except PyErr Val :=
  if a = "__class__" then
    match x with
    | .py v => .ok (.cls (typeName v))
    | .tuple _ => .ok (.cls "tuple")
    | .singleton n => .ok (.cls (n ++ ".__class__"))
    | .excInst n => .ok (.excType n)
    | .excType _ => .ok (.cls "type")
    | .cls _ => .ok (.cls "type")
    | .elem _ => .ok (.cls "AdvancedTag")
  else if a = "tagName" then
    match x with
    | .elem e => .ok (.py (.str e.tag.toList))
    | _ => .error (unsupported "attribute tagName")
  else .error (unsupported ("attribute " ++ a))

/-- `s.replace(a, b)` for a non-empty `a` (left to right, non-overlapping), with fuel = length of `s`. -/
def replaceFuel (a b : Str) : Nat → Str → Str
  | 0, s => s
  | fuel + 1, s =>
    match s with
    | [] => []
    | c :: r => if a.isPrefixOf (c :: r) then b ++ replaceFuel a b fuel ((c :: r).drop a.length)
                else c :: replaceFuel a b fuel r

def replaceAll (a b s : Str) : Str := replaceFuel a b (s.length + 1) s

/-- `x.m(args)` — `str.lower()`, `str.replace(old, new)` with a non-empty `old`; `em.getAttribute(name[, default])`,
`em.hasAttribute(name)` (the hand model's, over the generated tables). -/
def callMethod (x : Val) (m : String) (args : List Val) : Except PyErr Val :=
  match x with
  | .py (.str s) =>
    if m = "lower" then
      (match args with
       | [] => .ok (.py (.str (lower s)))
       | _ => .error .typeError)
    else if m = "replace" then
      (match args with
       | [.py (.str a), .py (.str b)] =>
         if a = [] then .error (unsupported "replace of the empty string") else .ok (.py (.str (replaceAll a b s)))
       | _ => .error .typeError)
    else .error (unsupported ("method " ++ m))
  | .elem e =>
    if m = "getAttribute" then
      (match args with
       | [.py (.str n)] => .ok (.py (e.getAttribute genTables (String.ofList n) .none))
       | [.py (.str n), .py d] => .ok (.py (e.getAttribute genTables (String.ofList n) d))
       | _ => .error (unsupported "getAttribute"))
    else if m = "hasAttribute" then
      (match args with
       | [.py (.str n)] => .ok (.py (.bool (e.hasAttribute (String.ofList n))))
       | _ => .error (unsupported "hasAttribute"))
    else .error (unsupported ("method " ++ m))
  | _ => .error (.other "AttributeError")

/-- `f(args)` for a value `f`: instantiating an exception class. -/
def callValue (f : Val) (_args : List Val) : Except PyErr Val :=
  match f with
  | .excType n => .ok (.excInst n)
  | .cls _ => .error (unsupported "instantiation")
  | _ => .error .typeError

/-- `issubclass(a, b)` where `b` is an exception class. -/
def pyIsSubclass (a b : Val) : Except PyErr Val :=
  match b with
  | .excType m =>
    (match a with
     | .excType n =>
       if m = "Exception" || m = "BaseException" || n = m then .ok (.py (.bool true))
       else .error (unsupported "issubclass")
     | .cls _ => .ok (.py (.bool false))
     | _ => .error .typeError)
  | _ => .error (unsupported "issubclass")

/-- The builtins (and `utils.tostr`) that occur. -/
def builtin (parseInt : Str → Except PyErr Int) (f : String) (args : List Val) : Except PyErr Val :=
  if f = "int" then
    match args with
    | [.py v] => (match pyInt parseInt v with | .ok n => .ok (.py (.int n)) | .error e => .error e)
    | [_] => .error .typeError
    | _ => .error (unsupported "int arity")
  else if f = "bool" then
    match args with
    | [x] => .ok (.py (.bool x.truthy))
    | _ => .error (unsupported "bool arity")
  else if f = "tostr" || f = "str" then
    match args with
    | [.py v] => .ok (.py (.str (tostr v)))
    | _ => .error (unsupported "str")
  else if f = "hasattr" then
    match args with
    | [x, .py (.str a)] =>
      if a = "lower".toList then .ok (.py (.bool (match x with | .py v => hasLower v | _ => false)))
      else .error (unsupported "hasattr")
    | _ => .error (unsupported "hasattr")
  else if f = "issubclass" then
    match args with
    | [a, b] => pyIsSubclass a b
    | _ => .error .typeError
  else .error (.other "NameError")

/-! ### syntax -/

inductive Expr where
  | const (l : Lit)                                     -- None / 'text' / 12 / True
  | var (x : String)                                    -- a parameter or local variable
  | singleton (x : String)                              -- a module-level singleton object, by name
  | excClass (x : String)                               -- a (builtin or imported) exception class, by name
  | tuple (es : List Expr)                              -- (a, b, …)
  | cmp (op : CmpOp) (a b : Expr)                       -- a == b, a in b, a is not b, …
  | not (a : Expr)
  | and (a b : Expr)
  | or (a b : Expr)
  | call (f : String) (args : List Expr)                -- f(args): a builtin or a function of the module
  | callk (f : String) (args : List Expr) (kws : List String) (kwvals : List Expr)
                                                        -- f(args, k1=v1, …): `kws` and `kwvals` have the same length
  | callv (f : Expr) (args : List Expr)                 -- (f)(args): calling a value
  | attr (e : Expr) (a : String)                        -- e.a
  | meth (e : Expr) (m : String) (args : List Expr)     -- e.m(args)
  deriving Repr, Inhabited

mutual
inductive Stmt where
  | pass
  | assign (x : String) (e : Expr)                      -- x = e
  | expr (e : Expr)                                     -- e
  | ret (e : Expr)                                      -- return e
  | raise (e : Expr)                                    -- raise e
  | ifS (c : Expr) (thenB elseB : List Stmt)            -- if c: … else: …      (elif = an `ifS` in `elseB`)
  | tryS (body : List Stmt) (handlers : List Handler)   -- try: … except …: …
inductive Handler where
  | mk (type : Option String) (body : List Stmt)        -- `except:` (none) / `except T:` (some T)
end

structure Fun where
  name : String
  params : List (String × Option Expr)                  -- parameter, default
  body : List Stmt

/-! ### semantics -/

abbrev Env := List (String × Val)

structure Ctx where
  parseInt : Str → Except PyErr Int
  /-- the functions of the module that are visible: positional arguments, keyword arguments -/
  funs : String → Option (List Val → List (String × Val) → Except PyErr Val)

def toTuple : List Val → Except PyErr Val
  | vs => if vs.all (fun v => match v with | .py _ => true | _ => false)
          then .ok (.tuple (vs.filterMap (fun v => match v with | .py p => some p | _ => none)))
          else .error (unsupported "tuple of objects")

mutual
def eval (cx : Ctx) (env : Env) : Expr → Except PyErr Val
  | .const l => .ok (.py l.toPy)
  | .var x => (match env.lookup x with | some v => .ok v | none => .error (.other "UnboundLocalError"))
  | .singleton x => .ok (.singleton x)
  | .excClass x => .ok (.excType x)
  | .tuple es => (match evalList cx env es with | .ok vs => toTuple vs | .error e => .error e)
  | .cmp op a b =>
    (match eval cx env a with
     | .error e => .error e
     | .ok x => (match eval cx env b with | .error e => .error e | .ok y => pyCompare op x y))
  | .not a => (match eval cx env a with | .error e => .error e | .ok x => .ok (.py (.bool (!x.truthy))))
  | .and a b => (match eval cx env a with | .error e => .error e | .ok x => if x.truthy then eval cx env b else .ok x)
  | .or a b => (match eval cx env a with | .error e => .error e | .ok x => if x.truthy then .ok x else eval cx env b)
  | .call f args =>
    (match evalList cx env args with
     | .error e => .error e
     | .ok vs => (match cx.funs f with | some g => g vs [] | none => builtin cx.parseInt f vs))
  | .callk f args kws kwvals =>
    (match evalList cx env args with
     | .error e => .error e
     | .ok vs =>
       (match evalList cx env kwvals with
        | .error e => .error e
        | .ok kvs =>
          if kws.length = kvs.length then
            (match cx.funs f with
             | some g => g vs (kws.zip kvs)
             | none => .error (unsupported "keyword arguments of a builtin"))
          else .error (unsupported "malformed call")))
  | .callv f args =>
    (match eval cx env f with
     | .error e => .error e
     | .ok fv => (match evalList cx env args with | .error e => .error e | .ok vs => callValue fv vs))
  | .attr e a => (match eval cx env e with | .error err => .error err | .ok x => getAttr x a)
  | .meth e m args =>
    (match eval cx env e with
     | .error err => .error err
     | .ok x => (match evalList cx env args with | .error err => .error err | .ok vs => callMethod x m vs))
def evalList (cx : Ctx) (env : Env) : List Expr → Except PyErr (List Val)
  | [] => .ok []
  | e :: es =>
    (match eval cx env e with
     | .error err => .error err
     | .ok v => (match evalList cx env es with | .error err => .error err | .ok vs => .ok (v :: vs)))
end

/-- How a statement (list) ends. -/
inductive Res where
  | next                     -- fell through to the next statement
  | ret (v : Val)            -- `return v`
  | exc (e : PyErr)          -- an exception is propagating
  deriving Repr, Inhabited

/-- `raise v` -/
def raiseOf : Val → PyErr
  | .excInst n => excOf n
  | .excType n => excOf n
  | _ => .typeError

/-- Is the propagating exception an instance of the class named `T`? -/
def errIsA (e : PyErr) (T : String) : Bool :=
  T = "Exception" || T = "BaseException" || excOf T = e || (e = .indexSizeError && T = "ValueError")

def catches (ty : Option String) (e : PyErr) : Bool :=
  match ty with | none => true | some T => errIsA e T

mutual
def execS (cx : Ctx) (env : Env) : Stmt → Env × Res
  | .pass => (env, .next)
  | .assign x e => (match eval cx env e with | .ok v => ((x, v) :: env, .next) | .error err => (env, .exc err))
  | .expr e => (match eval cx env e with | .ok _ => (env, .next) | .error err => (env, .exc err))
  | .ret e => (match eval cx env e with | .ok v => (env, .ret v) | .error err => (env, .exc err))
  | .raise e => (match eval cx env e with | .ok v => (env, .exc (raiseOf v)) | .error err => (env, .exc err))
  | .ifS c t f =>
    (match eval cx env c with
     | .ok v => if v.truthy then execL cx env t else execL cx env f
     | .error err => (env, .exc err))
  | .tryS body hs =>
    (match execL cx env body with
     | (env', .exc err) => execH cx env' err hs
     | r => r)
def execL (cx : Ctx) (env : Env) : List Stmt → Env × Res
  | [] => (env, .next)
  | s :: ss =>
    (match execS cx env s with
     | (env', .next) => execL cx env' ss
     | r => r)
def execH (cx : Ctx) (env : Env) (err : PyErr) : List Handler → Env × Res
  | [] => (env, .exc err)
  | .mk ty body :: hs => if catches ty err then execL cx env body else execH cx env err hs
end

/-- Positional arguments, then keyword arguments by name, then the defaults (evaluated in the empty environment).
`none`: a `TypeError` of the call (missing / surplus argument, unknown keyword, parameter given twice). -/
def bindArgs (cx : Ctx) : List (String × Option Expr) → List Val → List (String × Val) → Option (Except PyErr Env)
  | [], [], kws => if kws.isEmpty then some (.ok []) else none
  | [], _ :: _, _ => none
  | (x, _) :: ps, v :: vs, kws =>
    if (kws.lookup x).isSome then none
    else
      (match bindArgs cx ps vs kws with
       | some (.ok env) => some (.ok ((x, v) :: env))
       | r => r)
  | (x, d) :: ps, [], kws =>
    (match kws.lookup x with
     | some v =>
       (match bindArgs cx ps [] (kws.filter (fun p => p.1 != x)) with
        | some (.ok env) => some (.ok ((x, v) :: env))
        | r => r)
     | none =>
       (match d with
        | none => none
        | some d =>
          (match eval cx [] d with
           | .error e => some (.error e)
           | .ok v =>
             (match bindArgs cx ps [] kws with
              | some (.ok env) => some (.ok ((x, v) :: env))
              | r => r))))

/-- Call the function with positional and keyword arguments. Falling off the end returns `None`. -/
def runKw (cx : Ctx) (f : Fun) (args : List Val) (kws : List (String × Val)) : Except PyErr Val :=
  match bindArgs cx f.params args kws with
  | none => .error .typeError
  | some (.error e) => .error e
  | some (.ok env) =>
    (match (execL cx env f.body).2 with
     | .next => .ok (.py .none)
     | .ret v => .ok v
     | .exc e => .error e)

/-- Call the function with positional arguments. -/
def run (cx : Ctx) (f : Fun) (args : List Val) : Except PyErr Val := runKw cx f args []

/-- Look a function up in a module given LATEST DEFINITION FIRST: its body sees the definitions before it. -/
def callIn (parseInt : Str → Except PyErr Int) :
    List Fun → String → Option (List Val → List (String × Val) → Except PyErr Val)
  | [], _ => none
  | f :: earlier, name =>
    if f.name = name then some (runKw { parseInt := parseInt, funs := callIn parseInt earlier } f)
    else callIn parseInt earlier name

/-- Call the function `name` of the module `defs` (definitions in source order). -/
def runModule (parseInt : Str → Except PyErr Int) (defs : List Fun) (name : String) (args : List Val) : Except PyErr Val :=
  match callIn parseInt defs.reverse name with
  | some g => g args []
  | none => .error (.other "NameError")

/-! ### the arguments of the hand model as values -/

def ofInv : Inv → Val
  | .val l => .py l.toPy
  | .raise e => .excType e

def ofEmp : Emp → Val
  | .val l => .py l.toPy
  | .invalid => .singleton "EMPTY_IS_INVALID"

def ofOptInt : Option Int → Val
  | none => .py .none
  | some n => .py (.int n)

def ofMembers (ms : List String) : Val := .tuple (ms.map (fun m => .str m.toList))

def liftPy (r : Except PyErr PyV) : Except PyErr Val :=
  match r with | .ok v => .ok (.py v) | .error e => .error e

end AHP.PyAst
