/-
  AHP.Model.Builder — `AdvancedHTMLParser.handle_*`, `_reset`, `feed` (Parser.py) and the validating variant
  (Validator.py) as a step function over the open-element stack.

  The code attaches a child to its parent when the child is *opened*; the model keeps the open elements as
  a zipper of frames and attaches when the frame is *closed* (or at end of input: `finish`).  Both give the
  same tree; what the model cannot express is aliasing, which the DOM model (AHP.Model.Dom) covers.
-/
import AHP.Model.Tree
namespace AHP

/-- An open element: `self._inTag[i]`, with the blocks appended so far (newest first). -/
structure Frame where
  name : Str
  attrs : AttrState
  rev : List Node
  deriving Repr, Inhabited

def Frame.close (f : Frame) : Node := .elem f.name f.attrs false f.rev.reverse

/-- Parser state: `_inTag` (innermost first), the root once it is complete, `doctype`. -/
structure BState where
  stack : List Frame
  root : Option Node
  doctype : Option Str
  deriving Repr, Inhabited

def BState.init : BState := ⟨[], none, none⟩

/-- `self.root is not None` -/
def BState.hasRoot (s : BState) : Bool := !s.stack.isEmpty || s.root.isSome

inductive Outcome where
  | ok (s : BState)
  | multipleRoot                 -- MultipleRootNodeException
  | invalidClose                 -- validating parser only
  | missedClose
  | invalidAttr
  deriving Repr, Inhabited

/-- append a finished block to the innermost open element, or make it the root -/
def addNode (s : BState) (c : Node) : BState :=
  match s.stack with
  | f :: fs => { s with stack := { f with rev := c :: f.rev } :: fs }
  | [] => { s with root := some c }

/-- `inTag.pop()` -/
def pop1 (s : BState) : BState :=
  match s.stack with
  | f :: fs => addNode { s with stack := fs } f.close
  | [] => s

/-- `while inTag[-1].tagName != tagName: inTag.pop()` then `inTag.pop()` (the caller checked presence) -/
def popTo (n : Str) : Nat → BState → BState
  | 0, s => s
  | k + 1, s =>
    match s.stack with
    | f :: _ => if f.name = n then pop1 s else popTo n k (pop1 s)
    | [] => s

def isBlank (s : Str) : Bool := (strip s).isEmpty

/-- `handle_starttag` / `handle_startendtag` -/
def handleStart (s : BState) (n : Str) (a : List Attr) (selfClosing : Bool) : Outcome :=
  let n := lower n
  let sc := selfClosing || isVoid n
  let attrs := intake a AttrState.empty
  if !s.hasRoot || !s.stack.isEmpty then
    if sc then .ok (addNode s (.elem n attrs true []))
    else .ok { s with stack := ⟨n, attrs, []⟩ :: s.stack }
  else .multipleRoot

def handleEnd (s : BState) (n : Str) : BState :=
  if (s.stack.map (·.name)).contains n then popTo n s.stack.length s else s

/-- text-like callbacks that insist on an open element -/
def addTextStrict (s : BState) (t : Str) : Outcome :=
  if s.stack.isEmpty then .multipleRoot else .ok (addNode s (.text t))

def step (s : BState) : Token → Outcome
  | .start n a => handleStart s n a false
  | .startend n a => handleStart s n a true
  | .end_ n => .ok (handleEnd s n)
  | .data d =>
    if d.isEmpty then .ok s
    else if !s.stack.isEmpty then .ok (addNode s (.text d))
    else if isBlank d then .ok s else .multipleRoot
  | .entity e => addTextStrict s ('&' :: e ++ [';'])
  | .charref c => addTextStrict s ('&' :: '#' :: c ++ [';'])
  | .comment c => addTextStrict s ("<!--".toList ++ c ++ "-->".toList)
  | .decl d => .ok { s with doctype := some d }
  | .unknownDecl d =>
    match s.doctype with
    | some d0 => if d0.isEmpty then .ok { s with doctype := some d } else .ok s
    | none => .ok { s with doctype := some d }
  | .pi _ => .ok s

def run (s : BState) : List Token → Outcome
  | [] => .ok s
  | t :: ts => match step s t with
    | .ok s' => run s' ts
    | o => o

/-- end of input: everything still open is closed (the tree is already linked in the code) -/
def closeAll : Nat → BState → BState
  | 0, s => s
  | k + 1, s => match s.stack with
    | [] => s
    | _ :: _ => closeAll k (pop1 s)

def finish (s : BState) : BState := closeAll s.stack.length s

/-- The parsed document as the public API shows it. -/
structure Doc where
  doctype : Option Str
  root : Option Node
  deriving Repr, Inhabited

def BState.doc (s : BState) : Doc := ⟨s.doctype, (finish s).root⟩

def wsNL (s : Str) : Bool :=
  -- `[\n]*[ \t]*` of DOCTYPE_MATCH
  ((s.dropWhile (· = '\n')).dropWhile (fun c => c = ' ' || c = '\t')).isEmpty

/-- token-level `addStartTag(contents, '<xxxblank>') + '</xxxblank>'`: the wrapper start goes after a leading
    doctype (optionally preceded by newlines then blanks), else in front. -/
def wrapToks (toks : List Token) : List Token :=
  let w := Token.start wrapperName []
  let e := Token.end_ wrapperName
  match toks with
  | .decl d :: r => .decl d :: w :: r ++ [e]
  | .data ws :: .decl d :: r => if wsNL ws then .data ws :: .decl d :: w :: r ++ [e] else w :: toks ++ [e]
  | _ => w :: toks ++ [e]

inductive FeedResult where
  | doc (d : Doc) (secondPass : Bool)
  | raised (o : Outcome)
  deriving Repr, Inhabited

/-- `feed` after `reset`: first pass; on MultipleRootNodeException reset and parse inside the wrapper. -/
def feedTokens (toks : List Token) : FeedResult :=
  match run BState.init toks with
  | .ok s => .doc s.doc false
  | .multipleRoot =>
    match run BState.init (wrapToks toks) with
    | .ok s => .doc s.doc true
    | o => .raised o
  | o => .raised o

/-- `getRootNodes` -/
def Doc.rootNodes (d : Doc) : List Node :=
  match d.root with
  | none => []
  | some (.elem n a sc kids) =>
    if n = wrapperName then kids.filter (fun k => !k.isText) else [.elem n a sc kids]
  | some t => [t]

def Doc.html (d : Doc) : Option Str := d.root.map (docHTML d.doctype)

/-! ### validating parser (Validator.py) -/

def vStep (s : BState) : Token → Outcome
  | .start n a =>
    if a.all (fun p => validAttrName p.1) then handleStart s n a false else .invalidAttr
  | .startend n a =>
    -- `handle_startendtag` calls the overridden `handle_starttag`
    if a.all (fun p => validAttrName p.1) then handleStart s n a true else .invalidAttr
  | .end_ n =>
    match s.stack with
    | [] => .invalidClose
    | f :: _ =>
      if !(s.stack.map (·.name)).contains n then .invalidClose
      else if f.name ≠ n then .missedClose
      else .ok (pop1 s)
  | t => step s t

def vRun (s : BState) : List Token → Outcome
  | [] => .ok s
  | t :: ts => match vStep s t with
    | .ok s' => vRun s' ts
    | o => o

def vFeedTokens (toks : List Token) : FeedResult :=
  match vRun BState.init toks with
  | .ok s => .doc s.doc false
  | .multipleRoot =>
    match vRun BState.init (wrapToks toks) with
    | .ok s => .doc s.doc true
    | o => .raised o
  | o => .raised o

end AHP
