/-
  AHP.Model.Builder — `AdvancedHTMLParser.handle_*`, `_reset`, `feed` (Parser.py) and the validating variant
  (Validator.py) as a step function over the open-element stack.

  The code attaches a child to its parent when the child is *opened*; the model keeps the open elements as
  a zipper of frames and attaches when the frame is *closed* (or at end of input: `finish`).  Both give the
  same tree; what the model cannot express is aliasing, which the DOM model (AHP.Model.Dom) covers.
-/
import AHP.Model.Tree
namespace AHP

/-- An open element: `self._inTag[i]`, with the blocks appended so far (newest first). -/
structure Frame where
  name : Str
  attrs : AttrState
  rev : List Node
  deriving Repr, Inhabited

def Frame.close (f : Frame) : Node := .elem f.name f.attrs false f.rev.reverse

/-- The tree part of the parser state: `_inTag` (innermost first) and the root once it is complete. -/
structure TState where
  stack : List Frame
  root : Option Node
  deriving Repr, Inhabited

def TState.init : TState := ⟨[], none⟩

/-- `self.root is not None` -/
def TState.hasRoot (s : TState) : Bool := !s.stack.isEmpty || s.root.isSome

inductive Outcome (σ : Type) where
  | ok (s : σ)
  | multipleRoot                 -- MultipleRootNodeException
  | invalidClose                 -- validating parser only
  | missedClose
  | invalidAttr
  deriving Repr, Inhabited

/-- append a finished block to the innermost open element, or make it the root -/
def addNode (s : TState) (c : Node) : TState :=
  match s.stack with
  | f :: fs => { s with stack := { f with rev := c :: f.rev } :: fs }
  | [] => { s with root := some c }

/-- `inTag.pop()` -/
def pop1 (s : TState) : TState :=
  match s.stack with
  | f :: fs => addNode { s with stack := fs } f.close
  | [] => s

/-- `while inTag[-1].tagName != tagName: inTag.pop()` then `inTag.pop()` (the caller checked presence) -/
def popTo (n : Str) : Nat → TState → TState
  | 0, s => s
  | k + 1, s =>
    match s.stack with
    | f :: _ => if f.name = n then pop1 s else popTo n k (pop1 s)
    | [] => s

/-- `handle_starttag` / `handle_startendtag` -/
def handleStart (s : TState) (n : Str) (a : List Attr) (selfClosing : Bool) : Outcome TState :=
  let n := lower n
  let sc := selfClosing || isVoid n
  let attrs := intake a AttrState.empty
  if !s.hasRoot || !s.stack.isEmpty then
    if sc then .ok (addNode s (.elem n attrs true []))
    else .ok { s with stack := ⟨n, attrs, []⟩ :: s.stack }
  else .multipleRoot

def handleEnd (s : TState) (n : Str) : TState :=
  if (s.stack.map (·.name)).contains n then popTo n s.stack.length s else s

/-- text-like callbacks that insist on an open element -/
def addTextStrict (s : TState) (t : Str) : Outcome TState :=
  if s.stack.isEmpty then .multipleRoot else .ok (addNode s (.text t))

/-- the handlers' effect on the tree (`handle_decl`, `unknown_decl`, `handle_pi` do not touch it) -/
def stepT (s : TState) : Token → Outcome TState
  | .start n a => handleStart s n a false
  | .startend n a => handleStart s n a true
  | .end_ n => .ok (handleEnd s n)
  | .data d =>
    if d.isEmpty then .ok s
    else if !s.stack.isEmpty then .ok (addNode s (.text d))
    else if isBlank d then .ok s else .multipleRoot
  | .entity e => addTextStrict s ('&' :: e ++ [';'])
  | .charref c => addTextStrict s ('&' :: '#' :: c ++ [';'])
  | .comment c => addTextStrict s ("<!--".toList ++ c ++ "-->".toList)
  | .decl _ => .ok s
  | .unknownDecl _ => .ok s
  | .pi _ => .ok s

/-- `handle_decl` / `unknown_decl`: every declaration replaces the doctype, an unknown declaration only fills a gap -/
def stepD (dt : Option Str) : Token → Option Str
  | .decl d => some d
  | .unknownDecl d =>
    match dt with
    | some d0 => if d0.isEmpty then some d else dt
    | none => some d
  | _ => dt

/-- Parser state: the tree part and `doctype`. -/
structure BState where
  tree : TState
  doctype : Option Str
  deriving Repr, Inhabited

def BState.init : BState := ⟨TState.init, none⟩

def Outcome.map {σ τ : Type} (f : σ → τ) : Outcome σ → Outcome τ
  | .ok s => .ok (f s)
  | .multipleRoot => .multipleRoot
  | .invalidClose => .invalidClose
  | .missedClose => .missedClose
  | .invalidAttr => .invalidAttr

/-- one tokenizer callback -/
def step (s : BState) (t : Token) : Outcome BState :=
  (stepT s.tree t).map (fun tr => ⟨tr, stepD s.doctype t⟩)

def runT (s : TState) : List Token → Outcome TState
  | [] => .ok s
  | t :: ts => match stepT s t with
    | .ok s' => runT s' ts
    | .multipleRoot => .multipleRoot
    | .invalidClose => .invalidClose
    | .missedClose => .missedClose
    | .invalidAttr => .invalidAttr

def run (s : BState) : List Token → Outcome BState
  | [] => .ok s
  | t :: ts => match step s t with
    | .ok s' => run s' ts
    | .multipleRoot => .multipleRoot
    | .invalidClose => .invalidClose
    | .missedClose => .missedClose
    | .invalidAttr => .invalidAttr

/-- end of input: everything still open is closed (the tree is already linked in the code) -/
def closeAll : Nat → TState → TState
  | 0, s => s
  | k + 1, s => match s.stack with
    | [] => s
    | _ :: _ => closeAll k (pop1 s)

def finish (s : TState) : TState := closeAll s.stack.length s

def BState.doc (s : BState) : Doc := ⟨s.doctype, (finish s.tree).root⟩

/-- token-level `addStartTag(contents, '<xxxblank>') + '</xxxblank>'`: the wrapper start goes after a leading
    doctype (optionally preceded by newlines then blanks), else in front. -/
def wrapToks (toks : List Token) : List Token :=
  let w := Token.start wrapperName []
  let e := Token.end_ wrapperName
  match leadDoctype toks with
  | some (pre, r) => pre ++ w :: r ++ [e]
  | none => w :: toks ++ [e]

inductive FeedResult where
  | doc (d : Doc) (secondPass : Bool)
  | raised (e : Exc)
  deriving Repr, Inhabited

/-- `feed` after `reset`: first pass; on MultipleRootNodeException reset and parse inside the wrapper. -/
def Outcome.exc {σ : Type} : Outcome σ → Exc
  | .ok _ => .multipleRoot     -- not used on `ok`
  | .multipleRoot => .multipleRoot
  | .invalidClose => .invalidClose
  | .missedClose => .missedClose
  | .invalidAttr => .invalidAttr

/-! ### `utils.addStartTag` at character level -/

/-- text up to and including the first `q` -/
def takeThrough (q : Char) : Str → Option (Str × Str)
  | [] => none
  | c :: cs => if c = q then some ([c], cs) else
      match takeThrough q cs with
      | some (a, b) => some (c :: a, b)
      | none => none

/-- `DOCTYPE_MATCH.match(contents)`: `[\n]*[ \t]*<!doctype[^>]*>` (letters of either case) at the very start;
    returns the matched prefix and what follows it -/
def doctypePrefix (s : Str) : Option (Str × Str) :=
  let nl := s.takeWhile (· = '\n')
  let r1 := s.dropWhile (· = '\n')
  let bl := r1.takeWhile (fun c => c = ' ' || c = '\t')
  let r2 := r1.dropWhile (fun c => c = ' ' || c = '\t')
  match r2 with
  | '<' :: '!' :: r3 =>
    if lower (r3.take 7) = "doctype".toList then
      match takeThrough '>' (r3.drop 7) with
      | some (a, b) => some (nl ++ bl ++ ('<' :: '!' :: r3.take 7) ++ a, b)
      | none => none
    else none
  | _ => none

/-- `addStartTag(contents, startTag)` -/
def addStartTagStr (contents startTag : Str) : Str :=
  match doctypePrefix contents with
  | some (pre, rest) => pre ++ startTag ++ rest
  | none => startTag ++ contents

/-- the text of the second pass: `addStartTag(contents, '<xxxblank>') + '</xxxblank>'` -/
def wrapStr (contents : Str) : Str :=
  addStartTagStr contents ('<' :: wrapperName ++ ['>']) ++ ('<' :: '/' :: wrapperName ++ ['>'])

/-- a pass that is not retried: its document or its exception -/
def FeedResult.ofPass (second : Bool) : Outcome BState → FeedResult
  | .ok s => .doc s.doc second
  | o => .raised o.exc

def feedTokens (toks : List Token) : FeedResult :=
  match run BState.init toks with
  | .multipleRoot => FeedResult.ofPass true (run BState.init (wrapToks toks))
  | o => FeedResult.ofPass false o

/-- `getRootNodes` -/
def Doc.rootNodes (d : Doc) : List Node :=
  match d.root with
  | none => []
  | some (.elem n a sc kids) =>
    if n = wrapperName then kids.filter (fun k => !k.isText) else [.elem n a sc kids]
  | some t => [t]

def Doc.html (d : Doc) : Option Str := d.root.map (docHTML d.doctype)

/-! ### validating parser (Validator.py) -/

def vStepT (s : TState) : Token → Outcome TState
  | .start n a =>
    if a.all (fun p => validAttrName p.1) then handleStart s n a false else .invalidAttr
  | .startend n a =>
    -- `handle_startendtag` calls the overridden `handle_starttag`
    if a.all (fun p => validAttrName p.1) then handleStart s n a true else .invalidAttr
  | .end_ n =>
    match s.stack with
    | [] => .invalidClose
    | f :: _ =>
      if !(s.stack.map (·.name)).contains n then .invalidClose
      else if f.name ≠ n then .missedClose
      else .ok (pop1 s)
  | t => stepT s t

def vStep (s : BState) (t : Token) : Outcome BState :=
  (vStepT s.tree t).map (fun tr => ⟨tr, stepD s.doctype t⟩)

def vRun (s : BState) : List Token → Outcome BState
  | [] => .ok s
  | t :: ts => match vStep s t with
    | .ok s' => vRun s' ts
    | .multipleRoot => .multipleRoot
    | .invalidClose => .invalidClose
    | .missedClose => .missedClose
    | .invalidAttr => .invalidAttr

def vFeedTokens (toks : List Token) : FeedResult :=
  match vRun BState.init toks with
  | .multipleRoot => FeedResult.ofPass true (vRun BState.init (wrapToks toks))
  | o => FeedResult.ofPass false o

/-! ### the object across calls: `_reset`, `feed` on a used object, `parseStr` (C03)

Additions for C03 ("without leaving the object unusable for the next parse"); nothing above changes. -/

/-- `_reset`, field by field: `self.root = None; self.doctype = None; self._inTag = []` (the tokenizer's own
    `HTMLParser.reset` is outside the model).  That these three assignments cover the WHOLE model state is
    `C03.reset_restores_init`. -/
def BState.reset (s : BState) : BState :=
  { s with tree := { s.tree with stack := [], root := none }, doctype := none }

/-- which exception an outcome is, if any -/
def Outcome.err {σ : Type} : Outcome σ → Option Exc
  | .ok _ => none
  | .multipleRoot => some .multipleRoot
  | .invalidClose => some .invalidClose
  | .missedClose => some .missedClose
  | .invalidAttr => some .invalidAttr

/-- One pass that also says in which state the object is LEFT.  Every raising handler raises before it
    assigns anything (`handle_starttag` builds `newTag` and raises in the `else:`; the text handlers only
    raise), so after an exception the object is in the state it had before the offending token — elements
    still open, root set, doctype set, whatever the earlier tokens did. -/
def runS (s : BState) : List Token → BState × Option Exc
  | [] => (s, none)
  | t :: ts => match step s t with
    | .ok s' => runS s' ts
    | o => (s, o.err)

/-- `feed(contents)` on the object AS IT IS (`feed` itself does not reset — a second `feed` continues the
    document): the pass; on MultipleRootNodeException `self.reset()` and the wrapped text. -/
def feedS (s : BState) (toks : List Token) : BState × Option Exc :=
  match runS s toks with
  | (s1, some .multipleRoot) => runS s1.reset (wrapToks toks)
  | r => r

/-- `parseStr` / `parseFile`: `self.reset()`, then `feed`. -/
def parseStrS (s : BState) (toks : List Token) : BState × Option Exc := feedS s.reset toks

/-- what a caller sees after `parseStr`: the document, or the exception -/
def resultOf (second : Bool) (r : BState × Option Exc) : FeedResult :=
  match r.2 with
  | none => .doc r.1.doc second
  | some e => .raised e

/-! #### `handle_endtag` with the failure of `inTag[-1]` on an empty list explicit

`handleEnd`/`popTo` above are total because the code wraps the body in `try: … except: pass`.  The variant
below keeps the IndexError (`none`): `C03.handleEnd_never_index_error` shows it never happens — the bare
`except` of `handle_endtag` is dead code, not a totalisation the model hides behind. -/

def popToE (n : Str) : Nat → TState → Option TState
  | 0, _ => none                      -- `inTag[-1]` on `[]`: the loop ran the list empty
  | k + 1, s =>
    match s.stack with
    | f :: _ => if f.name = n then some (pop1 s) else popToE n k (pop1 s)
    | [] => none                      -- IndexError

def handleEndE (s : TState) (n : Str) : Option TState :=
  if (s.stack.map (·.name)).contains n then popToE n s.stack.length s else some s

end AHP
