/-
  AHP.Model.Conv — executable model of the typed DOM properties (C19, DESIGN §4 M12):

    conversions.py      convertToIntOrNegativeOneIfUnset, convertToBooleanString, convertBooleanStringToBoolean,
                        convertToPositiveInt, _handleInvalid, convertPossibleValues, convertToIntRange,
                        convertToIntRangeCapped                                  (all of the file)
    constants.py        the *shapes* of the special-value lambdas and `_special_value_*` helpers (`evalRule`);
                        their literal arguments and all tables come from `AHP.Gen` (regenerated from the source)
    Tags.py             AdvancedTag.__getattribute__ / __setattr__ dispatch, getAttribute, setAttribute,
                        hasAttribute, removeAttribute, isValidAttributeName, className
    SpecialAttributes   SpecialAttributesDict.__getitem__/__setitem__/__delitem__/__contains__/get/keys
                        (the spellcheck branches, the lazy `class` key), DOMTokenList.__init__ (string form)
    utils.py            tostr, stripWordsOnly

  Python values are `PyV`, raising calls are `Except PyErr`.  Python's `int()` on text is a parameter
  `parseInt : Str → Except PyErr Int` of everything that converts; `pyIntOfStr` is the ASCII/Unicode-decimal exact
  executable instance the driver runs (CPython 3.12: padding, sign, underscores, Unicode decimal digits, the
  4300-digit limit).
-/
import AHP.Model.Basic
import AHP.Gen.Tables
namespace AHP.Conv
open AHP AHP.Gen

/-- Exceptions, by the small enum the harness canonicalises to. -/
inductive PyErr where
  | valueError
  | typeError
  | keyError
  | indexSizeError
  | other (name : String)
  deriving DecidableEq, Repr, Inhabited

/-- Python values that flow through the typed properties. -/
inductive PyV where
  | none
  | str (s : Str)
  | int (n : Int)
  | bool (b : Bool)
  | tokens (ws : List Str)        -- a DOMTokenList
  | ancestor (i : Nat)            -- the i-th ancestor element (0 = parent)
  | opaque (what : String)        -- an object the model does not look into (the StyleAttribute)
  deriving DecidableEq, Repr, Inhabited

def _root_.AHP.Gen.Lit.toPy : Lit → PyV
  | .none => .none
  | .str s => .str s.toList
  | .int n => .int n
  | .bool b => .bool b

/-- `bool(v)` -/
def truthy : PyV → Bool
  | .none => false
  | .str s => !s.isEmpty
  | .int n => n != 0
  | .bool b => b
  | .tokens ws => !ws.isEmpty
  | .ancestor _ => true
  | .opaque _ => true

/-- `utils.tostr(v)` (= `str(v)`). -/
def tostr : PyV → Str
  | .none => str "None"
  | .str s => s
  | .int n => (toString n).toList
  | .bool true => str "True"
  | .bool false => str "False"
  | .tokens ws => joinWith [' '] ws
  | .ancestor _ => str "<AdvancedTag>"
  | .opaque w => w.toList

/-- `hasattr(v, 'lower')` -/
def hasLower : PyV → Bool
  | .str _ => true
  | _ => false

/-! ### Python `int()` -/

/-- Code points of the digit zero of every Unicode 15.0 decimal-digit block (CPython 3.12 `unicodedata`). -/
def decZeros : List Nat :=
  [0x30, 0x660, 0x6f0, 0x7c0, 0x966, 0x9e6, 0xa66, 0xae6, 0xb66, 0xbe6, 0xc66, 0xce6, 0xd66, 0xde6, 0xe50, 0xed0,
   0xf20, 0x1040, 0x1090, 0x17e0, 0x1810, 0x1946, 0x19d0, 0x1a80, 0x1a90, 0x1b50, 0x1bb0, 0x1c40, 0x1c50, 0xa620,
   0xa8d0, 0xa900, 0xa9d0, 0xa9f0, 0xaa50, 0xabf0, 0xff10, 0x104a0, 0x10d30, 0x11066, 0x110f0, 0x11136, 0x111d0,
   0x112f0, 0x11450, 0x114d0, 0x11650, 0x116c0, 0x11730, 0x118e0, 0x11950, 0x11c50, 0x11d50, 0x11da0, 0x11f50,
   0x16a60, 0x16ac0, 0x16b50, 0x1d7ce, 0x1d7d8, 0x1d7e2, 0x1d7ec, 0x1d7f6, 0x1e140, 0x1e2f0, 0x1e4f0, 0x1e950,
   0x1fbf0]

def digitVal? (c : Char) : Option Nat :=
  let n := c.toNat
  (decZeros.find? (fun z => z ≤ n && n < z + 10)).map (fun z => n - z)

/-- What `int()` skips around the number: ASCII `Py_ISSPACE` (not 0x1c–0x1f: ASCII text is taken verbatim), and the
non-ASCII `str.isspace()` characters, which `_PyUnicode_TransformDecimalAndSpaceToASCII` turns into a blank. -/
def isIntSpace (c : Char) : Bool :=
  let n := c.toNat
  (9 ≤ n && n ≤ 13) || n == 32 || n == 0x85 || n == 0xa0 || n == 0x1680 || (0x2000 ≤ n && n ≤ 0x200a)
  || n == 0x2028 || n == 0x2029 || n == 0x202f || n == 0x205f || n == 0x3000

/-- digits with single underscores between them; returns value, digit count, rest. `pd` = previous char was a digit. -/
def scanDigits : Str → Nat → Nat → Bool → Option (Nat × Nat × Str)
  | [], acc, cnt, pd => if pd then some (acc, cnt, []) else none
  | c :: r, acc, cnt, pd =>
    if c = '_' then (if pd then scanDigits r acc cnt false else none)
    else match digitVal? c with
      | some d => scanDigits r (acc * 10 + d) (cnt + 1) true
      | none => if pd then some (acc, cnt, c :: r) else none

/-- `int(s)` for a `str` argument, base 10. The only failure is `ValueError`. -/
def pyIntOfStr (s : Str) : Except PyErr Int :=
  let s1 := s.dropWhile isIntSpace
  let (neg, s2) : Bool × Str := match s1 with
    | '+' :: r => (false, r)
    | '-' :: r => (true, r)
    | _ => (false, s1)
  match scanDigits s2 0 0 false with
  | none => .error .valueError
  | some (v, cnt, rest) =>
    if rest.all isIntSpace && cnt ≤ 4300 then .ok (if neg then -(Int.ofNat v) else Int.ofNat v)
    else .error .valueError

/-- `int(v)` for the values that reach it. -/
def pyInt (parseInt : Str → Except PyErr Int) : PyV → Except PyErr Int
  | .str s => parseInt s
  | .int n => .ok n
  | .bool b => .ok (if b then 1 else 0)
  | _ => .error .typeError

/-! ### conversions.py -/

def isNoneOrEmpty : PyV → Bool
  | .none => true
  | .str [] => true
  | _ => false

/-- convertToIntOrNegativeOneIfUnset: `-1` if unset, `0` on any failure of `int()` (bare `except`). -/
def convertToIntOrNegativeOneIfUnset (parseInt : Str → Except PyErr Int) (val : PyV) : PyV :=
  if isNoneOrEmpty val then .int (-1)
  else match pyInt parseInt val with
    | .ok n => .int n
    | .error _ => .int 0

/-- convertToBooleanString -/
def convertToBooleanString (val : PyV) : Str :=
  match val with
  | .str s => let l := lower s; if l = str "false" || l = str "0" then str "false" else str "true"
  | v => if truthy v then str "true" else str "false"

/-- convertBooleanStringToBoolean -/
def convertBooleanStringToBoolean (val : PyV) : Bool :=
  if !truthy val then false
  else match val with
    | .str s => !(lower s = str "false")
    | _ => true

/-- convertToPositiveInt (its `invalidDefault` is returned as is, never raised). -/
def convertToPositiveInt (parseInt : Str → Except PyErr Int) (val : PyV) (invalid : Lit) : PyV :=
  match val with
  | .none => invalid.toPy
  | v => match pyInt parseInt v with
    | .error _ => invalid.toPy
    | .ok n => if n < 0 then invalid.toPy else .int n

def excOf (name : String) : PyErr :=
  if name = "IndexSizeErrorException" then .indexSizeError
  else if name = "ValueError" then .valueError
  else if name = "TypeError" then .typeError
  else if name = "KeyError" then .keyError
  else .other name

/-- _handleInvalid -/
def handleInvalid : Inv → Except PyErr PyV
  | .val l => .ok l.toPy
  | .raise e => .error (excOf e)

def handleEmpty (invalid : Inv) : Emp → Except PyErr PyV
  | .invalid => handleInvalid invalid
  | .val l => .ok l.toPy

/-- convertPossibleValues (`.lower()` is ASCII here; DESIGN §7). -/
def convertPossibleValues (val : PyV) (members : List String) (invalid : Inv) (empty : Emp) : Except PyErr PyV :=
  match val with
  | .none => handleEmpty invalid empty
  | v =>
    let s := lower (tostr v)
    if s = [] then handleEmpty invalid empty
    else if members.contains (String.ofList s) then .ok (.str s)
    else handleInvalid invalid

/-- convertToIntRange: only `ValueError` of `int()` is caught. -/
def convertToIntRange (parseInt : Str → Except PyErr Int) (val : PyV) (lo hi : Option Int) (invalid : Inv) (empty : Emp) :
    Except PyErr PyV :=
  if isNoneOrEmpty val then handleEmpty invalid empty
  else match pyInt parseInt val with
    | .error .valueError => handleInvalid invalid
    | .error e => .error e
    | .ok n =>
      if (match lo with | some l => decide (n < l) | none => false) then handleInvalid invalid
      else if (match hi with | some h => decide (n > h) | none => false) then handleInvalid invalid
      else .ok (.int n)

def clampLo (lo : Option Int) (n : Int) : Int :=
  match lo with | some l => if n < l then l else n | none => n
def clampHi (hi : Option Int) (n : Int) : Int :=
  match hi with | some h => if n > h then h else n | none => n

/-- convertToIntRangeCapped -/
def convertToIntRangeCapped (parseInt : Str → Except PyErr Int) (val : PyV) (lo hi : Option Int) (invalid : Inv) (empty : Emp) :
    Except PyErr PyV :=
  if isNoneOrEmpty val then handleEmpty invalid empty
  else match pyInt parseInt val with
    | .error .valueError => handleInvalid invalid
    | .error e => .error e
    | .ok n => .ok (.int (clampHi hi (clampLo lo n)))

/-- utils.stripWordsOnly: strip, then every run of two or more blanks becomes one blank. -/
def squeezeBlanks : Str → Str
  | ' ' :: ' ' :: r => squeezeBlanks (' ' :: r)
  | c :: r => c :: squeezeBlanks r
  | [] => []

/-- `str.isspace()` / what `str.strip()` removes (CPython 3.12, Unicode 15). -/
def isPySpace (c : Char) : Bool :=
  let n := c.toNat
  (9 ≤ n && n ≤ 13) || (0x1c ≤ n && n ≤ 0x20) || n == 0x85 || n == 0xa0 || n == 0x1680 || (0x2000 ≤ n && n ≤ 0x200a)
  || n == 0x2028 || n == 0x2029 || n == 0x202f || n == 0x205f || n == 0x3000

/-- `s.strip()` -/
def pyStrip (s : Str) : Str := ((s.dropWhile isPySpace).reverse.dropWhile isPySpace).reverse

def stripWordsOnly (s : Str) : Str := squeezeBlanks (pyStrip s)

/-- `[x for x in s.split(' ') if x]` -/
def wordsOf (s : Str) : List Str := (splitChar ' ' s).filter (fun w => !w.isEmpty)

/-- DOMTokenList(v): a string is stripped to words; `None` (a value-less attribute) has no tokens; numbers are not
iterable (`TypeError`). -/
def domTokenList : PyV → Except PyErr PyV
  | .none => .ok (.tokens [])
  | .str s =>
    let t := stripWordsOnly s
    if t = [] then .ok (.tokens []) else .ok (.tokens (splitChar ' ' t))
  | .tokens ws => .ok (.tokens ws)
  | _ => .error .typeError

/-! ### the element and its attribute store -/

def lowerS (s : String) : String := String.ofList (lower s.toList)

structure Tables where
  links : List String
  tagProps : List (String × List String)
  renames : List (String × String)
  booleans : List String
  boolStrings : List String
  events : List String
  specials : List (String × Rule)
  validated : List (String × Rule)
  rawAttrs : List String

def genTables : Tables :=
  { links := Gen.propLinks, tagProps := Gen.tagProps, renames := Gen.propRenames, booleans := Gen.booleanAttrs,
    boolStrings := Gen.booleanStringAttrs, events := Gen.eventAttrs, specials := Gen.specialRules,
    validated := Gen.validatedProps, rawAttrs := Gen.rawTagAttrs }

structure Elem where
  tag : String
  attrs : List (String × Option Str)      -- the underlying dict, insertion-ordered; `none` = value-less attribute
  classNames : List Str
  pyattrs : List (String × PyV)           -- plain Python attributes set through object.__setattr__
  ancestors : List String                 -- tag names of the ancestors, nearest first
  deriving Repr, Inhabited

def Elem.new (tag : String) (ancestors : List String := []) : Elem :=
  { tag := tag, attrs := [], classNames := [], pyattrs := [], ancestors := ancestors }

def dictSet {β} (k : String) (v : β) : List (String × β) → List (String × β)
  | [] => [(k, v)]
  | (k', v') :: r => if k' = k then (k, v) :: r else (k', v') :: dictSet k v r

/-- `del d[k]` (keys of a dict are unique; every entry with that key goes). -/
def dictDel {β} (k : String) : List (String × β) → List (String × β)
  | [] => []
  | (k', v') :: r => if k' = k then dictDel k r else (k', v') :: dictDel k r

/-- AdvancedTag.className: `str(self.classList)` -/
def Elem.className (e : Elem) : Str := joinWith [' '] e.classNames

/-- `__setattr__`'s className branch (also reached through `_attributes['class'] = v`). -/
def Elem.setClassName (e : Elem) (v : PyV) : Elem :=
  -- `className = None` means no class names, not the name "None" (fix 9cd4d4b)
  { e with classNames := wordsOf (stripWordsOnly (match v with | .none => [] | v => tostr v)) }

/-- SpecialAttributesDict.__contains__ -/
def Elem.dictContains (e : Elem) (key : String) : Bool :=
  let k := lowerS key
  if k = "class" then !e.classNames.isEmpty else (e.attrs.lookup k).isSome

/-- `dict.__getitem__` with the `except KeyError: None` of the callers: the text, `None` when absent or value-less. -/
def entryVal : Option (Option Str) → PyV
  | some (some v) => .str v
  | _ => .none

/-- SpecialAttributesDict.__getitem__ -/
def Elem.dictGetItem (T : Tables) (e : Elem) (key : String) : PyV :=
  let k := lowerS key
  if k = "style" then .opaque "style"
  else if k = "class" then .str e.className
  else if T.boolStrings.contains k then .str (convertToBooleanString (entryVal (e.attrs.lookup k)))
  else entryVal (e.attrs.lookup k)

/-- `key in self.keys()` after `_handleClassAttr` (the style key is never present here: the style is empty). -/
def Elem.inKeys (e : Elem) (k : String) : Bool :=
  if k = "class" then !e.classNames.isEmpty
  else if k = "style" then false
  else (e.attrs.lookup k).isSome

/-- SpecialAttributesDict.get -/
def Elem.dictGet (T : Tables) (e : Elem) (key : String) (dflt : PyV) : PyV :=
  let k := lowerS key
  if k = "class" then .str e.className
  else if k = "style" || e.inKeys k then e.dictGetItem T k
  else dflt

/-- AdvancedTag.getAttribute -/
def Elem.getAttribute (T : Tables) (e : Elem) (name : String) (dflt : PyV) : PyV :=
  if T.booleans.contains name then
    if e.dictContains name then
      let v := e.dictGetItem T name
      if !truthy v then .bool true else v
    else .bool false
  else e.dictGet T name dflt

/-- AdvancedTag.hasAttribute -/
def Elem.hasAttribute (e : Elem) (name : String) : Bool := e.dictContains (lowerS name)

def isAlphaC (c : Char) : Bool := ('a' ≤ c && c ≤ 'z') || ('A' ≤ c && c ≤ 'Z')
def isAlnumC (c : Char) : Bool := isAlphaC c || ('0' ≤ c && c ≤ '9')

/-- Tags.isValidAttributeName (ASCII) -/
def isValidAttributeName (name : String) : Bool :=
  match name.toList with
  | [] => false
  | c :: r => (isAlphaC c || c = '_') && (c :: r).all (fun x => isAlnumC x || x = '-' || x = '_')

/-- SpecialAttributesDict.__setitem__ -/
def Elem.dictSetItem (T : Tables) (e : Elem) (key : String) (v : PyV) : Except PyErr Elem :=
  let k := lowerS key
  if k = "style" then .error (.other "style-not-modelled")
  else if k = "class" then .ok (e.setClassName v)
  else if T.boolStrings.contains k then .ok { e with attrs := dictSet k (some (convertToBooleanString v)) e.attrs }
  else match v with
    | .str s => .ok { e with attrs := dictSet k (some s) e.attrs }
    | .none => .ok { e with attrs := dictSet k none e.attrs }
    | _ => .error (.other "non-string-attribute-value")

/-- AdvancedTag.setAttribute -/
def Elem.setAttribute (T : Tables) (e : Elem) (name : String) (v : PyV) : Except PyErr Elem :=
  if !isValidAttributeName name then .error .keyError else e.dictSetItem T name v

/-- AdvancedTag.removeAttribute -/
def Elem.removeAttribute (e : Elem) (name : String) : Elem :=
  let k := lowerS name
  if k = "style" then e
  else if k = "class" then { e with classNames := [] }
  else { e with attrs := dictDel k e.attrs }

/-- `AdvancedTag(tag, attrList)`: the constructor's loop (what the parser calls). -/
def Elem.ofAttrList (T : Tables) (tag : String) (ancestors : List String) : List (String × Option Str) → Elem → Elem
  | [], e => e
  | (k, v) :: r, e =>
    let k' := lowerS k
    if !isValidAttributeName k' then Elem.ofAttrList T tag ancestors r e
    else match e.dictSetItem T k' (match v with | some s => .str s | none => .none) with
      | .ok e' => Elem.ofAttrList T tag ancestors r e'
      | .error _ => Elem.ofAttrList T tag ancestors r e

/-- `getAttributesList()`: the dict after `_handleClassAttr` (the `class` key appended when there are class names and
the key was not there yet — it never is in this model, `class` is routed to `classNames`). -/
def Elem.attributesList (e : Elem) : List (String × Option Str) :=
  if e.classNames.isEmpty then e.attrs else e.attrs ++ [("class", some e.className)]

/-! ### special values (constants.py) -/

def nearest (name : String) : List String → Nat → PyV
  | [], _ => .none
  | t :: r, i => if t = name then .ancestor i else nearest name r (i + 1)

def evalConv (parseInt : Str → Except PyErr Int) (c : Conv) (v : PyV) : Except PyErr PyV :=
  match c with
  | .raw => .ok v
  | .tokens => domTokenList v
  | .intOrMinusOne => .ok (convertToIntOrNegativeOneIfUnset parseInt v)
  | .positiveInt inv => .ok (convertToPositiveInt parseInt v inv)
  | .possible ms inv emp => convertPossibleValues v ms inv emp
  | .intRange lo hi inv emp => convertToIntRange parseInt v lo hi inv emp
  | .intCapped lo hi inv emp => convertToIntRangeCapped parseInt v lo hi inv emp

/-- One entry of TAG_ITEM_ATTRIBUTES_SPECIAL_VALUES applied to an element. -/
def evalRule (T : Tables) (parseInt : Str → Except PyErr Int) (e : Elem) : Rule → Except PyErr PyV
  | .conv c attr dflt => evalConv parseInt c (e.getAttribute T attr dflt.toPy)
  | .parentTag name => .ok (nearest name e.ancestors 0)
  | .byTag tag a b => if e.tag = tag then evalRule T parseInt e a else evalRule T parseInt e b
  | .maxLength attr absent dflt lo hi emp getInv _ =>
    if !e.hasAttribute attr then .ok absent.toPy
    else convertToIntRange parseInt (e.getAttribute T attr dflt.toPy) lo hi getInv emp

/-- An entry of TAG_ITEM_ATTRIBUTES_SPECIAL_VALIDATION applied to a new value (`_special_value_maxLength(em, v)`). -/
def validateRule (parseInt : Str → Except PyErr Int) (v : PyV) : Rule → Except PyErr Unit
  | .maxLength _ _ _ lo hi emp _ setInv => (convertToIntRange parseInt v lo hi setInv emp).map (fun _ => ())
  | _ => .error (.other "validation-not-modelled")

/-! ### dispatch of `__getattribute__` / `__setattr__` -/

inductive GetKind where
  | className
  | special (r : Rule)
  | boolStr (attr : String)
  | boolean (attr : String)
  | string (attr : String) (dflt : Lit)
  deriving DecidableEq, Repr, Inhabited

inductive SetKind where
  | className
  | boolStr (attr : String)
  | boolean (attr : String)
  | string (attr : String)
  deriving DecidableEq, Repr, Inhabited

/-- What a linked dot name does on read, on assignment, and the validation run before the assignment. -/
structure Disp where
  get : GetKind
  set : SetKind
  validate : Option Rule
  deriving DecidableEq, Repr, Inhabited

def isLinked (T : Tables) (tag prop : String) : Bool :=
  T.links.contains prop || ((T.tagProps.lookup tag).getD []).contains prop

def renamed (T : Tables) (prop : String) : String := (T.renames.lookup prop).getD prop

/-- The read path after the `object.__getattribute__` short cut (class attributes of AdvancedTag: `className`). -/
def getKind (T : Tables) (prop : String) : GetKind :=
  if prop = "className" then .className
  else match T.specials.lookup prop with
    | some r => .special r
    | none =>
      let name := renamed T prop
      if T.boolStrings.contains name then .boolStr name
      else if T.booleans.contains name then .boolean name
      else .string name (if T.events.contains name then .none else .str "")

def setKind (T : Tables) (prop : String) : SetKind :=
  if prop = "className" then .className
  else
    let name := renamed T prop
    if T.boolStrings.contains name then .boolStr name
    else if T.booleans.contains name then .boolean name
    else .string name

/-- `none`: the name is not a linked property of this element type. -/
def dispatch (T : Tables) (tag prop : String) : Option Disp :=
  if prop = "className" then some { get := .className, set := .className, validate := none }
  else if isLinked T tag prop then
    some { get := getKind T prop, set := setKind T prop, validate := T.validated.lookup prop }
  else none

def evalGet (T : Tables) (parseInt : Str → Except PyErr Int) (e : Elem) : GetKind → Except PyErr PyV
  | .className => .ok (.str e.className)
  | .special r => evalRule T parseInt e r
  | .boolStr a => .ok (.bool (convertBooleanStringToBoolean (e.getAttribute T a .none)))
  | .boolean a => .ok (.bool (match e.getAttribute T a (.bool false) with | .bool false => false | _ => true))
  | .string a d => .ok (e.getAttribute T a d.toPy)

/-- `getattr(em, prop)` -/
def getProp (T : Tables) (parseInt : Str → Except PyErr Int) (e : Elem) (prop : String) : Except PyErr PyV :=
  match e.pyattrs.lookup prop with
  | some v => .ok v
  | none =>
    match dispatch T e.tag prop with
    | some d => evalGet T parseInt e d.get
    | none => .ok .none

def evalSet (T : Tables) (e : Elem) (v : PyV) : SetKind → Except PyErr Elem
  | .className => .ok (e.setClassName v)
  | .boolStr a => e.setAttribute T a v
  | .boolean a => if !truthy v then .ok (e.removeAttribute a) else e.setAttribute T a (.str [])
  | .string a => e.setAttribute T a (.str (tostr v))

/-- `setattr(em, prop, v)` -/
def setProp (T : Tables) (parseInt : Str → Except PyErr Int) (e : Elem) (prop : String) (v : PyV) : Except PyErr Elem :=
  if T.rawAttrs.contains prop then .ok { e with pyattrs := dictSet prop v e.pyattrs }
  else match dispatch T e.tag prop with
    | some d =>
      match (match d.validate with | some r => validateRule parseInt v r | none => .ok ()) with
      | .error err => .error err
      | .ok () => evalSet T e v d.set
    | none =>
      if prop = "style" then .error (.other "style-not-modelled")
      else .ok { e with pyattrs := dictSet prop v e.pyattrs }

end AHP.Conv
