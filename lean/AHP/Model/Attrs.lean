/-
  AHP.Model.Attrs — M8: the attribute store of an element as the code has it.

  Anchors: `SpecialAttributes.py` (`SpecialAttributesDict`, `AttributeNodeMap`, `StyleAttribute`,
  `DOMTokenList`), `Tags.py` (`AdvancedTag.__init__`, `__setattr__`, `__getattribute__`,
  `getAttribute … removeAttribute`, `addClass/removeClass/hasClass`, `className/classList`,
  `getStyle/setStyle/setStyles`, `getStartTag`, `cloneNode`, `__copy__`, `__getstate__/__setstate__`,
  `__repr__`), `utils.stripWordsOnly/escapeQuotes`.

  State of one element (`El`):
    * `dict` — the Python `dict` underneath `SpecialAttributesDict` (insertion ordered association list).
      A slot is an ordinary value (`None` or a string), the string snapshot that `_handleClassAttr` wrote
      under the key `class`, or the style object under the key `style`;
    * `cls`  — `_classNames`, the authoritative list of class names;
    * `sty`  — `style._styleDict`, the ordered name → value map of the current style object.
  The `class` key of `dict` is maintained *lazily*: only `_handleClassAttr` (called by `items()`, `keys()`,
  `__iter__`, `__repr__`) writes or deletes it.  Every read path that synchronises is therefore a function
  returning the new state as well (`items`, `keys`, `mapGet`, `getAttribute`, `attrsList`, `startTagItems` …).
  The `style` key is maintained eagerly by `StyleAttribute._ensureHtmlAttribute` and again by `_handleClassAttr`.

  The typed-property tables of `constants.py` enter as a parameter `Tables` (the theorems hold for every
  table; the correspondence check sends the rows of the real tables with each case).

  The model follows the repaired code (known_findings.d/C08.json, C09.json, C10.json list the `fix:` commits).
-/
import AHP.Model.Basic
namespace AHP.Attrs
open AHP

/-! ### Python `dict` / `OrderedDict` as an insertion-ordered association list -/

abbrev AL (α : Type) := List (Str × α)

/-- `d[k]` / `d.get(k)` -/
def aget (k : Str) : AL α → Option α
  | [] => none
  | (k', v) :: r => if k' = k then some v else aget k r

/-- `k in d` -/
def ahas (k : Str) (d : AL α) : Bool := (aget k d).isSome

/-- `d[k] = v`: an existing key keeps its position, a new key goes last. -/
def aset (k : Str) (v : α) : AL α → AL α
  | [] => [(k, v)]
  | (k', v') :: r => if k' = k then (k', v) :: r else (k', v') :: aset k v r

/-- `del d[k]` (no error when absent: every call site catches `KeyError`). -/
def adel (k : Str) (d : AL α) : AL α := d.filter (fun p => decide (p.1 ≠ k))

def akeys (d : AL α) : List Str := d.map (·.1)

/-! ### Characters and strings -/

def isAlpha (c : Char) : Bool := ('a' ≤ c && c ≤ 'z') || ('A' ≤ c && c ≤ 'Z')
def isDigit (c : Char) : Bool := '0' ≤ c && c ≤ '9'
def isUpper (c : Char) : Bool := 'A' ≤ c && c ≤ 'Z'

def nameChar (c : Char) : Bool := isAlpha c || isDigit c || c = '-' || c = '_'

/-- `Tags.isValidAttributeName` (ASCII). -/
def validName : Str → Bool
  | [] => false
  | c :: r => (isAlpha c || c = '_') && (c :: r).all nameChar

def classK : Str := ['c', 'l', 'a', 's', 's']
def styleK : Str := ['s', 't', 'y', 'l', 'e']

/-- `re.sub('[ ][ ]+', ' ', s)`: every maximal run of spaces becomes one space (`prev` = the previous
    character was a space that has been emitted). -/
def collapseAux : Bool → Str → Str
  | _, [] => []
  | prev, c :: r =>
    if c = ' ' then (if prev then collapseAux true r else ' ' :: collapseAux true r)
    else c :: collapseAux false r

def collapseSpaces (s : Str) : Str := collapseAux false s

/-- `utils.stripWordsOnly` -/
def stripWordsOnly (s : Str) : Str := collapseSpaces (strip s)

/-- `[x for x in stripWordsOnly(s).split(' ') if x]` -/
def words (s : Str) : List Str := (splitChar ' ' (stripWordsOnly s)).filter (fun w => decide (w ≠ []))

def replaceQuote : Str → Str
  | [] => []
  | c :: r => if c = '"' then ['&', 'q', 'u', 'o', 't', ';'] ++ replaceQuote r else c :: replaceQuote r

/-- `utils.escapeQuotes` -/
def escQ (s : Str) : Str := replaceQuote s

/-- what reading a double-quoted attribute value back does to `&quot;` (`html.unescape` restricted to the
    serialiser's image; the character-level lexer itself is modelled for C01). -/
def unescQ : Str → Str
  | '&' :: 'q' :: 'u' :: 'o' :: 't' :: ';' :: r => '"' :: unescQ r
  | c :: r => c :: unescQ r
  | [] => []

/-! ### Values seen through the views -/

/-- A Python value returned by an accessor. -/
inductive PyVal where
  | none
  | str (s : Str)
  | bool (b : Bool)
  | style (s : Str)        -- a `StyleAttribute` object; `s` is its `str()`
  deriving DecidableEq, Repr, Inhabited

/-- `not val` -/
def PyVal.falsy : PyVal → Bool
  | .none => true
  | .str s => s.isEmpty
  | .bool b => !b
  | .style _ => false

def pyTrue : Str := ['T', 'r', 'u', 'e']
def pyFalse : Str := ['F', 'a', 'l', 's', 'e']
def pyNone : Str := ['N', 'o', 'n', 'e']

/-- `None if value is None else tostr(value)` -/
def PyVal.tostrOpt : PyVal → Option Str
  | .none => Option.none
  | .str s => some s
  | .bool b => some (if b then pyTrue else pyFalse)
  | .style s => some s

/-- A slot of the underlying dict. -/
inductive Slot where
  | val (v : Option Str)     -- ordinary attribute: `None` (value-less) or a string
  | cls (snapshot : Str)     -- key `class`: the string `_handleClassAttr` stored
  | sty                      -- key `style`: the style object of the element
  deriving DecidableEq, Repr, Inhabited

/-- One row of the dot-access tables for a given tag and dot-name. -/
structure Link where
  attr : Str            -- the html attribute name (after `TAG_ITEM_CHANGE_NAME_FROM_ITEM`)
  special : Bool        -- the name has an entry in `TAG_ITEM_ATTRIBUTES_SPECIAL_VALUES` (read not modelled here: C19)
  validated : Bool      -- … in `TAG_ITEM_ATTRIBUTES_SPECIAL_VALIDATION` (write not modelled here: C19)
  binStr : Bool         -- `attr in TAG_ITEM_BINARY_ATTRIBUTES_STRING_ATTR`
  bin : Bool            -- `attr in TAG_ITEM_BINARY_ATTRIBUTES`
  event : Bool          -- `attr in ALL_JAVASCRIPT_EVENT_ATTRIBUTES`
  deriving Repr, Inhabited

structure Tables where
  binary : List Str     -- `TAG_ITEM_BINARY_ATTRIBUTES`
  binStr : List Str     -- `TAG_ITEM_BINARY_ATTRIBUTES_STRING_ATTR`
  links : AL Link       -- dot-name ↦ row, for the element's tag (`TAG_ITEM_ATTRIBUTE_LINKS` ∪ per-tag names)
  deriving Repr, Inhabited

structure El where
  tag : Str
  sc : Bool                 -- isSelfClosing
  dict : AL Slot
  cls : List Str
  sty : AL Str
  deriving DecidableEq, Repr, Inhabited

inductive Outcome where
  | ok
  | keyError
  | unsupported      -- outside the modelled fragment (never generated by the correspondence check)
  deriving DecidableEq, Repr, Inhabited

/-! ### `class` -/

/-- `AdvancedTag.className` (getter): `str(DOMTokenList(_classNames))` -/
def El.className (e : El) : Str := joinWith [' '] e.cls

/-- `AdvancedTag.__setattr__('className', value)`; `None` means no names. -/
def setClassName (v : Option Str) (e : El) : El :=
  { e with cls := words (v.getD []) }

def addOne (cls : List Str) (w : Str) : List Str := if cls.contains w then cls else cls ++ [w]

/-- the recursive call `self.addClass(oneClassName)` on one field of `className.split(' ')`: the field has no
    space, so after `stripWordsOnly` the multi-name branch cannot be taken again. -/
def addWord (cls : List Str) (w : Str) : List Str :=
  let w := stripWordsOnly w
  if w.isEmpty then cls else addOne cls w

/-- `AdvancedTag.addClass` -/
def addClassL (s : Str) (cls : List Str) : List Str :=
  let s := stripWordsOnly s
  if s.isEmpty then cls
  else if s.contains ' ' then (splitChar ' ' s).foldl addWord cls
  else addOne cls s

def rmOne (cls : List Str) (w : Str) : List Str := if cls.contains w then cls.erase w else cls

def rmWord (cls : List Str) (w : Str) : List Str :=
  let w := stripWordsOnly w
  if w.isEmpty then cls else rmOne cls w

/-- `AdvancedTag.removeClass` -/
def rmClassL (s : Str) (cls : List Str) : List Str :=
  let s := stripWordsOnly s
  if s.isEmpty then cls
  else if s.contains ' ' then (splitChar ' ' s).foldl rmWord cls
  else rmOne cls s

def addClass (s : Str) (e : El) : El := { e with cls := addClassL s e.cls }
def removeClass (s : Str) (e : El) : El := { e with cls := rmClassL s e.cls }
def hasClass (n : Str) (e : El) : Bool := e.cls.contains n
/-- `classList` / `classNames`: a fresh `DOMTokenList` copy. -/
def classList (e : El) : List Str := e.cls

/-! ### `style` -/

/-- split at the first `:` (`item.index(':')`); `none` = `ValueError`, the item is skipped. -/
def findColon : Str → Option (Str × Str)
  | [] => none
  | c :: r =>
    if c = ':' then some ([], r)
    else match findColon r with
      | none => none
      | some (a, b) => some (c :: a, b)

def styleItem (d : AL Str) (item : Str) : AL Str :=
  match findColon item with
  | none => d
  | some (n, v) => aset (lower (strip n)) (strip v) d

/-- `StyleAttribute.styleToDict` -/
def styleToDict (s : Str) : AL Str := (splitChar ';' (strip s)).foldl styleItem []

def declStr (p : Str × Str) : Str := p.1 ++ [':', ' '] ++ p.2

/-- `StyleAttribute._asStr` / `__str__` -/
def asStr (m : AL Str) : Str := joinWith [';', ' '] (m.map declStr)

/-- `StyleAttribute._ensureHtmlAttribute` -/
def ensureStyle (e : El) : El :=
  if e.sty.isEmpty then { e with dict := adel styleK e.dict }
  else { e with dict := aset styleK Slot.sty e.dict }

/-- `tag.style = <string or None>`: `StyleAttribute(value, tag)` then `_ensureHtmlAttribute`. -/
def assignStyle (v : Option Str) (e : El) : El :=
  ensureStyle { e with sty := styleToDict (v.getD []) }

/-- `tag.style = <a StyleAttribute with map m>`: a copy through `str()` and `styleToDict`. -/
def assignStyleFrom (m : AL Str) (e : El) : El := assignStyle (some (asStr m)) e

/-- `StyleAttribute.camelCaseToDashName` -/
def camelToDash : Str → Str
  | [] => []
  | c :: r => if isUpper c then '-' :: lowerChar c :: camelToDash r else c :: camelToDash r

/-- `not val` for a style value -/
def emptyVal : Option Str → Bool
  | none => true
  | some s => s.isEmpty

/-- `tag.style.<name> = val` (`StyleAttribute.__setattr__`, `name` not reserved) -/
def styleDotSet (name : Str) (v : Option Str) (e : El) : El :=
  let n := camelToDash name
  ensureStyle { e with sty := if emptyVal v then adel n e.sty else aset n (v.getD []) e.sty }

/-- `tag.style.<name>` (`StyleAttribute.__getattribute__`) -/
def styleDotGet (name : Str) (e : El) : Str :=
  let dash := camelToDash name
  let n := if dash.contains '-' then dash else name
  (aget n e.sty).getD []

/-- `AdvancedTag.getStyle` -/
def getStyle (name : Str) (e : El) : Str := styleDotGet (lower name) e

/-- `StyleAttribute.setProperty` (dash names, no mapping of the name) -/
def setProperty (name : Str) (v : Option Str) (e : El) : El :=
  ensureStyle { e with sty := if emptyVal v then adel name e.sty else aset name (v.getD []) e.sty }

/-- `AdvancedTag.setStyle` -/
def setStyle (name : Str) (v : Option Str) (e : El) : El := styleDotSet name v e

/-- `AdvancedTag.setStyles` -/
def setStyles (l : List (Str × Option Str)) (e : El) : El := l.foldl (fun e p => setStyle p.1 p.2 e) e

/-- `str(tag.style)` -/
def styleStr (e : El) : Str := asStr e.sty

/-- `StyleAttribute.__eq__` on the two maps: same key sets, and every key of the left map has the same value
    in both (`other` given as a string is parsed with `styleToDict` first) -/
def styleEq (a b : AL Str) : Bool :=
  ((akeys a).all (fun k => (akeys b).contains k) && (akeys b).all (fun k => (akeys a).contains k))
    && (akeys a).all (fun k => aget k a == aget k b)

/-! ### `SpecialAttributesDict` -/

/-- `_handleClassAttr`: the lazy synchronisation of the `class` key (and of the `style` key). -/
def handleClassAttr (e : El) : El :=
  let d1 := if e.cls.isEmpty then adel classK e.dict else aset classK (Slot.cls e.className) e.dict
  let d2 := if e.sty.isEmpty then adel styleK d1 else aset styleK Slot.sty d1
  { e with dict := d2 }

/-- `__contains__` -/
def contains (k : Str) (e : El) : Bool :=
  let k := lower k
  if k = classK then !e.cls.isEmpty else ahas k e.dict

def slotVal (e : El) : Slot → PyVal
  | .val none => .none
  | .val (some s) => .str s
  | .cls s => .str s
  | .sty => .style (asStr e.sty)

def strTrue : Str := ['t', 'r', 'u', 'e']
def strFalse : Str := ['f', 'a', 'l', 's', 'e']

/-- `conversions.convertToBooleanString` on `None` or a string -/
def boolString : Option Str → Str
  | none => strFalse
  | some s => if lower s = strFalse ∨ lower s = ['0'] then strFalse else strTrue

/-- the raw ordinary value under a key (`dict.__getitem__`, `None` when absent or not an ordinary slot) -/
def rawVal (k : Str) (e : El) : Option Str :=
  match aget k e.dict with
  | some (.val v) => v
  | _ => none

/-- `__getitem__` -/
def getitem (T : Tables) (k : Str) (e : El) : PyVal :=
  let k := lower k
  if k = styleK then .style (asStr e.sty)
  else if k = classK then .str e.className
  else if T.binStr.contains k then .str (boolString (rawVal k e))
  else match aget k e.dict with
    | some s => slotVal e s
    | none => .none

/-- `__setitem__` -/
def mapSet (T : Tables) (k : Str) (v : Option Str) (e : El) : Outcome × El :=
  let k := lower k
  if !validName k then (.keyError, e)
  else if k = styleK then (.ok, assignStyleFrom (styleToDict (v.getD [])) e)
  else if k = classK then (.ok, setClassName v e)
  else
    let v' := if T.binStr.contains k then some (boolString v) else v
    (.ok, { e with dict := aset k (Slot.val v') e.dict })

/-- `__delitem__` -/
def mapDel (k : Str) (e : El) : El :=
  let k := lower k
  if k = styleK then assignStyle (some []) e
  else if k = classK then setClassName (some []) e
  else { e with dict := adel k e.dict }

/-- `items()` -/
def items (e : El) : List (Str × PyVal) × El :=
  let e' := handleClassAttr e
  (e'.dict.map (fun p => (p.1, slotVal e' p.2)), e')

/-- `keys()` / `__iter__` -/
def keys (e : El) : List Str × El :=
  let e' := handleClassAttr e
  (akeys e'.dict, e')

/-- `get(key, default)` -/
def mapGet (T : Tables) (k : Str) (dflt : PyVal) (e : El) : PyVal × El :=
  let k := lower k
  if k = classK then (.str e.className, e)
  else if k = styleK then (getitem T k e, e)
  else
    let r := keys e
    if r.1.contains k then (getitem T k r.2, r.2) else (dflt, r.2)

/-! ### `AdvancedTag` accessors -/

/-- `getAttribute(attrName, defaultValue)` -/
def getAttribute (T : Tables) (name : Str) (dflt : PyVal) (e : El) : PyVal × El :=
  if T.binary.contains name then
    if contains name e then
      let v := getitem T name e
      (if v.falsy then .bool true else v, e)
    else (.bool false, e)
  else mapGet T name dflt e

/-- `hasAttribute` -/
def hasAttribute (name : Str) (e : El) : Bool := contains (lower name) e

/-- `removeAttribute` -/
def removeAttribute (name : Str) (e : El) : El := mapDel (lower name) e

/-- `setAttribute` -/
def setAttribute (T : Tables) (name : Str) (v : Option Str) (e : El) : Outcome × El :=
  if !validName name then (.keyError, e) else mapSet T name v e

/-- `setAttributes`: in the order of the given dict; stops at the first `KeyError` (earlier names stay set). -/
def setAttributes (T : Tables) : List (Str × Option Str) → El → Outcome × El
  | [], e => (.ok, e)
  | (n, v) :: r, e =>
    match setAttribute T n v e with
    | (.ok, e') => setAttributes T r e'
    | (o, e') => (o, e')

/-- `getAttributesList()` (and, as an ordered list of its items, `getAttributesDict()`) -/
def attrsList (e : El) : List (Str × Option Str) × El :=
  let (l, e') := items e
  (l.map (fun p => (p.1, p.2.tostrOpt)), e')

/-- one rendered attribute of the start tag -/
inductive RItem where
  | bare (n : Str)
  | quoted (n : Str) (escaped : Str)
  deriving DecidableEq, Repr

/-- the loop of `getStartTag` over `self._attributes.items()` -/
def renderItem (T : Tables) (p : Str × PyVal) : RItem :=
  match p.2 with
  | .none => .bare p.1
  | v =>
    let s := if v.falsy then [] else (v.tostrOpt).getD []
    if !s.isEmpty || !T.binary.contains p.1 then .quoted p.1 (escQ s) else .bare p.1

def startTagItems (T : Tables) (e : El) : List RItem × El :=
  let (l, e') := items e
  (l.map (renderItem T), e')

def RItem.render : RItem → Str
  | .bare n => n
  | .quoted n w => n ++ ['=', '"'] ++ w ++ ['"']

def renderStart (tag : Str) (sc : Bool) (its : List RItem) : Str :=
  let attrs := if its.isEmpty then [] else ' ' :: joinWith [' '] (its.map RItem.render)
  ['<'] ++ tag ++ attrs ++ (if sc then [' ', '/', '>'] else [' ', '>'])

/-- `getStartTag()` (no indent: `_indent` is `''` outside the formatters) -/
def startTag (T : Tables) (e : El) : Str × El :=
  let (its, e') := startTagItems T e
  (renderStart e.tag e.sc its, e')

/-- the attribute list a parser reads back from the rendered start tag: a bare name has no value, a quoted
    value has `&quot;` unescaped. -/
def readBack : List RItem → List (Str × Option Str)
  | [] => []
  | .bare n :: r => (n, none) :: readBack r
  | .quoted n w :: r => (n, some (unescQ w)) :: readBack r

/-- `AttributeNodeMap.__iter__` -/
def domKeys (e : El) : List Str × El :=
  let (ks, e') := keys e
  (ks.filter (fun k => contains k e'), e')

/-- `AttributeNodeMap.getNamedItem(name)`: `(node.name, node.value)` or `None` -/
def domItem (T : Tables) (name : Str) (e : El) : Option (Str × PyVal) :=
  let n := lower name
  if contains n e then some (n, getitem T n e) else none

/-! ### dot access (`__getattribute__` / `__setattr__` for linked names) -/

inductive DotVal where
  | none
  | str (s : Str)
  | bool (b : Bool)
  deriving DecidableEq, Repr, Inhabited

/-- `bool(value)` -/
def DotVal.truthy : DotVal → Bool
  | .none => false
  | .str s => !s.isEmpty
  | .bool b => b

/-- `tostr(value)` -/
def DotVal.tostr : DotVal → Str
  | .none => pyNone
  | .str s => s
  | .bool b => if b then pyTrue else pyFalse

/-- `convertToBooleanString(value)` -/
def DotVal.boolString : DotVal → Str
  | .none => strFalse
  | .str s => Attrs.boolString (some s)
  | .bool b => if b then strTrue else strFalse

def classNameK : Str := ['c', 'l', 'a', 's', 's', 'N', 'a', 'm', 'e']

/-- `tag.<name> = value` for a linked name (`className` is intercepted before the tables are consulted); a name that is not linked is a plain Python attribute. -/
def dotSet (T : Tables) (name : Str) (v : DotVal) (e : El) : Outcome × El :=
  if name = classNameK then
    (.ok, setClassName (match v with | .none => Option.none | v => some v.tostr) e)
  else match aget name T.links with
  | none => (.unsupported, e)
  | some L =>
    if L.validated then (.unsupported, e)
    else if L.binStr then
      -- `self.setAttribute(name, value); return self.getAttribute(name)`: the read back synchronises
      match setAttribute T L.attr (some v.boolString) e with
      | (.ok, e') => (.ok, (getAttribute T L.attr .none e').2)
      | r => r
    else if L.bin then
      if v.truthy then setAttribute T L.attr (some []) e else (.ok, removeAttribute L.attr e)
    else setAttribute T L.attr (some v.tostr) e

/-- `conversions.convertBooleanStringToBoolean` -/
def boolOfString : PyVal → Bool
  | .none => false
  | .str s => if s.isEmpty then false else !(lower s = strFalse)
  | .bool b => b
  | .style _ => true

/-- `tag.<name>` for a linked name without a special-value rule (`none` = not modelled here) -/
def dotGet (T : Tables) (name : Str) (e : El) : Option PyVal × El :=
  if name = classNameK then (some (.str e.className), e)
  else match aget name T.links with
  | none => (some .none, e)          -- not a linked name: a miss on the Python object, `None`
  | some L =>
    if L.special then (none, e)
    else if L.binStr then
      let (v, e') := getAttribute T L.attr .none e
      (some (.bool (boolOfString v)), e')
    else if L.bin then
      let (v, e') := getAttribute T L.attr (.bool false) e
      (some (.bool (decide (v ≠ .bool false))), e')
    else
      let (v, e') := getAttribute T L.attr (if L.event then .none else .str []) e
      (some v, e')

/-! ### dot access of names with a special-value rule (`TAG_ITEM_ATTRIBUTES_SPECIAL_VALUES`)

  Every rule of the table reads one attribute through `em.getAttribute(attr, default)` and converts what it
  got (`convertToIntOrNegativeOneIfUnset`, `convertToIntRangeCapped`, `convertPossibleValues`, … — the conversion
  functions and the literal arguments are C19's subject and enter here as a parameter); `_special_value_maxLength`
  tests `hasAttribute` first. The defaults of the table are not all strings (`1`, `20`, `None`): the default is left
  symbolic (`none` = "`getAttribute` handed back its default"). The rule `form` reads the DOM, not the attribute
  store, and is outside this model. -/

/-- `attributes.get(key, default)` with the default left symbolic (`none` = the default is handed back) -/
def mapGetOpt (T : Tables) (k : Str) (e : El) : Option PyVal × El :=
  let k := lower k
  if k = classK then (some (.str e.className), e)
  else if k = styleK then (some (getitem T k e), e)
  else
    let r := keys e
    if r.1.contains k then (some (getitem T k r.2), r.2) else (none, r.2)

/-- `getAttribute(attrName, default)` with the default left symbolic -/
def getAttributeOpt (T : Tables) (name : Str) (e : El) : Option PyVal × El :=
  if T.binary.contains name then
    if contains name e then
      let v := getitem T name e
      (some (if v.falsy then .bool true else v), e)
    else (some (.bool false), e)
  else mapGetOpt T name e

/-- One rule of `TAG_ITEM_ATTRIBUTES_SPECIAL_VALUES` (for the element's tag), as far as the attribute store
    is concerned. `ρ` is the type of the values the rule returns (ints, strings, None, token lists: C19). -/
structure SpecialRule (ρ : Type) where
  attr : Str               -- the attribute the rule reads
  guard : Option ρ         -- `if not em.hasAttribute(attr): return g` (only `_special_value_maxLength`)
  onDefault : ρ            -- the conversion applied to the rule's default (what the rule answers when unset)
  conv : PyVal → ρ         -- the conversion applied to a value `getAttribute` found

/-- `tag.<name>` for a linked name with a special-value rule `R`: never raises in the attribute store -/
def dotGetSpecial {ρ : Type} (T : Tables) (R : SpecialRule ρ) (e : El) : ρ × El :=
  match R.guard with
  | some g =>
    if hasAttribute R.attr e then
      let r := getAttributeOpt T R.attr e
      ((match r.1 with | none => R.onDefault | some v => R.conv v), r.2)
    else (g, e)
  | none =>
    let r := getAttributeOpt T R.attr e
    ((match r.1 with | none => R.onDefault | some v => R.conv v), r.2)

/-! ### construction, copies -/

def El.empty (tag : Str) (sc : Bool) : El := { tag := lower tag, sc := sc, dict := [], cls := [], sty := [] }

/-- the loop of `AdvancedTag.__init__` over `attrList` -/
def initStep (T : Tables) (e : El) (p : Str × Option Str) : El :=
  let k := lower p.1
  if validName k then (mapSet T k p.2 e).2 else e

/-- `AdvancedTag(tagName, attrList, isSelfClosing)` — also what the parser's `handle_starttag` does. -/
def mk (T : Tables) (tag : Str) (sc : Bool) (attrs : List (Str × Option Str)) : El :=
  attrs.foldl (initStep T) (El.empty tag sc)

/-- `cloneNode()`, `copy.copy`, `copy.deepcopy`, unpickling, `eval(repr(tag))`: a new element from
    `getAttributesList()` of this one. -/
def clone (T : Tables) (e : El) : El × El :=
  let (l, e') := attrsList e
  (mk T e.tag e.sc l, e')

/-- the element obtained by parsing the rendered start tag again -/
def reparse (T : Tables) (e : El) : El × El :=
  let (its, e') := startTagItems T e
  (mk T e.tag e.sc (readBack its), e')

/-! ### operations and histories -/

inductive Op where
  | setAttr (n : Str) (v : Option Str)
  | setAttrs (l : List (Str × Option Str))
  | rmAttr (n : Str)
  | mapSet (n : Str) (v : Option Str)
  | mapDel (n : Str)
  | dot (n : Str) (v : DotVal)
  | addClass (s : Str)
  | rmClass (s : Str)
  | className (v : Option Str)
  | styDot (n : Str) (v : Option Str)
  | styProp (n : Str) (v : Option Str)
  | setStyle (n : Str) (v : Option Str)
  | setStyles (l : List (Str × Option Str))
  | styAssign (v : Option Str)
  | styCopy (src : Str)          -- `tag.style = other.style` where `other.style = src` was assigned before
  | stySelf                      -- `tag.style = tag.style`
  | sync                         -- any reader that calls `_handleClassAttr` (`items()`, `keys()`, `getStartTag()` …)
  deriving Repr, Inhabited

def step (T : Tables) (e : El) : Op → Outcome × El
  | .setAttr n v => setAttribute T n v e
  | .setAttrs l => setAttributes T l e
  | .rmAttr n => (.ok, removeAttribute n e)
  | .mapSet n v => mapSet T n v e
  | .mapDel n => (.ok, mapDel n e)
  | .dot n v => dotSet T n v e
  | .addClass s => (.ok, addClass s e)
  | .rmClass s => (.ok, removeClass s e)
  | .className v => (.ok, setClassName v e)
  | .styDot n v => (.ok, styleDotSet n v e)
  | .styProp n v => (.ok, setProperty n v e)
  | .setStyle n v => (.ok, setStyle n v e)
  | .setStyles l => (.ok, setStyles l e)
  | .styAssign v => (.ok, assignStyle v e)
  | .styCopy src => (.ok, assignStyleFrom (styleToDict src) e)
  | .stySelf => (.ok, ensureStyle e)
  | .sync => (.ok, handleClassAttr e)

/-- a history: an operation that raises leaves the state it reached and the history goes on (the harness
    catches the exception and continues) -/
def run (T : Tables) (e : El) (ops : List Op) : El := ops.foldl (fun e op => (step T e op).2) e

end AHP.Attrs
