/-
  AHP.Model.Lexer — `lexStrict`: the stdlib tokenizer (html.parser, convert_charrefs = False, never close()d)
  on a *strict sub-language*: what the library's own serialisers emit plus the lexical variants C02 quantifies
  over (mixed-case names, double / single / unquoted / value-less attributes, white space variants, doctype,
  comments, processing instructions, references, raw-text elements).  Outside that sub-language the answer
  is `none` — never a guess.  The correspondence check compares `lexStrict` with the real tokenizer on every
  generated string on which `lexStrict` answers `some`.
-/
import AHP.Model.Token
namespace AHP

def span (p : Char → Bool) : Str → Str × Str
  | [] => ([], [])
  | c :: cs => if p c then let r := span p cs; (c :: r.1, r.2) else ([], c :: cs)

/-- characters of a tag name after the first letter -/
def isTagCh (c : Char) : Bool := isAlnum c || c = '-' || c = '_' || c = ':' || c = '.'
/-- What ends the name of a start tag: html.parser reads `[a-zA-Z][^\t\n\r\f />\x00]*` — an *explicit* set, not `\s`
    (`<div\x0bid=x>` and `<div\xa0id=x>` are start tags named `div\x0bid=x`, `div\xa0id=x`).  `\x00` is outside the
    sub-language.  Everywhere else inside a tag the patterns say `\s`, which for a `str` pattern is `str.isspace()` = `isWs`
    (`commentclose`, `attrfind_tolerant`, `endtagfind`, the `</\s*script\s*>` of CDATA mode). -/
def isTagEnd (c : Char) : Bool := c = ' ' || c = '\t' || c = '\n' || c = '\r' || c = '\x0c' || c = '/' || c = '>'
/-- does the text after the name characters of a start tag begin with a character that ends the name? -/
def tagNameEnds : Str → Bool
  | [] => false
  | c :: _ => isTagEnd c
/-- characters of an attribute name -/
def isAttrCh (c : Char) : Bool :=
  !(isWs c) && c ≠ '/' && c ≠ '>' && c ≠ '=' && c ≠ '"' && c ≠ '\'' && c ≠ '<' && c ≠ '&' && c ≠ '`' && c ≠ '\x00'
/-- characters of an unquoted attribute value -/
def isUnqCh (c : Char) : Bool := isAttrCh c
/-- entity name characters after the first letter: `[-.a-zA-Z0-9]` -/
def isEntCh (c : Char) : Bool := isAlnum c || c = '-' || c = '.'
def isHex (c : Char) : Bool := isDigit c || ('a' ≤ c && c ≤ 'f') || ('A' ≤ c && c ≤ 'F')

/-- text up to (not including) the first `q`; `none` when `q` does not occur -/
def readUntil (q : Char) : Str → Option (Str × Str)
  | [] => none
  | c :: cs => if c = q then some ([], cs) else
      match readUntil q cs with
      | some (v, r) => some (c :: v, r)
      | none => none

/-- `html.unescape` on the sub-language: `&quot;` becomes `"`; any other `&` must be followed by a
    character that cannot start a reference (not a letter, not `#`), else `none`. -/
def unescValue : Nat → Str → Option Str
  | 0, _ => none
  | _ + 1, [] => some []
  | k + 1, c :: cs =>
    if c = '&' then
      if "quot;".toList.isPrefixOf cs then (unescValue k (cs.drop 5)).map ('"' :: ·)
      else match cs with
        | [] => some ['&']
        | d :: _ => if isAlpha d || d = '#' then none else (unescValue k cs).map ('&' :: ·)
    else (unescValue k cs).map (c :: ·)

/-- attributes after the tag name, up to and including `>` or `/>`: `(attrs, selfClosing, rest)` -/
def lexAttrs : Nat → Str → Option (List Attr × Bool × Str)
  | 0, _ => none
  | k + 1, s =>
    let s1 := s.dropWhile isWs
    match s1 with
    | [] => none
    | c :: r =>
      if c = '>' then some ([], false, r)
      else if c = '/' then
        match r with
        | d :: r' => if d = '>' then some ([], true, r') else none
        | [] => none
      else if s1.length = s.length then none        -- an attribute must be separated by white space
      else
        let nr := span isAttrCh s1
        if nr.1.isEmpty then none else
        let r2 := nr.2.dropWhile isWs
        match r2 with
        | '=' :: r3 =>
          let r4 := r3.dropWhile isWs
          match r4 with
          | [] => none
          | q :: r5 =>
            if q = '"' || q = '\'' then
              match readUntil q r5 with
              | none => none
              | some (raw, r6) =>
                match unescValue (raw.length + 1) raw with
                | none => none
                | some v => (lexAttrs k r6).map (fun x => ((lower nr.1, some v) :: x.1, x.2.1, x.2.2))
            else
              let vr := span isUnqCh r4
              if vr.1.isEmpty then none else
              match vr.2 with
              | [] => none
              | e :: _ =>
                if isWs e || e = '>' then
                  (lexAttrs k vr.2).map (fun x => ((lower nr.1, some vr.1) :: x.1, x.2.1, x.2.2))
                else none
        | _ => (lexAttrs k nr.2).map (fun x => ((lower nr.1, none) :: x.1, x.2.1, x.2.2))

/-- does `s` start with `</` ws* `name` ws* `>` (case-insensitively)?  Returns what follows. -/
def matchEndTag (name : Str) (s : Str) : Option Str :=
  match s with
  | '<' :: '/' :: r =>
    let r1 := r.dropWhile isWs
    if (lower (r1.take name.length)) = name then
      match (r1.drop name.length).dropWhile isWs with
      | '>' :: r2 => some r2
      | _ => none
    else none
  | _ => none

/-- raw text of `script`/`style`: up to the first matching end tag; `none` when there is none -/
def lexRaw (name : Str) : Nat → Str → Option (Str × Str)
  | 0, _ => none
  | _ + 1, [] => none
  | k + 1, c :: cs =>
    match matchEndTag name (c :: cs) with
    | some r => some ([], r)
    | none => (lexRaw name k cs).map (fun x => (c :: x.1, x.2))

/-- does the comment close (`--` ws* `>`) start here?  Returns what follows it. -/
def commentCloses : Str → Option Str
  | '-' :: '-' :: r =>
    match r.dropWhile isWs with
    | '>' :: r2 => some r2
    | _ => none
  | _ => none

/-- first position of `--` ws* `>`: comment body and what follows the close -/
def lexComment : Nat → Str → Option (Str × Str)
  | 0, _ => none
  | _ + 1, [] => none
  | k + 1, c :: cs =>
    match commentCloses (c :: cs) with
    | some r => some ([], r)
    | none => (lexComment k cs).map (fun x => (c :: x.1, x.2))

/-- characters of a data run -/
def isTextCh (d : Char) : Bool := d ≠ '<' && d ≠ '&'

def isRawText (n : Str) : Bool := n = "script".toList || n = "style".toList

/-- one token at the head of a non-empty input; the `Option Str` is the raw-text element just opened -/
def lexOne (fuel : Nat) (s : Str) : Option (List Token × Str) :=
  match s with
  | [] => none
  | '<' :: r =>
    match r with
    | [] => none
    | c :: r1 =>
      if isAlpha c then
        -- start tag
        let nr := span isTagCh (c :: r1)
        if !tagNameEnds nr.2 then none else     -- any other character would be part of the name: outside the sub-language
        match lexAttrs fuel nr.2 with
        | none => none
        | some (attrs, sc, rest) =>
          let n := lower nr.1
          if sc then some ([.startend n attrs], rest)
          else if isRawText n then
            match lexRaw n fuel rest with
            | none => none
            | some (raw, rest') =>
              some ((if raw.isEmpty then [.start n attrs, .end_ n] else [.start n attrs, .data raw, .end_ n]), rest')
          else some ([.start n attrs], rest)
      else if c = '/' then
        let r2 := r1.dropWhile isWs
        match r2 with
        | [] => none
        | d :: _ =>
          if isAlpha d then
            let nr := span isTagCh r2
            match nr.2.dropWhile isWs with
            | '>' :: rest => some ([.end_ (lower nr.1)], rest)
            | _ => none
          else none
      else if c = '!' then
        match r1 with
        | '-' :: '-' :: r2 => (lexComment fuel r2).map (fun x => ([.comment x.1], x.2))
        | _ =>
          if lower (r1.take 7) = "doctype".toList then
            (readUntil '>' r1).map (fun x => ([.decl x.1], x.2))
          else none
      else if c = '?' then
        (readUntil '>' r1).map (fun x => ([.pi x.1], x.2))
      else
        -- `<` followed by a character that cannot open markup: the data "<"
        some ([.data ['<']], c :: r1)
  | '&' :: r =>
    match r with
    | [] => none
    | '#' :: r1 =>
      match r1 with
      | [] => none
      | x :: r2 =>
        if x = 'x' || x = 'X' then
          let hr := span isHex r2
          if hr.1.isEmpty then none else
          match hr.2 with
          | ';' :: rest => some ([.charref (x :: hr.1)], rest)
          | _ => none
        else
          let dr := span isDigit r1
          if dr.1.isEmpty then none else
          match dr.2 with
          | ';' :: rest => some ([.charref dr.1], rest)
          | _ => none
    | c :: r1 =>
      if isAlpha c then
        let nr := span isEntCh (c :: r1)
        match nr.2 with
        | ';' :: rest => some ([.entity nr.1], rest)
        | _ => none
      else some ([.data ['&']], c :: r1)
  | c :: r =>
    let dr := span isTextCh (c :: r)
    some ([.data dr.1], dr.2)

def lexN : Nat → Str → Option (List Token)
  | 0, _ => none
  | k + 1, s =>
    if s.isEmpty then some [] else
    match lexOne (k + 1) s with
    | some (ts, rest) => if rest.length < s.length then (lexN k rest).map (ts ++ ·) else none
    | none => none

def lexStrict (s : Str) : Option (List Token) := lexN (s.length + 1) s

end AHP
