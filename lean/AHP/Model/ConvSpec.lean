/-
  AHP.Model.ConvSpec — the *documented* rules of the typed DOM properties (C19), written from the property text,
  README.md, ChangeLog, the docstrings of conversions.py and the comments of the tables in constants.py — not from
  the tables' contents.  (Executable and import-free so that the driver can evaluate it: the harness compares this
  specification with its own Python restatement c19_spec.py on every cell.)

    Spec.tagProps / commonProps   which dot names exist on which element type
    Spec.htmlName                 dot name → HTML attribute name
    Spec.srule                    the rule of a (element type, dot name) pair
    Spec.expected                 what reading a property gives for an attribute state (absent / text)
    Spec.assign                   what an assignment does (raise / remove / store text)
    Spec.disp                     the get/set behaviour a rule demands of `__getattribute__`/`__setattr__`, in the
                                  vocabulary of the model's dispatch — the right-hand side of the table obligations
-/
import AHP.Model.Conv
namespace AHP.Conv.Spec
open AHP AHP.Gen AHP.Conv

/-! ### names -/

/-- Per element type, the dot names beyond the common ones (alphabetical, as sets).  `button`, `select`, `option`
"inherit the special attributes from input" (value, checked and the form-control events); `submit` "inherits special
attributes from input plus onsubmit". -/
def tagProps0 : List (String × List String) :=
  [("a", ["href", "target"]),
   ("area", ["alt", "coords", "download", "href", "rel", "shape", "target"]),
   ("audio", ["autoplay", "controls", "loop", "muted", "preload", "src"]),
   ("base", ["href", "target"]),
   ("basefont", ["color", "face", "size"]),
   ("bdo", ["dir"]),
   ("blockquote", ["cite"]),
   ("body", ["alink", "background", "bgcolor", "link", "onafterprint", "onbeforeprint", "onbeforeunload", "onerror",
             "onhashchange", "onload", "onmessage", "onoffline", "ononline", "onpagehide", "onpageshow",
             "onpopstate", "onresize", "onstorage", "onunload", "vlink"]),
   ("button", ["autofocus", "checked", "disabled", "form", "formAction", "formEnctype", "formMethod",
               "formNoValidate", "formTarget", "onchange", "oncontextmenu", "oninput", "oninvalid", "onreset",
               "onsearch", "onselect", "type", "value"])]

def tagProps1 : List (String × List String) :=
  [("canvas", ["height", "width"]),
   ("caption", ["align"]),
   ("col", ["span", "valign", "width"]),
   ("colgroup", ["align", "span", "valign", "width"]),
   ("data", ["value"]),
   ("del", ["cite", "dateTime"]),
   ("details", ["ontoggle"]),
   ("dir", ["compact"]),
   ("div", ["align"]),
   ("embed", ["height", "src", "type", "width"]),
   ("fieldset", ["form"]),
   ("font", ["color", "face", "size"]),
   ("form", ["acceptCharset", "action", "autocomplete", "encoding", "enctype", "method", "noValidate", "onblur",
             "onchange", "oncontextmenu", "onfocus", "oninput", "oninvalid", "onreset", "onsearch", "onselect",
             "onsubmit", "target"]),
   ("frame", ["frameBorder", "longDesc", "marginHeight", "marginWidth", "noResize", "scrolling", "src"]),
   ("frameset", ["cols", "rows"]),
   ("h1", ["align"])]

def tagProps2 : List (String × List String) :=
  [("h2", ["align"]),
   ("h3", ["align"]),
   ("h4", ["align"]),
   ("h5", ["align"]),
   ("h6", ["align"]),
   ("head", ["profile"]),
   ("hr", ["align", "noShade", "size", "width"]),
   ("html", ["xmlns"]),
   ("iframe", ["align", "frameBorder", "height", "marginHeight", "marginWidth", "sandbox", "scrolling", "src",
               "srcdoc", "width"]),
   ("img", ["align", "alt", "border", "crossOrigin", "height", "hspace", "isMap", "longDesc", "sizes", "src",
            "srcset", "useMap", "vspace", "width"])]

def tagProps3 : List (String × List String) :=
  [("input", ["accept", "align", "alt", "autocomplete", "autofocus", "checked", "dir", "disabled", "form",
              "formAction", "formEnctype", "formMethod", "formNoValidate", "formTarget", "list", "max", "maxLength",
              "min", "multiple", "onchange", "oncontextmenu", "oninput", "oninvalid", "onreset", "onsearch",
              "onselect", "pattern", "placeholder", "readOnly", "required", "size", "src", "step", "type", "value",
              "width"]),
   ("ins", ["cite", "dateTime"]),
   ("label", ["for", "form"]),
   ("legend", ["align"]),
   ("li", ["type", "value"]),
   ("link", ["charset", "crossOrigin", "href", "hreflang", "media", "rel", "rev", "sizes", "target", "type"])]

def tagProps4 : List (String × List String) :=
  [("menu", ["label", "onshow", "type"]),
   ("menuitem", ["checked", "disabled", "icon", "label", "radiogroup", "type"]),
   ("meta", ["charset", "content", "httpEquiv", "scheme"]),
   ("meter", ["form", "high", "low", "max", "min", "optimum", "value"]),
   ("object", ["align", "archive", "border", "classid", "codeBase", "codeType", "data", "declare", "form", "height",
               "hspace", "standby", "type", "useMap", "vspace", "width"]),
   ("ol", ["compact", "reversed", "start", "type"]),
   ("optgroup", ["disabled", "label"]),
   ("option", ["checked", "disabled", "label", "onchange", "oncontextmenu", "oninput", "oninvalid", "onreset",
               "onsearch", "onselect", "selected", "value"])]

def tagProps5 : List (String × List String) :=
  [("output", ["for", "form"]),
   ("p", ["align"]),
   ("param", ["type", "value", "valueType"]),
   ("pre", ["width"]),
   ("progress", ["max", "value"]),
   ("q", ["cite"]),
   ("script", ["async", "charset", "defer", "src", "type"]),
   ("select", ["autofocus", "checked", "disabled", "form", "multiple", "onchange", "oncontextmenu", "oninput",
               "oninvalid", "onreset", "onsearch", "onselect", "required", "size", "value"]),
   ("source", ["media", "sizes", "src", "srcdest", "type"]),
   ("style", ["media", "scoped", "type"])]

def tagProps6 : List (String × List String) :=
  [("submit", ["accept", "align", "alt", "autocomplete", "autofocus", "checked", "dir", "disabled", "form",
               "formAction", "formEnctype", "formMethod", "formNoValidate", "formTarget", "list", "max", "maxLength",
               "min", "multiple", "onchange", "oncontextmenu", "oninput", "oninvalid", "onreset", "onsearch",
               "onselect", "onsubmit", "pattern", "placeholder", "readOnly", "required", "size", "src", "step",
               "type", "value", "width"]),
   ("table", ["align", "bgcolor", "border", "cellPadding", "cellSpacing", "frame", "rules", "summary", "width"]),
   ("tbody", ["align", "char", "charoff", "vAlign"])]

def tagProps7 : List (String × List String) :=
  [("td", ["abbr", "align", "axis", "bgcolor", "char", "charoff", "colSpan", "headers", "height", "noWrap",
           "rowSpan", "scope", "vAlign", "width"]),
   ("textarea", ["autofocus", "cols", "dirname", "disabled", "form", "maxLength", "placeholder", "readOnly",
                 "required", "rows", "wrap"]),
   ("tfoot", ["align", "char", "charoff", "vAlign"]),
   ("th", ["abbr", "align", "axis", "bgcolor", "char", "charoff", "colSpan", "headers", "height", "noWrap",
           "rowSpan", "scope", "sorted", "vAlign", "width"]),
   ("thead", ["align", "char", "charoff", "vAlign"]),
   ("time", ["dateTime"]),
   ("tr", ["align", "bgcolor", "char", "charoff", "vAlign"]),
   ("track", ["default", "kind", "label", "src", "srclang"]),
   ("ul", ["compact", "type"]),
   ("video", ["autoplay", "controls", "height", "loop", "muted", "poster", "preload", "src", "width"])]

def tagProps : List (String × List String) :=
  tagProps0 ++ tagProps1 ++ tagProps2 ++ tagProps3 ++ tagProps4 ++ tagProps5 ++ tagProps6 ++ tagProps7


/-- The dot names every element has: the global attributes and the common event handlers. -/
def commonProps : List String :=
  ["align", "className", "dir", "hidden", "id", "lang", "name", "onblur", "onchange", "onclick", "oncontextmenu",
   "oncopy", "oncut", "ondblclick", "ondrag", "ondragend", "ondragenter", "ondragleave", "ondragover", "ondragstop",
   "ondrop", "onfocus", "onkeydown", "onkeypress", "onkeyup", "onmousedown", "onmousemove", "onmouseout",
   "onmouseover", "onmouseup", "onmousewheel", "onpaste", "onscroll", "onselect", "onwheel", "spellcheck",
   "tabIndex", "title"]

/-- The HTML attribute name of a dot name: lower case, except the four names that differ by more than case. -/
def htmlName (prop : String) : String :=
  if prop = "className" then "class"
  else if prop = "httpEquiv" then "http-equiv"
  else if prop = "acceptCharset" then "accept-charset"
  else if prop = "encoding" then "enctype"
  else lowerS prop

/-- "These attributes are binary (only accept true/false)" — by dot name. -/
def booleanProps : List String :=
  ["hidden", "checked", "selected", "autoplay", "controls", "loop", "muted", "compact", "noValidate", "noResize",
   "autofocus", "disabled", "formNoValidate", "multiple", "readOnly", "required", "declare", "reversed", "async",
   "defer", "noWrap", "default"]

/-! ### rules -/

inductive SRule where
  | className
  | boolean
  | boolString
  | intOrMinusOne
  | capped (lo hi absent invalid : Int)          -- clamped into lo..hi; unset: absent; empty / not a number: invalid
  | nonNegative (dflt : Int)                     -- n ≥ 0, anything else (unset, negative, not a number): dflt
  | atLeast (lo dflt : Int)                      -- n ≥ lo, anything else: dflt
  | maxLength                                    -- unset -1, empty 0, n ≥ 0, anything else -1; assignment validated
  | enum (members : List String) (absent invalid : Lit) (empty : Option Lit)   -- empty = none: same as invalid
  | parentForm
  | tokens
  | string (dflt : Lit)
  deriving DecidableEq, Repr, Inhabited

def srule (tag prop : String) : SRule :=
  if prop = "className" then .className
  else if prop = "spellcheck" then .boolString
  else if booleanProps.contains prop then .boolean
  else if prop = "tabIndex" then .intOrMinusOne
  else if prop = "span" || prop = "colSpan" then .capped 1 1000 1 1
  else if prop = "rowSpan" then .capped 0 65534 1 0
  else if prop = "hspace" || prop = "vspace" then .nonNegative 0
  else if prop = "size" then (if tag = "input" then .nonNegative 20 else .string (.str ""))
  else if prop = "cols" then (if tag = "textarea" then .atLeast 1 20 else .string (.str ""))
  else if prop = "rows" then (if tag = "textarea" then .atLeast 1 2 else .string (.str ""))
  else if prop = "maxLength" then .maxLength
  else if prop = "method" then .enum ["get", "post"] (.str "get") (.str "get") (some (.str ""))
  else if prop = "autocomplete" then
    (if tag = "form" then .enum ["on", "off"] (.str "on") (.str "on") none
     else .enum ["on", "off"] (.str "") (.str "") (some (.str "")))
  else if prop = "crossOrigin" then .enum ["use-credentials", "anonymous"] .none (.str "anonymous") (some .none)
  else if prop = "kind" then
    .enum ["captions", "chapters", "descriptions", "metadata", "subtitles"] (.str "subtitles") (.str "metadata") none
  else if prop = "form" then .parentForm
  else if prop = "sandbox" then .tokens
  else if "on".isPrefixOf prop then .string .none
  else .string (.str "")

/-! ### meaning -/

/-- The text an element holds for an attribute (the value-less state is outside the property's quantifier). -/
inductive St where
  | absent
  | text (s : Str)
  deriving DecidableEq, Repr, Inhabited

/-- DOMTokenList of a text: "stripping to single words and splitting by blank, ignoring the empty string case". -/
def tokensOf (s : Str) : List Str :=
  let t := stripWordsOnly s
  if t = [] then [] else splitChar ' ' t

/-- the class names of a text: its non-empty blank-separated words -/
def words (s : Str) : List Str := (splitChar ' ' (stripWordsOnly s)).filter (fun w => !w.isEmpty)

def clamp (lo hi n : Int) : Int := max lo (min hi n)

/-- What reading the property gives. -/
def expected (parseInt : Str → Except PyErr Int) (r : SRule) (st : St) (ancestors : List String) (classNames : List Str) : PyV :=
  match r, st with
  | .className, _ => .str (joinWith [' '] classNames)
  | .boolean, .absent => .bool false
  | .boolean, .text _ => .bool true
  | .boolString, .absent => .bool false
  | .boolString, .text s => .bool (!(lower s = str "false" || lower s = str "0"))
  | .intOrMinusOne, .absent => .int (-1)
  | .intOrMinusOne, .text s =>
    if s = [] then .int (-1) else match parseInt s with | .ok n => .int n | .error _ => .int 0
  | .capped _ _ a _, .absent => .int a
  | .capped lo hi _ i, .text s =>
    if s = [] then .int i else match parseInt s with | .ok n => .int (clamp lo hi n) | .error _ => .int i
  | .nonNegative d, .absent => .int d
  | .nonNegative d, .text s => match parseInt s with | .ok n => if n < 0 then .int d else .int n | .error _ => .int d
  | .atLeast _ d, .absent => .int d
  | .atLeast lo d, .text s =>
    if s = [] then .int d else match parseInt s with | .ok n => if n < lo then .int d else .int n | .error _ => .int d
  | .maxLength, .absent => .int (-1)
  | .maxLength, .text s =>
    if s = [] then .int 0 else match parseInt s with | .ok n => if n < 0 then .int (-1) else .int n | .error _ => .int (-1)
  | .enum _ a _ _, .absent => a.toPy
  | .enum ms _ i e, .text s =>
    if s = [] then (match e with | some v => v.toPy | none => i.toPy)
    else if ms.contains (String.ofList (lower s)) then .str (lower s) else i.toPy
  | .parentForm, _ => nearest "form" ancestors 0
  | .tokens, .absent => .tokens []
  | .tokens, .text s => .tokens (tokensOf s)
  | .string d, .absent => d.toPy
  | .string _, .text s => .str s

/-- What an assignment does. -/
inductive Assign where
  | raise
  | remove
  | store (s : Str)
  deriving DecidableEq, Repr, Inhabited

/-- the assigned values the property speaks of: text, integers, booleans, None -/
def plain : PyV → Bool
  | .none => true
  | .str _ => true
  | .int _ => true
  | .bool _ => true
  | _ => false

/-- the only raising assignment: maxLength with a value that is neither empty nor a non-negative integer -/
def outOfRange (parseInt : Str → Except PyErr Int) (v : PyV) : Bool :=
  if isNoneOrEmpty v then false
  else match pyInt parseInt v with
    | .ok n => n < 0
    | .error _ => true

def assign (parseInt : Str → Except PyErr Int) (r : SRule) (v : PyV) : Assign :=
  match r with
  | .maxLength => if outOfRange parseInt v then .raise else .store (tostr v)
  | .boolean => if truthy v then .store [] else .remove
  | .boolString =>
    match v with
    | .str s => .store (if lower s = str "false" || lower s = str "0" then str "false" else str "true")
    | v => .store (if truthy v then str "true" else str "false")
  | .className => .store (joinWith [' '] (words (match v with | .none => [] | v => tostr v)))
  | _ => .store (tostr v)

def empOf : Option Lit → Emp
  | none => .invalid
  | some v => .val v

/-- well-formedness of a rule: the range is not empty, the unset default is what the rule itself gives for it -/
def wf : SRule → Bool
  | .capped lo hi a _ => decide (lo ≤ hi) && decide (lo ≤ a) && decide (a ≤ hi)
  | .enum ms a i e =>
    (match convertPossibleValues a.toPy ms (.val i) (empOf e) with
     | .ok v => decide (v = a.toPy)
     | .error _ => false)
  | _ => true

/-! ### what a rule demands of the dispatch -/

def mlRule (attr : String) : Rule :=
  .maxLength attr (.int (-1)) (.str "-1") (some 0) none (.val (.int 0)) (.val (.int (-1))) (.raise "IndexSizeErrorException")

def disp (attr : String) : SRule → Disp
  | .className => { get := .className, set := .className, validate := none }
  | .boolean => { get := .boolean attr, set := .boolean attr, validate := none }
  | .boolString => { get := .boolStr attr, set := .boolStr attr, validate := none }
  | .intOrMinusOne => { get := .special (.conv .intOrMinusOne attr .none), set := .string attr, validate := none }
  | .capped lo hi a i =>
    { get := .special (.conv (.intCapped (some lo) (some hi) (.val (.int i)) .invalid) attr (.int a)),
      set := .string attr, validate := none }
  | .nonNegative d => { get := .special (.conv (.positiveInt (.int d)) attr (.int d)), set := .string attr, validate := none }
  | .atLeast lo d =>
    { get := .special (.conv (.intRange (some lo) none (.val (.int d)) .invalid) attr (.int d)), set := .string attr, validate := none }
  | .maxLength => { get := .special (mlRule attr), set := .string attr, validate := some (mlRule attr) }
  | .enum ms a i e => { get := .special (.conv (.possible ms (.val i) (empOf e)) attr a), set := .string attr, validate := none }
  | .parentForm => { get := .special (.parentTag "form"), set := .string attr, validate := none }
  | .tokens => { get := .special (.conv .tokens attr (.str "")), set := .string attr, validate := none }
  | .string d => { get := .string attr d, set := .string attr, validate := none }

/-! ### normal form of a dispatch entry (what the table obligations compare) -/

/-- `_special_value_rows/cols/size/autocomplete`: the branch taken for this element type. -/
def resolve (tag : String) : Rule → Rule
  | .byTag t a b => if tag = t then resolve tag a else resolve tag b
  | r => r

def normGet (tag : String) : GetKind → GetKind
  | .className => .className
  | .special r =>
    match resolve tag r with
    | .conv .raw a d => .string (lowerS a) d          -- an unconverted attribute value is a plain string property
    | r' => .special r'
  | .boolStr a => .boolStr (lowerS a)
  | .boolean a => .boolean (lowerS a)
  | .string a d => .string (lowerS a) d

def normSet : SetKind → SetKind
  | .className => .className
  | .boolStr a => .boolStr (lowerS a)
  | .boolean a => .boolean (lowerS a)
  | .string a => .string (lowerS a)

/-- The attribute store lower-cases every key, so names are compared in lower case. -/
def norm (tag : String) (d : Disp) : Disp :=
  { get := normGet tag d.get, set := normSet d.set, validate := d.validate }

/-! ### side conditions under which the model's store behaves as a plain map on the names involved -/

def plainName (T : Tables) (a : String) : Bool :=
  let k := lowerS a
  !T.booleans.contains a && !T.booleans.contains k && !T.boolStrings.contains k && k != "class" && k != "style"
  && lowerS k == k

def boolName (T : Tables) (a : String) : Bool :=
  let k := lowerS a
  T.booleans.contains a && T.booleans.contains k && !T.boolStrings.contains k && k != "class" && k != "style"
  && lowerS k == k

def boolStrName (T : Tables) (a : String) : Bool :=
  let k := lowerS a
  !T.booleans.contains a && !T.booleans.contains k && T.boolStrings.contains k && k != "class" && k != "style"
  && lowerS k == k

def ruleOK (T : Tables) : Rule → Bool
  | .conv _ a _ => plainName T a
  | .parentTag _ => true
  | .byTag _ a b => ruleOK T a && ruleOK T b
  | .maxLength a _ _ _ _ _ _ _ => plainName T a

def getOK (T : Tables) : GetKind → Bool
  | .className => true
  | .special r => ruleOK T r
  | .boolStr a => boolStrName T a
  | .boolean a => boolName T a
  | .string a _ => plainName T a

def setOK (T : Tables) : SetKind → Bool
  | .className => true
  | .boolStr a => boolStrName T a && isValidAttributeName a && isValidAttributeName (lowerS a)
  | .boolean a => boolName T a && isValidAttributeName a && isValidAttributeName (lowerS a)
  | .string a => plainName T a && isValidAttributeName a && isValidAttributeName (lowerS a)

def dispOK (T : Tables) (d : Disp) : Bool := getOK T d.get && setOK T d.set

/-- Everything the table obligation says about one (element type, dot name) pair. -/
def cellOK (T : Tables) (tag prop : String) : Bool :=
  match dispatch T tag prop with
  | none => false
  | some d =>
    decide (norm tag d = disp (htmlName prop) (srule tag prop)) && dispOK T d && !T.rawAttrs.contains prop
    && wf (srule tag prop) && lowerS (htmlName prop) == htmlName prop

end AHP.Conv.Spec
