#check @List.dropWhile_append
#check @List.take_append_of_le_length
#check @List.drop_append_of_le_length
#check @List.take_append
#check @List.drop_append
#check @List.dropWhile_cons
