#!/usr/bin/env python3
"""tools/seed_recheck.py [--extra Cyy] [<seeded id> ...] — re-run the quick check of each kept seeded change (default: all)
against a scratch worktree of /repo with the change applied, and update seeded/<id>/meta.json (what_i_ran.check,
caught_by_quick, rechecked). Development tool (never a registered command). The scratch worktrees live outside /repo
and /verif and are removed as soon as the check has run; evidence files and the generated tables are restored
afterwards (they must describe /repo itself)."""
import json
import os
import subprocess
import sys
import tempfile

HERE = os.path.dirname(os.path.dirname(os.path.abspath(__file__)))
args = sys.argv[1:]
extra = []
while '--extra' in args:
    i = args.index('--extra')
    extra.append(args[i + 1])
    del args[i:i + 2]
ids = args or sorted(d for d in os.listdir(os.path.join(HERE, 'seeded')) if os.path.exists(os.path.join(HERE, 'seeded', d, 'meta.json')))


def sh(cmd, cwd=None, env=None, timeout=2400):
    try:
        p = subprocess.run(cmd, shell=True, cwd=cwd, env=env, stdout=subprocess.PIPE, stderr=subprocess.STDOUT, text=True,
                           timeout=timeout)
    except subprocess.TimeoutExpired:
        return 124, 'TIMEOUT after %ds' % timeout
    return p.returncode, p.stdout


head = sh('git rev-parse --short HEAD', cwd=HERE)[1].strip()
summary = {}
for sid in ids:
    d = os.path.join(HERE, 'seeded', sid)
    meta = json.load(open(os.path.join(d, 'meta.json')))
    prop = meta['property']
    wt = tempfile.mkdtemp(prefix='ahp-seed-')
    os.rmdir(wt)
    subprocess.check_call(['git', '-C', '/repo', 'worktree', 'add', '-q', '--detach', wt, 'HEAD'])
    try:
        rc, out = sh('git apply %s' % os.path.join(d, 'patch.diff'), cwd=wt)
        if rc != 0:
            summary[sid] = 'patch does not apply'
            print(sid, summary[sid], flush=True)
            continue
        env = dict(os.environ, AHP_REPO=wt)
        results = {}
        for p in [prop] + extra:
            rc, out = sh('./check %s quick' % p, cwd=HERE, env=env)
            lines = [l for l in out.strip().split('\n') if l.startswith('VIOLATION') or l.startswith(p + ' ')]
            r = {'rc': rc, 'lines': lines[-2:]}
            for l in lines:
                if l.startswith('VIOLATION') and 'replay=' in l:
                    rp = os.path.join(HERE, l.split('replay=')[1].split()[0])
                    if os.path.exists(rp):
                        doc = json.load(open(rp))
                        r['replay_case'] = doc.get('case')
                        r['replay_failure'] = doc.get('failure')
                        r['no_failing_input_found'] = l.rstrip().endswith('no-failing-input-found')
            results[p] = r
        ran = meta.setdefault('what_i_ran', {})
        ran['check'] = {'quick': results[prop]}
        ran['caught_by_quick'] = results[prop]['rc'] == 1 and any(l.startswith('VIOLATION') for l in results[prop]['lines'])
        if extra:
            ran['other_checks'] = {p: results[p] for p in extra}
        ran['rechecked_at_verif_commit'] = head
        json.dump(meta, open(os.path.join(d, 'meta.json'), 'w'), indent=1)
        summary[sid] = {p: results[p]['rc'] for p in results}
        print(sid, summary[sid], (results[prop].get('replay_failure') or [''])[0], flush=True)
    finally:
        subprocess.call(['git', '-C', '/repo', 'worktree', 'remove', '--force', wt])
sh('git checkout -- evidence lean/AHP/Gen/Tables.lean', cwd=HERE)
print(json.dumps(summary))
