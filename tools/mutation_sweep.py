#!/usr/bin/env python3
"""
tools/mutation_sweep.py [--props C04,C05] [--max-per-prop N] [--jobs J] [--seed S] [--out FILE]

Systematic self-test of the tie (development tool, never a registered command): for every property, one-place syntactic
mutants of the library functions its anchors name (comparison / boolean operator swaps, negated conditions, small-integer
and boolean constants, `if` forced, statements dropped, `return` emptied) are generated from the source with `ast`, applied
as a single text edit to a scratch copy of the repository (outside /repo and /verif), run against the pinned test suite,
and — when the suite still passes exactly — against the property's quick check in a private copy of /verif. Verdicts:

  killed     the check reports VIOLATION with a concrete failing input
  flagged    the check reports VIOLATION ... no-failing-input-found (tie broken, property not refuted on the searched inputs)
  survived   the check exits 0 (equivalent mutant, mutant outside the property's domain, or a gap in the check)
  suite      the pinned suite already fails (not counted: the brief asks for changes the tests miss)
  broken     the library does not import / the check's machinery fails

The summary (counts per property and the list of survivors with their source line) is written to --out (default
/tmp/ahp-mutation-sweep.json); design.d/10-seeded.md quotes it. Survivors are triaged by hand.
"""
import ast
import json
import os
import random
import re
import shutil
import subprocess
import sys
import tempfile
from concurrent.futures import ThreadPoolExecutor

HERE = os.path.dirname(os.path.dirname(os.path.abspath(__file__)))
sys.path.insert(0, os.path.join(HERE, 'harness'))
from ahpcheck import srccov  # noqa

REPO = '/repo'
PKG = os.path.join(REPO, 'AdvancedHTMLParser')


def arg(name, default):
    if name in sys.argv:
        return sys.argv[sys.argv.index(name) + 1]
    return default


PROPS = arg('--props', ','.join('C%02d' % i for i in range(1, 21))).split(',')
MAXN = int(arg('--max-per-prop', '25'))
JOBS = int(arg('--jobs', '6'))
SEED = int(arg('--seed', '0'))
OUT = arg('--out', '/tmp/ahp-mutation-sweep.json')

CMP = {ast.Eq: '!=', ast.NotEq: '==', ast.Lt: '<=', ast.LtE: '<', ast.Gt: '>=', ast.GtE: '>', ast.Is: 'is not', ast.IsNot: 'is',
       ast.In: 'not in', ast.NotIn: 'in'}


def anchored_ranges(prop):
    """{file: [(qualified name, first line, last line)]} of the functions the property's anchors name"""
    out = {}
    for f, wants in srccov.anchored_names(HERE, prop).items():
        path = os.path.join(PKG, f)
        if not os.path.exists(path):
            continue
        fns = srccov._functions(path)
        for q in srccov._match_anchors(fns, wants):
            ls = fns[q][1]
            if ls:
                out.setdefault(f, []).append((q, fns[q][0], max(ls)))
    return out


def mutants_of(path, ranges):
    """[(line, description, start offset, end offset, replacement text)] — one text edit each"""
    src = open(path, encoding='utf-8').read()
    tree = ast.parse(src)
    lines = src.split('\n')
    starts = [0]
    for l in lines:
        starts.append(starts[-1] + len(l) + 1)

    def off(line, col):
        # col is a UTF-8 byte offset; the sources here are ASCII on code lines
        return starts[line - 1] + col

    def inside(n):
        return any(lo <= n.lineno <= hi for _, lo, hi in ranges)

    out = []
    for n in ast.walk(tree):
        if not hasattr(n, 'lineno') or not inside(n):
            continue
        seg = ast.get_source_segment(src, n)
        if seg is None:
            continue
        a, b = off(n.lineno, n.col_offset), off(n.end_lineno, n.end_col_offset)
        if isinstance(n, ast.Compare) and len(n.ops) == 1 and type(n.ops[0]) in CMP:
            l, r = ast.get_source_segment(src, n.left), ast.get_source_segment(src, n.comparators[0])
            if l and r:
                out.append((n.lineno, 'cmp %s -> %s' % (type(n.ops[0]).__name__, CMP[type(n.ops[0])]), a, b,
                            '(%s) %s (%s)' % (l, CMP[type(n.ops[0])], r)))
        elif isinstance(n, ast.BoolOp) and len(n.values) == 2:
            l, r = ast.get_source_segment(src, n.values[0]), ast.get_source_segment(src, n.values[1])
            if l and r:
                op = 'or' if isinstance(n.op, ast.And) else 'and'
                out.append((n.lineno, 'bool -> %s' % op, a, b, '(%s) %s (%s)' % (l, op, r)))
        elif isinstance(n, ast.UnaryOp) and isinstance(n.op, ast.Not):
            o = ast.get_source_segment(src, n.operand)
            if o:
                out.append((n.lineno, 'not dropped', a, b, '(%s)' % o))
        elif isinstance(n, ast.Constant) and isinstance(n.value, bool):
            out.append((n.lineno, 'bool const flipped', a, b, str(not n.value)))
        elif isinstance(n, ast.Constant) and isinstance(n.value, int) and not isinstance(n.value, bool) and 0 <= n.value <= 3:
            out.append((n.lineno, 'int %d -> %d' % (n.value, n.value + 1), a, b, str(n.value + 1)))
        elif isinstance(n, (ast.If, ast.While)) and isinstance(n, ast.If):
            t = ast.get_source_segment(src, n.test)
            if t:
                ta, tb = off(n.test.lineno, n.test.col_offset), off(n.test.end_lineno, n.test.end_col_offset)
                out.append((n.lineno, 'if forced False', ta, tb, 'False'))
                out.append((n.lineno, 'if forced True', ta, tb, 'True'))
        elif isinstance(n, ast.Return) and n.value is not None and not (isinstance(n.value, ast.Constant) and n.value.value is None):
            out.append((n.lineno, 'return None', a, b, 'return None'))
        elif isinstance(n, ast.Expr) and isinstance(n.value, ast.Call) and n.lineno == n.end_lineno:
            out.append((n.lineno, 'call statement dropped', a, b, 'pass'))
        elif isinstance(n, (ast.Assign, ast.AugAssign)) and n.lineno == n.end_lineno:
            out.append((n.lineno, 'assignment dropped', a, b, 'pass'))
        elif isinstance(n, (ast.Continue, ast.Break)):
            out.append((n.lineno, '%s dropped' % type(n).__name__.lower(), a, b, 'pass'))
    return src, out


def sh(cmd, cwd=None, env=None, timeout=1500):
    try:
        p = subprocess.run(cmd, shell=True, cwd=cwd, env=env, stdout=subprocess.PIPE, stderr=subprocess.STDOUT, text=True,
                           timeout=timeout)
        return p.returncode, p.stdout
    except subprocess.TimeoutExpired:
        return 124, 'TIMEOUT'


def run_one(job):
    prop, f, line, desc, a, b, repl, src, slot = job
    verif = slot['verif']
    d = tempfile.mkdtemp(prefix='ahp-mut-')
    try:
        shutil.copytree(REPO, os.path.join(d, 'repo'), ignore=shutil.ignore_patterns('.git', '__pycache__', 'doc'))
        repo = os.path.join(d, 'repo')
        with open(os.path.join(repo, 'AdvancedHTMLParser', f), 'w', encoding='utf-8') as fh:
            fh.write(src[:a] + repl + src[b:])
        rc, out = sh('/venv/bin/python -c "import sys; sys.path.insert(0, \'.\'); import AdvancedHTMLParser"', cwd=repo, timeout=60)
        if rc != 0:
            return 'broken', 'import fails'
        rc, out = sh('/venv/bin/python -m pytest -q -p no:cacheprovider --timeout=120 -x -q 2>&1 | tail -1', cwd=repo, timeout=600)
        last = out.strip().split('\n')[-1]
        if '124 passed' not in last or '16 failed' not in last:
            # -x stops at the first failure of the 16 known failing tests too: rerun without -x to count
            rc, out = sh('/venv/bin/python -m pytest -q -p no:cacheprovider --timeout=120 2>&1 | tail -1', cwd=repo, timeout=900)
            last = out.strip().split('\n')[-1]
            if '124 passed' not in last or '16 failed' not in last:
                return 'suite', last[:80]
        env = dict(os.environ, AHP_REPO=repo, AHP_SRCCOV='0', AHP_WIDEN='3000')
        rc, out = sh('./check %s quick' % prop, cwd=verif, env=env, timeout=1500)
        vl = [l for l in out.split('\n') if l.startswith('VIOLATION')]
        if rc == 1 and vl:
            if vl[0].rstrip().endswith('no-failing-input-found'):
                return 'flagged', ''
            kind = ''
            m = re.search(r'replay=(\S+)', vl[0])
            if m and os.path.exists(os.path.join(verif, m.group(1))):
                try:
                    kind = (json.load(open(os.path.join(verif, m.group(1)))).get('failure') or [''])[0]
                except Exception:
                    pass
            return 'killed', kind
        if rc == 0:
            return 'survived', ''
        return 'broken', 'check exit %s: %s' % (rc, out.strip().split('\n')[-1][:120])
    finally:
        shutil.rmtree(d, ignore_errors=True)


def main():
    rng = random.Random(SEED)
    jobs = []
    for prop in PROPS:
        cands = []
        for f, ranges in sorted(anchored_ranges(prop).items()):
            src, ms = mutants_of(os.path.join(PKG, f), ranges)
            for (line, desc, a, b, repl) in ms:
                cands.append((prop, f, line, desc, a, b, repl, src))
        rng.shuffle(cands)
        jobs.extend(cands[:MAXN])
    print('%d mutants over %d properties' % (len(jobs), len(PROPS)), flush=True)
    # private copies of /verif, one per worker slot (generated tables, evidence and replays stay apart)
    base = tempfile.mkdtemp(prefix='ahp-mutverif-')
    slots = []
    for k in range(JOBS):
        v = os.path.join(base, 'v%d' % k)
        shutil.copytree(HERE, v, ignore=shutil.ignore_patterns('.git', 'replays', '.srccov', '__pycache__', 'seeded'), symlinks=True)
        slots.append({'verif': v, 'busy': False})
    import threading
    lock = threading.Lock()
    results = []

    def work(j):
        with lock:
            slot = next(s for s in slots if not s['busy'])
            slot['busy'] = True
        try:
            verdict, info = run_one(j + (slot,))
        except Exception as e:
            verdict, info = 'broken', '%s: %s' % (type(e).__name__, e)
        finally:
            with lock:
                slot['busy'] = False
        rec = {'property': j[0], 'file': j[1], 'line': j[2], 'mutation': j[3], 'verdict': verdict, 'info': info,
               'source': j[7].split('\n')[j[2] - 1].strip()[:120]}
        with lock:
            results.append(rec)
            print('%s %s:%d %-26s %-9s %s' % (rec['property'], rec['file'], rec['line'], rec['mutation'], verdict, info), flush=True)
            json.dump(summary(results), open(OUT, 'w'), indent=1)
    try:
        with ThreadPoolExecutor(max_workers=JOBS) as ex:
            list(ex.map(work, jobs))
    finally:
        shutil.rmtree(base, ignore_errors=True)
    s = summary(results)
    json.dump(s, open(OUT, 'w'), indent=1)
    print(json.dumps(s['counts'], indent=1))


def summary(results):
    counts = {}
    for r in results:
        c = counts.setdefault(r['property'], {})
        c[r['verdict']] = c.get(r['verdict'], 0) + 1
    tot = {}
    for c in counts.values():
        for k, v in c.items():
            tot[k] = tot.get(k, 0) + v
    return {'counts': counts, 'total': tot, 'survivors': [r for r in results if r['verdict'] == 'survived'],
            'flagged': [r for r in results if r['verdict'] == 'flagged'], 'broken': [r for r in results if r['verdict'] == 'broken'],
            'all': results}


if __name__ == '__main__':
    main()
