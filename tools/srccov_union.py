#!/usr/bin/env python3
"""tools/srccov_union.py — union of the library lines reached by the last runs of all checks (.srccov/*.json): per file the
functions no stream ever enters and the overall line reach. Development tool; feeds the table in design.d/06-trusted-base.md."""
import json, os, sys
HERE = os.path.dirname(os.path.dirname(os.path.abspath(__file__)))
sys.path.insert(0, os.path.join(HERE, 'harness'))
from ahpcheck import srccov
hits = {}
who = {}
d = os.path.join(HERE, '.srccov')
for f in sorted(os.listdir(d)):
    for fn, l in json.load(open(os.path.join(d, f))):
        hits.setdefault(fn, set()).add(l)
        who.setdefault((fn, l), set()).add(f[:-5])
base = '/repo/AdvancedHTMLParser'
tot_hit = tot = 0
for root, _, files in os.walk(base):
    for f in sorted(files):
        if not f.endswith('.py'):
            continue
        rel = os.path.relpath(os.path.join(root, f), base)
        fns = srccov._functions(os.path.join(root, f))
        h = hits.get(rel, set())
        never = []
        nb = nh = 0
        for q, (first, ls) in sorted(fns.items(), key=lambda kv: kv[1][0]):
            if q == '<module>' or not ls:
                continue
            nb += len(ls)
            nh += len(ls & h)
            if not (ls & h):
                never.append('%s (%d lines)' % (q, len(ls)))
        tot += nb
        tot_hit += nh
        print('%-26s lines %4d / %4d   functions never entered: %d of %d' % (rel, nh, nb, len(never), sum(1 for q in fns if q != '<module>')))
        if '-v' in sys.argv:
            for n in never:
                print('      ', n)
print('total: %d / %d executable function-body lines reached by some stream' % (tot_hit, tot))
