#!/usr/bin/env python3
"""Assemble MANIFEST.json from manifest.d/*.json and known_findings.json from known_findings.d/*.json."""
import glob
import json
import os

HERE = os.path.dirname(os.path.dirname(os.path.abspath(__file__)))
props = [json.loads(l)['id'] for l in open(os.path.join(HERE, 'properties.jsonl')) if l.strip()]
frag = {}
for f in sorted(glob.glob(os.path.join(HERE, 'manifest.d', 'C*.json'))):
    d = json.load(open(f))
    frag[d['property_id']] = d
na = {}
p = os.path.join(HERE, 'manifest.d', 'not_applicable.json')
if os.path.exists(p):
    na = json.load(open(p))
checks = []
not_applicable = []
for pid in props:
    if pid in frag:
        d = frag[pid]
        checks.append({
            'property_id': pid,
            'quick_cmd': './check %s quick' % pid,
            'thorough_cmd': './check %s thorough' % pid,
            'evidence_file': 'evidence/%s.json' % pid,
            'replay_cmd_template': './check %s --replay {path}' % pid,
            'engine': 'lean-ahp',
            'level_claimed': {'category': 'proof', 'text': d['level_text'], 'design_ref': d.get('design_ref', 'DESIGN.md §5')},
            'level_note': d['level_note'],
            'technique': d['technique'],
        })
    else:
        not_applicable.append({'property_id': pid, 'reason': na.get(pid, 'not claimed yet: the Lean model, theorems and correspondence stream for this property are not built; nothing is asserted about it')})
manifest = {
    'version': 1,
    'setup_cmd': './setup.sh',
    'hooks': {
        'guard': 'KATA198_ADVANCEDHTMLPARSER_VERIF',
        'enable': 'no source hooks are needed: checks import the library from /repo in process and patch module-level constants (cache bounds, pdb.set_trace) from the harness at run time',
        'baseline_off_cmd': 'cd /repo && /venv/bin/python -m pytest -ra -q -p no:cacheprovider --timeout=900 --continue-on-collection-errors',
        'source_commits': [],
        'add_only': True,
    },
    'engines': [{
        'name': 'lean-ahp',
        'path': 'lean/',
        'serves_properties': [c['property_id'] for c in checks],
        'kind_free_text': 'Lean 4.33 library AHP (import-free executable model, lemmas, one Props file of theorems per property) + native driver ahp-driver; python harness harness/ahpcheck (translator, generators, adapters, differ, oracles)',
    }],
    'checks': checks,
    'not_applicable': not_applicable,
    'notes': 'Every check: regenerates lean/AHP/Gen/Tables.lean from /repo, rebuilds and audits the property theorems (#print axioms), runs the correspondence stream model-vs-library and the direct property oracle on the library. Exit 2 = the machinery itself failed. AHP_REPO selects another source tree (default /repo).',
}
with open(os.path.join(HERE, 'MANIFEST.json'), 'w') as fh:
    json.dump(manifest, fh, indent=1)
    fh.write('\n')

findings, fixed = [], []
for f in sorted(glob.glob(os.path.join(HERE, 'known_findings.d', '*.json'))):
    d = json.load(open(f))
    findings.extend(d.get('findings', []))
    fixed.extend(d.get('fixed', []))
with open(os.path.join(HERE, 'known_findings.json'), 'w') as fh:
    json.dump({'findings': findings, 'fixed': fixed}, fh, indent=1)
    fh.write('\n')
print('MANIFEST.json: %d checks, %d not_applicable; known_findings.json: %d findings, %d fixed' % (len(checks), len(not_applicable), len(findings), len(fixed)))
