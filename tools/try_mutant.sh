#!/bin/sh
# tools/try_mutant.sh <patch.diff> <Cxx> [tier]  — run a check against a scratch worktree of /repo with the patch applied
# (development tool; never a registered command). The worktree lives outside /repo and /verif and is removed afterwards.
set -e
PATCH="$(readlink -f "$1")"; PROP="$2"; TIER="${3:-quick}"
HERE="$(cd "$(dirname "$0")/.." && pwd)"
WT="$(mktemp -d /tmp/ahp-mut-XXXXXX)"
rmdir "$WT"
git -C /repo worktree add -q --detach "$WT" HEAD
trap 'git -C /repo worktree remove --force "$WT" >/dev/null 2>&1 || true' EXIT
git -C "$WT" apply "$PATCH"
( cd "$WT" && /venv/bin/python -m pytest -q -p no:cacheprovider --timeout=900 2>&1 | tail -1 )
cd "$HERE"
AHP_REPO="$WT" ./check "$PROP" "$TIER" | tail -3 || true
