#!/usr/bin/env python3
"""Assemble DESIGN.md from design.d/: framing sections (NN-*.md, in order) around the per-property files (Cxx.md)."""
import glob
import os
import re

HERE = os.path.dirname(os.path.dirname(os.path.abspath(__file__)))
D = os.path.join(HERE, 'design.d')
frame = sorted(f for f in os.listdir(D) if re.match(r'\d\d-.*\.md$', f))
props = sorted(f for f in os.listdir(D) if re.match(r'C\d\d\.md$', f))
before = [f for f in frame if f < '05']
after = [f for f in frame if f >= '05']


def demote(text):
    """make every property file start at heading level 3"""
    lines = text.strip('\n').split('\n')
    first = next((l for l in lines if l.startswith('#')), '###')
    level = len(first) - len(first.lstrip('#'))
    shift = 3 - level
    out = []
    fence = False
    for l in lines:
        if l.startswith('```'):
            fence = not fence
        if not fence and l.startswith('#'):
            n = len(l) - len(l.lstrip('#'))
            l = '#' * max(1, n + shift) + l[n:]
        out.append(l)
    return '\n'.join(out)


import json


def fixed_table():
    kf = json.load(open(os.path.join(HERE, 'known_findings.json')))
    rows = ['| property | commit (/repo main) | what failed |', '|---|---|---|']
    for e in kf.get('fixed', []):
        what = re.sub(r'^fixed: property=\S+ \S+ ', '', e['what'])
        rows.append('| %s | `%s` | %s |' % (e['property'], e['commit'], what.replace('|', '\\|')))
    return '\n'.join(rows)


def findings_table():
    kf = json.load(open(os.path.join(HERE, 'known_findings.json')))
    rows = ['| property | id | what |', '|---|---|---|']
    for e in kf.get('findings', []):
        rows.append('| %s | `%s` | %s |' % (e['property'], e['id'], e['what'].replace('|', '\\|')))
    return '\n'.join(rows)


def seeded_table():
    rows = ['| seeded id | property | change | needs | caught by quick check | failing input reported |', '|---|---|---|---|---|---|']
    sd = os.path.join(HERE, 'seeded')
    for d in sorted(os.listdir(sd)) if os.path.isdir(sd) else []:
        mp = os.path.join(sd, d, 'meta.json')
        if not os.path.exists(mp):
            continue
        m = json.load(open(mp))
        ran = m.get('what_i_ran', {})
        q = ran.get('check', {}).get('quick', {})
        fail = q.get('replay_failure')
        rows.append('| %s | %s | %s | %s | %s | %s |' % (
            m['id'], m['property'], (m.get('summary') or '').replace('|', '\\|').replace('\n', ' ')[:260],
            (m.get('needs') or '').replace('|', '\\|').replace('\n', ' ')[:220],
            ('yes' if ran.get('caught_by_quick') else 'NO') + ((' — ' + m['verdict_note'].replace('|', '\\|')) if m.get('verdict_note') else ''),
            ('`%s`: %s' % (fail[0], str(fail[1]).replace('|', '\\|').replace('\n', ' ')[:160])) if fail else ''))
    return '\n'.join(rows)


def fill(text):
    return text.replace('{{FIXED_TABLE}}', fixed_table()).replace('{{FINDINGS_TABLE}}', findings_table()) \
        .replace('{{SEEDED_TABLE}}', seeded_table())


parts = [fill(open(os.path.join(D, f)).read().rstrip('\n')) for f in before]
for f in props:
    parts.append(demote(open(os.path.join(D, f)).read()))
parts += [fill(open(os.path.join(D, f)).read().rstrip('\n')) for f in after]
with open(os.path.join(HERE, 'DESIGN.md'), 'w') as fh:
    fh.write('\n\n'.join(parts) + '\n')
print('DESIGN.md: %d framing + %d property sections' % (len(frame), len(props)))
