#!/usr/bin/env python3
"""Rewrite the commit ids in known_findings.d/*.json `fixed` entries to the ids the same fixes have on /repo's main branch
(fix commits were cherry-picked from the builders' branches; matched by subject line)."""
import glob
import json
import re
import subprocess

log = subprocess.run(['git', '-C', '/repo', 'log', '--format=%h\t%s', 'main'], capture_output=True, text=True).stdout
main = {}
for line in log.strip().split('\n'):
    h, s = line.split('\t', 1)
    main[s] = h
main_hashes = set(main.values())
for f in sorted(glob.glob('known_findings.d/*.json')):
    d = json.load(open(f))
    changed = False
    for e in d.get('fixed', []):
        h = e.get('commit', '')
        if h in main_hashes:
            continue
        r = subprocess.run(['git', '-C', '/repo', 'log', '-1', '--format=%s', h], capture_output=True, text=True)
        subj = r.stdout.strip()
        if r.returncode == 0 and subj in main:
            new = main[subj]
            e['what'] = e['what'].replace(h, new)
            e['commit'] = new
            changed = True
        else:
            print('unresolved', f, h)
    if changed:
        json.dump(d, open(f, 'w'), indent=1)
        print('updated', f)
