#!/bin/sh
# tools/seed_eval_batch.sh <Cxx> <round tag, e.g. r3> — seed_eval.py for /tmp/seed/out-<Cxx>/m1..m3 with a one-line summary each
P="$1"; R="$2"
HERE="$(cd "$(dirname "$0")/.." && pwd)"
for i in 1 2 3; do
  [ -f /tmp/seed/out-$P/m$i/patch.diff ] || { echo "$P-${R}m$i missing"; continue; }
  python3 "$HERE/tools/seed_eval.py" /tmp/seed/out-$P/m$i $P $P-${R}m$i >/tmp/seed/eval-$P-$i.log 2>&1
  python3 - "$HERE/seeded/$P-${R}m$i/meta.json" "$P-${R}m$i" <<'PY'
import json, sys, os
p, sid = sys.argv[1], sys.argv[2]
if not os.path.exists(p):
    print(sid, 'NOT-CONFIRMED (not filed)'); sys.exit()
r = json.load(open(p))['what_i_ran']
q = r['check']['quick']
print(sid, 'confirmed' if r['confirmed'] else 'NOT-CONFIRMED', 'caught' if r['caught_by_quick'] else 'MISSED',
      (q.get('replay_failure') or [''])[0], '|', r['suite_mutant'], '|', (q['lines'] or [''])[-1][-90:])
PY
done
cd "$HERE" && git checkout -q evidence lean/AHP/Gen/Tables.lean
