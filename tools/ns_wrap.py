#!/usr/bin/env python3
"""tools/ns_wrap.py <Sub> <files...> — move a group's Lean files from `namespace AHP` into `namespace AHP.<Sub>` and add
`AHP.<Sub>` to the `open` lines of the files that use them (merge tool: groups were built independently and reuse names)."""
import re
import sys

sub = sys.argv[1]
for f in sys.argv[2:]:
    s = open(f).read()
    o = s
    s = re.sub(r'^namespace AHP\s*$', 'namespace AHP.%s' % sub, s, flags=re.M)
    s = re.sub(r'^end AHP\s*$', 'end AHP.%s' % sub, s, flags=re.M)

    def fix_open(m):
        line = m.group(0)
        if 'AHP.%s' % sub in line:
            return line
        # `open AHP ...` -> `open AHP AHP.Sub ...`; and nested opens AHP.X -> also AHP.Sub.X
        parts = line.split()
        out = []
        for p in parts:
            out.append(p)
            if p == 'AHP':
                out.append('AHP.%s' % sub)
            elif p.startswith('AHP.') and not p.startswith('AHP.Sexp') and not p.startswith('AHP.Spec') and not p.startswith('AHP.Gen') \
                    and not re.match(r'AHP\.C\d\d', p):
                out.append('AHP.%s.%s' % (sub, p[4:]))
        return ' '.join(out)
    s = re.sub(r'^open AHP.*$', fix_open, s, flags=re.M)
    if s != o:
        open(f, 'w').write(s)
        print('rewrote', f)
