#!/usr/bin/env python3
"""tools/seed_eval.py <mutant dir> <Cxx> <seeded id> — confirm a seeded change (suite still passes, demonstration passes
without and fails with it), run the property's quick check against it, and file it under /verif/seeded/<id>/.
Development tool (never a registered command); works on a scratch worktree outside /repo and /verif."""
import json
import os
import shutil
import subprocess
import sys
import tempfile

src, prop, sid = sys.argv[1], sys.argv[2], sys.argv[3]
HERE = os.path.dirname(os.path.dirname(os.path.abspath(__file__)))
patch = os.path.join(src, 'patch.diff')
demo = os.path.join(src, 'demo.py')
wt = tempfile.mkdtemp(prefix='ahp-seed-')
os.rmdir(wt)


def sh(cmd, cwd=None, env=None, timeout=1500):
    try:
        p = subprocess.run(cmd, shell=True, cwd=cwd, env=env, stdout=subprocess.PIPE, stderr=subprocess.STDOUT, text=True,
                           timeout=timeout)
    except subprocess.TimeoutExpired:
        return 124, 'TIMEOUT after %ds' % timeout
    return p.returncode, p.stdout


subprocess.check_call(['git', '-C', '/repo', 'worktree', 'add', '-q', '--detach', wt, 'HEAD'])
try:
    ran = {}
    rc, out = sh('/venv/bin/python %s' % demo, cwd=wt)
    ran['demo_unchanged'] = {'rc': rc, 'tail': out.strip().split('\n')[-1][:300]}
    rc, out = sh('git apply %s' % patch, cwd=wt)
    if rc != 0:
        print('patch does not apply:', out)
        sys.exit(2)
    rc, out = sh('/venv/bin/python -m pytest -q -p no:cacheprovider --timeout=900 2>&1 | tail -1', cwd=wt)
    ran['suite_mutant'] = out.strip()
    rc, out = sh('/venv/bin/python %s' % demo, cwd=wt, timeout=180)
    ran['demo_mutant'] = {'rc': rc, 'tail': out.strip().split('\n')[-1][:300]}
    env = dict(os.environ, AHP_REPO=wt)
    results = {}
    for tier in ['quick']:
        rc, out = sh('./check %s %s' % (prop, tier), cwd=HERE, env=env)
        lines = [l for l in out.strip().split('\n') if l.startswith('VIOLATION') or l.startswith(prop)]
        results[tier] = {'rc': rc, 'lines': lines[-2:]}
        replay = None
        for l in lines:
            if l.startswith('VIOLATION') and 'replay=' in l:
                replay = l.split('replay=')[1].split()[0]
        if replay and os.path.exists(os.path.join(HERE, replay)):
            doc = json.load(open(os.path.join(HERE, replay)))
            results[tier]['replay_case'] = doc.get('case')
            results[tier]['replay_failure'] = doc.get('failure')
    ran['check'] = results
    ok = ('124 passed' in ran['suite_mutant'] and '16 failed' in ran['suite_mutant'] and ran['demo_unchanged']['rc'] == 0
          and ran['demo_mutant']['rc'] != 0)
    ran['confirmed'] = ok
    caught = results['quick']['rc'] == 1 and any(l.startswith('VIOLATION') for l in results['quick']['lines'])
    ran['caught_by_quick'] = caught
    print(json.dumps(ran, indent=1)[:3000])
    if ok:
        dst = os.path.join(HERE, 'seeded', sid)
        os.makedirs(dst, exist_ok=True)
        shutil.copy(patch, os.path.join(dst, 'patch.diff'))
        shutil.copy(demo, os.path.join(dst, 'demo.py'))
        meta = {}
        mp = os.path.join(src, 'meta.json')
        if os.path.exists(mp):
            try:
                meta = json.load(open(mp))
            except Exception:
                meta = {}
        json.dump({'property': prop, 'id': sid, 'summary': meta.get('summary'), 'needs': meta.get('needs'),
                   'files': meta.get('files'), 'what_i_ran': ran,
                   'origin': 'fresh sub-agent given only the property text and a scratch worktree'},
                  open(os.path.join(dst, 'meta.json'), 'w'), indent=1)
finally:
    subprocess.call(['git', '-C', '/repo', 'worktree', 'remove', '--force', wt])
