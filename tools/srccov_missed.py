#!/usr/bin/env python3
"""tools/srccov_missed.py Cxx ... — print the source text of the anchored lines the last run of a check did not execute"""
import json, sys, os
HERE = os.path.dirname(os.path.dirname(os.path.abspath(__file__)))
for p in sys.argv[1:]:
    d = json.load(open(os.path.join(HERE, 'evidence', p + '.json')))['coverage']['source_coverage']
    print('==', p, d.get('anchored_lines_hit'), '/', d.get('anchored_lines_executable'), 'never entered:', d.get('anchored_functions_never_entered'))
    for k, ls in sorted(d.get('anchored_lines_not_executed', {}).items()):
        f = k.split(':')[0]
        src = open(os.path.join('/repo/AdvancedHTMLParser', f)).read().split('\n')
        print('  ', k)
        for l in ls:
            print('      %5d  %s' % (l, src[l - 1].strip()[:110]))
