#!/usr/bin/env python3
"""tools/seed_prompt.py <Cxx> <worktree> <outdir> — text of the task given to a fresh sub-agent that seeds
property-breaking changes (only the property text and a scratch worktree; nothing from /verif)."""
import json, sys, os
pid, wt, out = sys.argv[1], sys.argv[2], sys.argv[3]
hint = sys.argv[4] if len(sys.argv) > 4 else ''
here = os.path.dirname(os.path.dirname(os.path.abspath(__file__)))
for line in open(os.path.join(here, 'properties.jsonl')):
    p = json.loads(line)
    if p['id'] == pid:
        break
print(f"""You are testing how well a semantic property of the Python library kata198/AdvancedHTMLParser is protected. You have your own scratch git worktree of the library at {wt} (a detached checkout; work only inside it and inside {out}; never touch /repo or /verif, and do not read anything under /verif).

The property ("{p['title']}"):

{p['statement']}

Domain the property is meant over: {p['quantifier']['text']}

Your job: produce THREE independent, realistic changes to the library (each a separate patch against the unchanged worktree) that BREAK this property while the library still imports and the existing test suite still passes exactly as before. Run the suite from inside the worktree with
    cd {wt} && /venv/bin/python -m pytest -q -p no:cacheprovider --timeout=900 2>&1 | tail -1
On the unchanged worktree it prints "16 failed, 124 passed" (the 16 failures are pre-existing); with each of your changes it must print the same counts. IMPORTANT: /venv has an editable install pointing at /repo, so scripts must put the worktree first on sys.path: start every demonstration script with
    import sys, os; sys.path.insert(0, os.getcwd())
and run it with cwd = the worktree (cd {wt} && /venv/bin/python <script>); check AdvancedHTMLParser.__file__ points into {wt}.

What kind of change: the sort of thing a maintainer could plausibly commit (a refactor, an "optimisation", a tidy-up, a bug fix that goes too far, two cooperating edits that each look fine alone), NOT a blatant sabotage. Prefer changes that need something specific to manifest - a multi-step sequence of operations, an unusual input, a particular object history or reuse, two cooperating sites - rather than ones ordinary use would expose at once. The change must violate the property INSIDE its stated domain (respect any precondition named above). Make the three changes different in kind and in the code they touch.{(' ' + hint) if hint else ''}

For each change i in 1..3 write into {out}/m<i>/ :
  patch.diff  - `git diff` output against the unchanged worktree (must apply with `git apply` to a clean checkout)
  demo.py     - a small self-contained program (beginning with the sys.path line above) that checks the property on some inputs using only the library's public API; it must exit 0 and print PASS on the unchanged library and exit non-zero (printing what failed) with the change applied
  meta.json   - {{"summary": what was changed and why it breaks the property, "needs": what is needed for it to manifest, "files": [files touched]}}
Before you finish, for each change verify all three facts yourself: suite counts unchanged with the patch; demo passes without the patch; demo fails with the patch. Then restore the worktree to clean (`git -C {wt} checkout -- .`). Report, per change, one paragraph: what it is, what it needs to manifest, and the three verification results. Do not create files anywhere else.""")
