#!/usr/bin/env python3
"""tools/mutation_cross.py <sweep.json> [--jobs J] — second pass over the survivors of tools/mutation_sweep.py: a mutant of a
function that several properties anchor is run against the quick checks of the OTHER properties anchoring that line (the
evaluator loop is anchored by C15, but what it computes is C14's subject, …). Adds `killed_by` / `flagged_by` to the survivor
records and rewrites the file. Development tool."""
import json, os, sys, shutil, tempfile, threading
from concurrent.futures import ThreadPoolExecutor
HERE = os.path.dirname(os.path.dirname(os.path.abspath(__file__)))
sys.path.insert(0, os.path.join(HERE, 'tools'))
sys.argv = [sys.argv[0]] + sys.argv[1:]
import importlib.util
spec = importlib.util.spec_from_file_location('ms', os.path.join(HERE, 'tools', 'mutation_sweep.py'))
ms = importlib.util.module_from_spec(spec)
spec.loader.exec_module(ms)
path = sys.argv[1]
jobs_n = int(ms.arg('--jobs', '6'))
d = json.load(open(path))
props = ['C%02d' % i for i in range(1, 21)]
ranges = {p: ms.anchored_ranges(p) for p in props}
todo = []
for r in d['all']:
    if r['verdict'] != 'survived':
        continue
    others = [p for p in props if p != r['property'] and any(lo <= r['line'] <= hi for _, lo, hi in ranges[p].get(r['file'], []))]
    r['other_properties'] = others
    for p in others:
        todo.append((r, p))
print('%d survivor x property runs' % len(todo), flush=True)
# regenerate the edits: same mutation description on the same line
cache = {}
def edit_for(r):
    key = r['file']
    if key not in cache:
        allr = [(q, lo, hi) for p in props for q, lo, hi in ranges[p].get(key, [])]
        cache[key] = ms.mutants_of(os.path.join(ms.PKG, key), allr)
    src, muts = cache[key]
    for (line, desc, a, b, repl) in muts:
        if abs(line - r['line']) <= 2 and desc == r['mutation'] and src.split('\n')[line - 1].strip()[:120] == r['source']:
            return src, a, b, repl
    return None
base = tempfile.mkdtemp(prefix='ahp-mutverif-')
slots = []
for k in range(jobs_n):
    v = os.path.join(base, 'v%d' % k)
    shutil.copytree(HERE, v, ignore=shutil.ignore_patterns('.git', 'replays', '.srccov', '__pycache__', 'seeded'), symlinks=True)
    slots.append({'verif': v, 'busy': False})
lock = threading.Lock()
def work(item):
    r, p = item
    e = edit_for(r)
    if e is None:
        return
    src, a, b, repl = e
    with lock:
        slot = next(s for s in slots if not s['busy']); slot['busy'] = True
    try:
        verdict, info = ms.run_one((p, r['file'], r['line'], r['mutation'], a, b, repl, src, slot))
    except Exception as ex:
        verdict, info = 'broken', str(ex)
    finally:
        with lock:
            slot['busy'] = False
    with lock:
        if verdict == 'killed':
            r.setdefault('killed_by', []).append(p)
        elif verdict == 'flagged':
            r.setdefault('flagged_by', []).append(p)
        print(r['property'], r['file'], r['line'], r['mutation'], '->', p, verdict, info, flush=True)
        d['survivors'] = [x for x in d['all'] if x['verdict'] == 'survived']
        json.dump(d, open(path, 'w'), indent=1)
try:
    with ThreadPoolExecutor(max_workers=jobs_n) as ex:
        list(ex.map(work, todo))
finally:
    shutil.rmtree(base, ignore_errors=True)
n = [x for x in d['survivors'] if not x.get('killed_by')]
print('survivors not killed by any anchoring property: %d of %d' % (len(n), len(d['survivors'])))
