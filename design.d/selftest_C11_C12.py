"""Mutation self-test for C11/C12 (development tool, not a registered command).

usage: AHP_SELFTEST_REPO=<repo worktree> AHP_SELFTEST_VERIF=<verif worktree> python selftest_C11_C12.py [name-prefix]
Applies each change alone to the repo worktree (which must be a clean git checkout), runs the pinned suite and the
quick checks of C11 and C12 against it, prints one JSON line per mutant, and reverts the change (git checkout).
Results of the recorded run: design.d/C11.md, design.d/C12.md."""
import subprocess, sys, os, json, re
REPO=os.environ.get('AHP_SELFTEST_REPO','/work/repo-6'); VERIF=os.environ.get('AHP_SELFTEST_VERIF','/work/verif-6')
F='AdvancedHTMLParser/Formatter.py'; T='AdvancedHTMLParser/Tags.py'; P='AdvancedHTMLParser/Parser.py'
M=[
 ('C11-comment-dropped-in-fmt', F, "            inTag[-1].appendText('<!--%s-->' %(comment,))\n", "            pass\n", 1),
 ('C11-squeeze-in-pre', F, "if self.inPreformatted == 0 and inTag[-1].tagName not in PRESERVE_CONTENTS_TAGS:", "if inTag[-1].tagName not in ('script', 'style'):", 1),
 ('C11-direct-parent-only', F, "if self.inPreformatted == 0 and inTag[-1].tagName not in PRESERVE_CONTENTS_TAGS:", "if inTag[-1].tagName not in PRESERVE_CONTENTS_TAGS:", 1),
 ('C11-charref-drop-hash', F, "inTag[-1].appendText('&#%s;' %(charRef,))", "inTag[-1].appendText('&%s;' %(charRef,))", 1),
 ('C11-squeeze-script', F, "if self.inPreformatted == 0 and inTag[-1].tagName not in PRESERVE_CONTENTS_TAGS:", "if self.inPreformatted == 0 and inTag[-1].tagName not in PREFORMATTED_TAGS:", 1),
 ('C11-strip-all-harmless', F, "data = data.replace('\\t', ' ').strip('\\r\\n')", "data = data.replace('\\t', ' ').strip()", 1),
 ('C11-first-doctype-wins', F, "        self.doctype = decl\n\n    def unknown_decl", "        if not self.doctype:\n            self.doctype = decl\n\n    def unknown_decl", 1),
 ('C11-mini-via-pretty', P, "        formatter = AdvancedHTMLMiniFormatter(None) # Do not double-encode", "        formatter = AdvancedHTMLFormatter('', None) # Do not double-encode", 1),
 ('C11-formatted-ignores-indent', P, "formatter = AdvancedHTMLFormatter(indent, None)", "formatter = AdvancedHTMLFormatter('  ', None)", 1),
 ('C11-reset-keeps-doctype', F, "        self.root = None\n        self.doctype = None\n        self.inPreformatted = 0\n", "        self.root = None\n        self.inPreformatted = 0\n", 1),
 ('C11-pop-one', F, "            while inTag[-1].tagName != tagName:\n                oldTag = inTag.pop()", "            if inTag[-1].tagName != tagName:\n                oldTag = inTag.pop()", 1),
 ('C11-bytes-latin1', F, "            self.feed(html.decode(self.encoding))", "            self.feed(html.decode('latin-1'))", 1),
 ('C11-startend-as-open', F, "        return self.handle_starttag(tagName, attributeList, True)", "        return self.handle_starttag(tagName, attributeList, False)", 1),
 ('C11-entity-in-pre-squeezed', F, "            inTag[-1].appendText('&%s;' %(entity,))", "            inTag[-1].appendText(('&%s;' %(entity,)) if self.inPreformatted == 0 else ('&%s; ' %(entity,)).strip())", 1),
 ('C11-data-after-root-dropped', F, "            elif data.strip():\n                # Must be text prior to or after root node\n                raise MultipleRootNodeException()", "            elif data.strip() and self.root is None:\n                # Must be text prior to or after root node\n                raise MultipleRootNodeException()", 1),
 ('C12-implicit-close-no-dedent', F, "                    self.inPreformatted -= 1\n\n                self.currentIndentLevel -= 1\n", "                    self.inPreformatted -= 1\n\n", 1),
 ('C12-wrapper-counted', F, "            if tagName != INVISIBLE_ROOT_TAG:\n                self.currentIndentLevel += 1\n            # Only an element that stays open has preformatted content (and an end tag that leaves it again)\n            if tagName in PREFORMATTED_TAGS:\n                self.inPreformatted += 1\n\n\n    def handle_startendtag", "            self.currentIndentLevel += 1\n            # Only an element that stays open has preformatted content (and an end tag that leaves it again)\n            if tagName in PREFORMATTED_TAGS:\n                self.inPreformatted += 1\n\n\n    def handle_startendtag", 1),
 ('C12-implicit-close-keeps-pre', F, "                if oldTag.tagName in PREFORMATTED_TAGS:\n                    self.inPreformatted -= 1\n", "", 1),
 ('C12-reset-keeps-inpre', F, "        self.doctype = None\n        self.inPreformatted = 0\n", "        self.doctype = None\n", 1),
 ('C12-reset-keeps-level', F, "        HTMLParser.reset(self)\n        self.currentIndentLevel = 0\n", "        HTMLParser.reset(self)\n", 1),
 ('C12-slim-selfclosed-pre-bumps', F, "        inTag.append(newTag)\n        if tagName != INVISIBLE_ROOT_TAG:\n            self.currentIndentLevel += 1\n        # Only an element that stays open has preformatted content (and an end tag that leaves it again)\n        if tagName in PREFORMATTED_TAGS:\n            self.inPreformatted += 1\n", "        inTag.append(newTag)\n        if tagName != INVISIBLE_ROOT_TAG:\n            self.currentIndentLevel += 1\n    if tagName in PREFORMATTED_TAGS:\n        self.inPreformatted += 1\n", 1),
 ('C12-slim-ssc-ignored', F, "    newTag = AdvancedTagSlim(tagName, attributeList, isSelfClosing, slimSelfClosing=self.slimSelfClosing)", "    newTag = AdvancedTagSlim(tagName, attributeList, isSelfClosing)", 1),
 ('C12-slimmini-inherits-pretty', F, "class AdvancedHTMLSlimTagMiniFormatter(AdvancedHTMLMiniFormatter):", "class AdvancedHTMLSlimTagMiniFormatter(AdvancedHTMLFormatter):", 1),
 ('C12-pre-endtag-indented', T, "        if self._indent and tagName in PREFORMATTED_TAGS:\n            return \"</%s>\" %(tagName, )\n", "", 1),
 ('C12-slim-void-not-selfclosing', F, "    if isSelfClosing is False and tagName in IMPLICIT_SELF_CLOSING_TAGS:\n        isSelfClosing = True\n\n    newTag = AdvancedTagSlim", "    newTag = AdvancedTagSlim", 1),
 ('C12-tabs-kept', F, "data = data.replace('\\t', ' ').strip('\\r\\n')", "data = data.strip('\\r\\n')", 1),
 ('C12-strip-lf-only', F, "data = data.replace('\\t', ' ').strip('\\r\\n')", "data = data.replace('\\t', ' ').strip('\\n')", 1),
 ('C12-script-grows', T, "            if not isinstance(lastBlock, AdvancedTag) and lastBlock.endswith(self._indent):", "            if False:", 1),
 ('C12-explicit-close-keeps-pre', F, "            if tagName in PREFORMATTED_TAGS:\n                self.inPreformatted -= 1\n        except:", "        except:", 1),
 ('C12-indent-in-pre', F, "        if self.inPreformatted == 0:\n            newTag._indent = self._getIndent()\n\n        if isSelfClosing is False:\n            inTag.append(newTag)\n            if tagName != INVISIBLE_ROOT_TAG:\n                self.currentIndentLevel += 1\n            # Only", "        if self.inPreformatted <= 1:\n            newTag._indent = self._getIndent()\n\n        if isSelfClosing is False:\n            inTag.append(newTag)\n            if tagName != INVISIBLE_ROOT_TAG:\n                self.currentIndentLevel += 1\n            # Only", 1),
 ('C12-slim-surgery-every-gt', F, "        if ret.endswith(' >'):\n            ret = ret[:-2] + '>'", "        if ret.endswith(' >'):\n            ret = ret.replace(' >', '>')", 1),
 ('C12-trailing-space-kept', F, "                    if data.endswith(' '):\n                        data = data.rstrip() + ' '\n", "", 1),
 ('C12-void-pre-table', 'AdvancedHTMLParser/constants.py', "PREFORMATTED_TAGS = set(['pre', 'code'])", "PREFORMATTED_TAGS = set(['pre'])", 1),
 ('B2-selfclosing-start-no-indent', T, '            return "%s<%s%s />" %(self._indent, self.tagName, attributeString)', '            return "<%s%s />" %(self.tagName, attributeString)', 1),
 ('B2-level-bumped-for-selfclosing', F, "        if isSelfClosing is False:\n            inTag.append(newTag)\n            if tagName != INVISIBLE_ROOT_TAG:\n                self.currentIndentLevel += 1\n            # Only", "        if tagName != INVISIBLE_ROOT_TAG:\n            self.currentIndentLevel += 1\n        if isSelfClosing is False:\n            inTag.append(newTag)\n            # Only", 1),
 ('B2-wrapper-pop-decrements', F, "            inTag.pop()\n            if tagName != INVISIBLE_ROOT_TAG:\n                self.currentIndentLevel -= 1\n", "            inTag.pop()\n            self.currentIndentLevel -= 1\n", 1),
 ('B2-getHTML-always-outer', F, "        if rootNode.tagName == INVISIBLE_ROOT_TAG:\n            return doctypeStr + rootNode.innerHTML\n        else:\n            return doctypeStr + rootNode.outerHTML", "        return doctypeStr + rootNode.outerHTML", 1),
 ('B2-doctype-no-newline-harmless', F, "            doctypeStr = '<!%s>\\n' %(self.doctype)", "            doctypeStr = '<!%s>' %(self.doctype)", 1),
 ('B2-feed-no-reset', F, "        except MultipleRootNodeException:\n            self.reset()\n", "        except MultipleRootNodeException:\n            self._inTag = []\n            self.root = None\n", 1),
 ('B2-lstrip-spaces-only', F, "                        data = ' ' + data.lstrip()", "                        data = ' ' + data.lstrip(' ')", 1),
 ('B2-startswith-any-ws', F, "                    if data.startswith(' '):", "                    if data[:1].isspace():", 1),
 ('B2-parser-formatted-from-outerHTML', P, "        from .Formatter import AdvancedHTMLFormatter\n        html = self.getHTML()", "        from .Formatter import AdvancedHTMLFormatter\n        html = self.getRoot().outerHTML", 1),
 ('B2-slim-default-indent', F, "    def __init__(self, indent='    ', encoding='utf-8', slimSelfClosing=False):", "    def __init__(self, indent='  ', encoding='utf-8', slimSelfClosing=False):", 1),
 ('B2-int-indent-tabs', F, "            indent = ' ' * indent", "            indent = '\\t' * indent", 1),
 ('B2-endtag-indent-only-if-children', T, "        # Otherwise, indent the end of this tag\n        return \"%s</%s>\" %(self._indent, tagName)", "        # Otherwise, indent the end of this tag\n        if not self.children:\n            return \"</%s>\" %(tagName, )\n        return \"%s</%s>\" %(self._indent, tagName)", 1),
 ('B2-found-skips-root', F, "            for i in range(len(inTag)):\n                if inTag[i].tagName == tagName:", "            for i in range(1, len(inTag)):\n                if inTag[i].tagName == tagName:", 1),
 ('B2-text-outside-root-ignored', F, "            elif data.strip():\n                # Must be text prior to or after root node\n                raise MultipleRootNodeException()", "            elif data.strip() and False:\n                raise MultipleRootNodeException()", 1),
 ('B2-indent-uses-stack-depth', F, "        return '\\n' + (self.indent * self.currentIndentLevel)", "        return '\\n' + (self.indent * len(self._inTag))", 1),
 ('B2-script-fix-any-suffix', T, "            if not isinstance(lastBlock, AdvancedTag) and lastBlock.endswith(self._indent):", "            if not isinstance(lastBlock, AdvancedTag) and lastBlock.endswith('\\n'):", 1),
 ('B2-pre-in-script-count', F, "                if oldTag.tagName in PREFORMATTED_TAGS:\n                    self.inPreformatted -= 1\n", "                if oldTag.tagName in PRESERVE_CONTENTS_TAGS:\n                    self.inPreformatted -= 1\n", 1),
 ('B2-entityref-lower', F, "            inTag[-1].appendText('&%s;' %(entity,))", "            inTag[-1].appendText('&%s;' %(entity.lower(),))", 1),
 ('B2-mini-keeps-indent-arg', F, "        AdvancedHTMLFormatter.__init__(self, indent='', encoding=encoding)\n\n    def _getIndent(self):\n        return ''", "        AdvancedHTMLFormatter.__init__(self, indent='', encoding=encoding)\n\n    def _getIndent(self):\n        return '' if self.currentIndentLevel else '\\n'", 1),
 ('B3-trail-before-lead', F, "                    if data.startswith(' '):\n                        data = ' ' + data.lstrip()\n                    if data.endswith(' '):\n                        data = data.rstrip() + ' '\n", "                    if data.endswith(' '):\n                        data = data.rstrip() + ' '\n                    if data.startswith(' '):\n                        data = ' ' + data.lstrip()\n", 1),
 ('B3-implicit-pop-tests-endtag-name', F, "                if oldTag.tagName in PREFORMATTED_TAGS:\n                    self.inPreformatted -= 1\n", "                if tagName in PREFORMATTED_TAGS:\n                    self.inPreformatted -= 1\n", 1),
 ('B3-dedent-only-with-pre', F, "                    self.inPreformatted -= 1\n\n                self.currentIndentLevel -= 1\n", "                    self.inPreformatted -= 1\n                    self.currentIndentLevel -= 1\n", 1),
 ('B3-parseFile-no-reset', F, "        self.reset()\n\n        if isinstance(filename, file):", "        if isinstance(filename, file):", 1),
 ('B3-slim-indent-in-pre', F, "    if self.inPreformatted == 0:\n        newTag._indent = self._getIndent()\n", "    newTag._indent = self._getIndent()\n", 1),
 ('B3-pre-start-unindented', F, "        if self.inPreformatted == 0:\n            newTag._indent = self._getIndent()\n\n        if isSelfClosing is False:\n            inTag.append(newTag)\n            if tagName != INVISIBLE_ROOT_TAG:\n                self.currentIndentLevel += 1\n            # Only an element that stays open has preformatted content (and an end tag that leaves it again)\n            if tagName in PREFORMATTED_TAGS:\n                self.inPreformatted += 1\n", "        if isSelfClosing is False:\n            inTag.append(newTag)\n            if tagName != INVISIBLE_ROOT_TAG:\n                self.currentIndentLevel += 1\n            # Only an element that stays open has preformatted content (and an end tag that leaves it again)\n            if tagName in PREFORMATTED_TAGS:\n                self.inPreformatted += 1\n\n        if self.inPreformatted == 0:\n            newTag._indent = self._getIndent()\n", 1),
 ('B3-parseStr-no-reset', F, "        self.reset()\n        if isinstance(html, bytes):", "        if isinstance(html, bytes):", 1),
 ('B3-fileobj-not-read', F, "        if isinstance(filename, file):\n            contents = filename.read()", "        if isinstance(filename, file):\n            contents = filename.readline()", 1),
]
def sh(cmd, cwd, env=None):
    e=dict(os.environ); e.update(env or {})
    p=subprocess.run(cmd, cwd=cwd, shell=True, stdout=subprocess.PIPE, stderr=subprocess.STDOUT, text=True, env=e)
    return p.returncode, p.stdout
want=sys.argv[1] if len(sys.argv)>1 else ''
results=[]
for name, f, old, new, cnt in M:
    if not name.startswith(want): continue
    path=os.path.join(REPO,f)
    src=open(path).read()
    if src.count(old)!=cnt:
        print(name, 'PATTERN-COUNT', src.count(old)); continue
    open(path,'w').write(src.replace(old,new))
    try:
        rc,out=sh('/venv/bin/python -m pytest -q -p no:cacheprovider --timeout=900 2>&1 | tail -1', REPO)
        tests=out.strip()
        row={'name':name,'tests':tests}
        for prop in ('C11','C12'):
            sh('rm -rf replays', VERIF)
            rc,out=sh('./check %s quick 2>&1 | tail -4' % prop, VERIF, {'AHP_REPO':REPO,'AHP_WIDEN':'2500'})
            v=[l for l in out.split('\n') if l.startswith('VIOLATION')]
            summ=[l for l in out.split('\n') if l.startswith(prop+' quick')]
            info=''
            if v:
                m=re.search(r'replay=(\S+)', v[0])
                try:
                    d=json.load(open(os.path.join(VERIF,m.group(1))))
                    info=json.dumps({'case':d.get('case'),'failure':d.get('failure'),'kind':d.get('kind')})[:600]
                except Exception as e: info=str(e)
            row[prop]={'rc':rc,'violation':v[0] if v else None,'summary':summ[0] if summ else out[-300:],'info':info}
        results.append(row)
        print(json.dumps(row)); sys.stdout.flush()
    finally:
        sh('git checkout -- .', REPO)
        sh('rm -rf replays', VERIF)
